(* Proofs about model/Server.v: invariants of every reachable state, for all histories of events
   (clients sending any bytes, leaving gracefully or abruptly, any interleaving of the server's threads, close at any point). *)
From V Require Import lib.Base lib.Sx model.Server.
From Coq Require Import Arith.

(* ---- lists ---- *)
Lemma mem_In c l : mem c l = true <-> In c l.
Proof.
  unfold mem. rewrite existsb_exists. split.
  - intros (x & H & E). apply Nat.eqb_eq in E. now subst.
  - intros H. exists c. split; [assumption|apply Nat.eqb_refl].
Qed.
Lemma mem_app c a b : mem c (a ++ b) = mem c a || mem c b.
Proof. unfold mem. apply existsb_app. Qed.
Lemma mem_one c x : mem c [x] = Nat.eqb c x.
Proof. cbn. now rewrite orb_false_r. Qed.
Lemma mem_rm c d l : mem c (rm d l) = negb (Nat.eqb c d) && mem c l.
Proof.
  induction l as [|x l IH]; [now rewrite andb_false_r|].
  change (rm d (x :: l)) with (if negb (Nat.eqb x d) then x :: rm d l else rm d l).
  change (mem c (x :: l)) with (Nat.eqb c x || mem c l).
  destruct (Nat.eqb x d) eqn:E; cbn [negb].
  - apply Nat.eqb_eq in E. subst. rewrite IH. destruct (Nat.eqb c d); reflexivity.
  - change (mem c (x :: rm d l)) with (Nat.eqb c x || mem c (rm d l)). rewrite IH.
    destruct (Nat.eqb c d) eqn:F; cbn [negb andb]; [|reflexivity].
    apply Nat.eqb_eq in F. subst. now rewrite Nat.eqb_sym, E.
Qed.
Lemma mem_rm_same c l : mem c (rm c l) = false.
Proof. now rewrite mem_rm, Nat.eqb_refl. Qed.
Lemma mem_rm_other c d l : c <> d -> mem c (rm d l) = mem c l.
Proof. intros N. apply Nat.eqb_neq in N. now rewrite mem_rm, N. Qed.
Lemma rm_nil_of_nil d : rm d [] = [].
Proof. reflexivity. Qed.

Lemma upd_same f c k : upd f c k c = k.
Proof. unfold upd. now rewrite Nat.eqb_refl. Qed.
Lemma upd_other f c d k : d <> c -> upd f c k d = f d.
Proof. unfold upd. intros H. apply Nat.eqb_neq in H. now rewrite H. Qed.

Ltac conn_at x c :=
  destruct (Nat.eq_dec x c) as [->|?]; [rewrite ?upd_same|rewrite ?upd_other by assumption].

(* inversion of [step e s = Some s']: one goal per branch of the step function, helper functions left folded *)
Ltac break H :=
  repeat match type of H with
  | context [match ?x with _ => _ end] =>
      match x with
      | context [match _ with _ => _ end] => fail 1
      | _ => destruct x eqn:?
      end
  | Some _ = Some _ => inversion H; clear H
  | None = Some _ => discriminate H
  end.

Section P.
Variable decomp : list byte -> option (list byte).
Variable decode : list byte -> option req.
Variable K : cfg.
Notation step := (Server.step decomp decode K).
Notation reach := (Server.reach decomp decode K).
Notation reach_by := (Server.reach_by decomp decode K).
Notation next_input := (Server.next_input decomp decode).
Notation work := (Server.work decomp decode K).
Notation serve_step := (Server.serve_step decomp decode K).

Ltac step_cases H :=
  unfold Server.step in H;
  match type of H with
  | match ?e with _ => _ end = Some _ => destruct e
  end;
  unfold Server.work, Server.poll_step, Server.take_step, Server.serve_step in H; break H; subst.

(* ---- what the helpers leave alone ---- *)
(* every field but conns and shared *)
Definition same_tables (s s' : st) : Prop :=
  active s' = active s /\ closed s' = closed s /\ lopen s' = lopen s /\ busy s' = busy s /\ clients s' = clients s
  /\ fdmap s' = fdmap s /\ pollset s' = pollset s /\ queue s' = queue s /\ workers s' = workers s
  /\ accepted s' = accepted s /\ backlog s' = backlog s.

Lemma serve_on_tables s c q rest : same_tables s (serve_on K s c q rest).
Proof.
  unfold serve_on. destruct (serve_req K c _ _ q) as [[v' tb'] r].
  destruct (class_svc K); cbn; repeat split.
Qed.
Lemma so_active s c q rest : active (serve_on K s c q rest) = active s. Proof. apply serve_on_tables. Qed.
Lemma so_closed s c q rest : closed (serve_on K s c q rest) = closed s. Proof. apply serve_on_tables. Qed.
Lemma so_lopen s c q rest : lopen (serve_on K s c q rest) = lopen s. Proof. apply serve_on_tables. Qed.
Lemma so_busy s c q rest : busy (serve_on K s c q rest) = busy s. Proof. apply serve_on_tables. Qed.
Lemma so_clients s c q rest : clients (serve_on K s c q rest) = clients s. Proof. apply serve_on_tables. Qed.
Lemma so_fdmap s c q rest : fdmap (serve_on K s c q rest) = fdmap s. Proof. apply serve_on_tables. Qed.
Lemma so_pollset s c q rest : pollset (serve_on K s c q rest) = pollset s. Proof. apply serve_on_tables. Qed.
Lemma so_queue s c q rest : queue (serve_on K s c q rest) = queue s. Proof. apply serve_on_tables. Qed.
Lemma so_workers s c q rest : workers (serve_on K s c q rest) = workers s. Proof. apply serve_on_tables. Qed.
Lemma so_accepted s c q rest : accepted (serve_on K s c q rest) = accepted s. Proof. apply serve_on_tables. Qed.
Lemma so_backlog s c q rest : backlog (serve_on K s c q rest) = backlog s. Proof. apply serve_on_tables. Qed.
Lemma serve_on_other s c q rest d : d <> c -> conns (serve_on K s c q rest) d = conns s d.
Proof.
  intros N. unfold serve_on. destruct (serve_req K c _ _ q) as [[v' tb'] r].
  destruct (class_svc K); cbn; now rewrite upd_other.
Qed.
(* the connection after a request was served on it *)
Definition served_conn (s : st) (c : cid) (q : req) (rest : list byte) : conn :=
  let k := conns s c in
  let v := if class_svc K then own k else shared s in
  let '(v', tb', r) := serve_req K c v (table k) q in
  let k' := k_served k rest (if class_svc K then v' else own k) tb' r q in
  if is_close q then close_conn k' else k'.
Lemma serve_on_same s c q rest : conns (serve_on K s c q rest) c = served_conn s c q rest.
Proof.
  unfold serve_on, served_conn. destruct (serve_req K c _ _ q) as [[v' tb'] r].
  destruct (class_svc K); cbn; now rewrite upd_same.
Qed.

Lemma close_conn_stg k : stg (close_conn k) = stg k.
Proof. unfold close_conn. destruct (cclosed k || negb (authd k)); reflexivity. Qed.
Lemma close_conn_authd k : authd (close_conn k) = authd k.
Proof. unfold close_conn. destruct (cclosed k || negb (authd k)); reflexivity. Qed.
Lemma close_conn_gone k : gone (close_conn k) = gone k.
Proof. unfold close_conn. destruct (cclosed k || negb (authd k)); reflexivity. Qed.
Lemma close_conn_inb k : inb (close_conn k) = inb k.
Proof. unfold close_conn. destruct (cclosed k || negb (authd k)); reflexivity. Qed.
Lemma close_conn_abeh k : abeh (close_conn k) = abeh k.
Proof. unfold close_conn. destruct (cclosed k || negb (authd k)); reflexivity. Qed.
Lemma close_conn_ep k : own (close_conn k) = own k /\ table (close_conn k) = table k /\ out (close_conn k) = out k /\ hist (close_conn k) = hist k.
Proof. unfold close_conn. destruct (cclosed k || negb (authd k)); repeat split. Qed.
Lemma close_conn_shut k : shut (close_conn k) = shut k || (authd k && negb (cclosed k)).
Proof. destruct k as [g a au i go sh cc h o t ou hi]. unfold close_conn. cbn. destruct cc, au, sh; reflexivity. Qed.
Lemma close_conn_cclosed k : cclosed (close_conn k) = cclosed k || authd k.
Proof. destruct k as [g a au i go sh cc h o t ou hi]. unfold close_conn. cbn. destruct cc, au; reflexivity. Qed.
Lemma close_conn_hooks k : hooks (close_conn k) = if authd k && negb (cclosed k) then S (hooks k) else hooks k.
Proof. destruct k as [g a au i go sh cc h o t ou hi]. unfold close_conn. cbn. destruct cc, au; reflexivity. Qed.

Lemma served_conn_stg s c q rest : stg (served_conn s c q rest) = stg (conns s c).
Proof.
  unfold served_conn. destruct (serve_req K c _ _ q) as [[v' tb'] r].
  destruct (is_close q); [rewrite close_conn_stg|]; reflexivity.
Qed.
Lemma served_conn_authd s c q rest : authd (served_conn s c q rest) = authd (conns s c).
Proof.
  unfold served_conn. destruct (serve_req K c _ _ q) as [[v' tb'] r].
  destruct (is_close q); [rewrite close_conn_authd|]; reflexivity.
Qed.
Lemma served_conn_gone s c q rest : gone (served_conn s c q rest) = gone (conns s c).
Proof.
  unfold served_conn. destruct (serve_req K c _ _ q) as [[v' tb'] r].
  destruct (is_close q); [rewrite close_conn_gone|]; reflexivity.
Qed.

(* ---- Server.close, field by field ---- *)
Definition pool_fix : bool := match kind K with Pool => pool_close_drops (fx K) | _ => false end.
Lemma sc_active s : active (server_close K s) = if closed s then active s else false.
Proof. unfold server_close. destruct (closed s); reflexivity. Qed.
Lemma sc_closed s : closed (server_close K s) = true.
Proof. unfold server_close. destruct (closed s) eqn:E; [exact E|reflexivity]. Qed.
Lemma sc_lopen s : lopen (server_close K s) = if closed s then lopen s else false.
Proof. unfold server_close. destruct (closed s); reflexivity. Qed.
Lemma sc_busy s : busy (server_close K s) = busy s.
Proof. unfold server_close. destruct (closed s); reflexivity. Qed.
Lemma sc_clients s : clients (server_close K s) = if closed s then clients s else [].
Proof. unfold server_close. destruct (closed s); reflexivity. Qed.
Lemma sc_backlog s : backlog (server_close K s) = if closed s then backlog s else [].
Proof. unfold server_close. destruct (closed s); reflexivity. Qed.
Lemma sc_fdmap s : fdmap (server_close K s) = if closed s then fdmap s else if pool_fix then [] else fdmap s.
Proof. unfold server_close, pool_fix. destruct (closed s); reflexivity. Qed.
Lemma sc_pollset s : pollset (server_close K s) = if closed s then pollset s else if pool_fix then [] else pollset s.
Proof. unfold server_close, pool_fix. destruct (closed s); reflexivity. Qed.
Lemma sc_queue s : queue (server_close K s) = queue s.
Proof. unfold server_close. destruct (closed s); reflexivity. Qed.
Lemma sc_workers s : workers (server_close K s) = workers s.
Proof. unfold server_close. destruct (closed s); reflexivity. Qed.
Lemma sc_shared s : shared (server_close K s) = shared s.
Proof. unfold server_close. destruct (closed s); reflexivity. Qed.
Lemma sc_accepted s : accepted (server_close K s) = accepted s.
Proof. unfold server_close. destruct (closed s); reflexivity. Qed.
(* what close() does to one connection *)
Definition closed_conn (s : st) (x : cid) : conn :=
  let k0 := conns s x in
  let k1 := if mem x (backlog s) then k_stage (k_shut k0) Finished else k0 in
  let k2 := if mem x (clients s) then k_shut k1 else k1 in
  if pool_fix && mem x (fdmap s) then k_stage (close_conn k2) Finished else k2.
Lemma sc_conns s x : conns (server_close K s) x = if closed s then conns s x else closed_conn s x.
Proof.
  unfold server_close, closed_conn, pool_fix. destruct (closed s); [reflexivity|]. cbn.
  destruct (match kind K with Pool => pool_close_drops (fx K) | _ => false end); cbn;
  unfold drop_all, shut_all, reset_all; destruct (mem x (fdmap s)), (mem x (clients s)), (mem x (backlog s)); reflexivity.
Qed.

(* ---- the worker's `finally` ---- *)
Definition fo_core (c : cid) (s : st) : st :=
  with_clients (set_conn s c (k_stage (k_shut (conns s c)) Finished)) (rm c (clients s)).
Lemma finish_own_eq c s :
  finish_own K c s = match kind K with OneShot => server_close K (with_busy (fo_core c s) None) | _ => fo_core c s end.
Proof. reflexivity. Qed.

Lemma drop_eq c s :
  drop c s = if mem c (fdmap s)
             then with_pool (set_conn s c (k_stage (close_conn (conns s c)) Finished)) (rm c (fdmap s)) (pollset s) (queue s) (workers s)
             else s.
Proof. reflexivity. Qed.

Ltac simp_state :=
  repeat (rewrite ?so_active, ?so_closed, ?so_lopen, ?so_busy, ?so_clients, ?so_fdmap, ?so_pollset, ?so_queue, ?so_workers, ?so_accepted,
                  ?so_backlog, ?finish_own_eq, ?sc_active, ?sc_closed, ?sc_lopen, ?sc_busy, ?sc_clients, ?sc_backlog, ?sc_fdmap, ?sc_pollset, ?sc_queue,
                  ?sc_workers, ?sc_shared, ?sc_accepted in *;
          cbn [active closed lopen busy clients fdmap pollset queue workers shared conns accepted backlog
               with_conns set_conn with_clients with_busy with_pool with_shared with_accepted with_backlog fo_core
               set_worker enqueue add_inactive pool_register pool_reject accept track_served] in *).

(* ---- flags and the tables of a closed / non-pool server ---- *)
Record Inv1 (s : st) : Prop := {
  i_closed : closed s = negb (active s);
  i_lopen : lopen s = active s;
  i_closed_clients : closed s = true -> clients s = [] /\ backlog s = [];
  i_closed_pool : closed s = true -> pool_fix = true -> fdmap s = [] /\ pollset s = [];
  i_nonpool : kind K <> Pool -> fdmap s = [] /\ pollset s = [] /\ queue s = [] /\ workers s = [];
  i_busy_kind : busy s <> None -> kind K = OneShot \/ kind K = Pool
}.

Lemma inv1_init : Inv1 (init K).
Proof.
  constructor; cbn; try reflexivity; try discriminate; try congruence.
  intros N. destruct (kind K); try congruence; repeat split.
Qed.

Lemma inv1_server_close s : Inv1 s -> Inv1 (server_close K s).
Proof.
  intros [A B C D E F]. constructor; simp_state.
  - destruct (closed s) eqn:Ec; [exact A|reflexivity].
  - destruct (closed s) eqn:Ec; [exact B|reflexivity].
  - intros _. destruct (closed s) eqn:Ec; [auto|split; reflexivity].
  - intros _ Hf. destruct (closed s) eqn:Ec; [auto|rewrite Hf; split; reflexivity].
  - intros N. destruct (E N) as (e1 & e2 & e3 & e4). rewrite e1, e2. repeat split; auto; destruct (closed s), pool_fix; reflexivity.
  - exact F.
Qed.

Lemma rm_nil c l : l = [] -> rm c l = [].
Proof. now intros ->. Qed.

Lemma inv1_tables s s' : same_tables s s' -> Inv1 s -> Inv1 s'.
Proof.
  intros (e1 & e2 & e3 & e4 & e5 & e6 & e7 & e8 & e9 & e10 & e11) [A B C D E F].
  constructor; rewrite ?e1, ?e2, ?e3, ?e4, ?e5, ?e6, ?e7, ?e8, ?e9, ?e10, ?e11; assumption.
Qed.
Lemma inv1_set_conn s c k : Inv1 s -> Inv1 (set_conn s c k).
Proof. apply inv1_tables. repeat split. Qed.
Lemma inv1_serve_on s c q rest : Inv1 s -> Inv1 (serve_on K s c q rest).
Proof. apply inv1_tables. apply serve_on_tables. Qed.
Lemma inv1_fo_core s c : Inv1 s -> Inv1 (fo_core c s).
Proof.
  intros [A B C D E F]. constructor; simp_state; auto.
  intros Hc. destruct (C Hc) as [e1 e2]. rewrite e1. auto.
Qed.
Lemma inv1_track_served s c : Inv1 s -> Inv1 (track_served K c s).
Proof.
  intros [A B C D E F]. constructor; simp_state; auto.
  intros Hc. destruct (C Hc) as [e1 e2]. rewrite e1. destruct (loose K); auto.
Qed.
Lemma inv1_busy_none s : Inv1 s -> Inv1 (with_busy s None).
Proof. intros [A B C D E F]. constructor; simp_state; auto; congruence. Qed.
Lemma inv1_finish_own s c : Inv1 s -> Inv1 (finish_own K c s).
Proof.
  intros I. rewrite finish_own_eq. destruct (kind K); try (now apply inv1_fo_core).
  apply inv1_server_close, inv1_busy_none, inv1_fo_core, I.
Qed.
Lemma inv1_pool_only s (P : Prop) : Inv1 s -> (kind K = Pool -> Inv1 s -> P) -> (kind K <> Pool -> P) -> P.
Proof. intros I H1 H2. destruct (kind K) eqn:E; [apply H2|apply H1|apply H2|apply H2]; congruence. Qed.

(* pool operations that only move a descriptor between fd_to_conn / poll set / queue / workers of an ACTIVE or fdmap-guarded state *)
Lemma inv1_drop s c : Inv1 s -> Inv1 (drop c s).
Proof.
  intros I. rewrite drop_eq. destruct (mem c (fdmap s)) eqn:M; [|exact I].
  destruct I as [A B C D E F]. constructor; simp_state; auto.
  - intros Hc Hf. destruct (D Hc Hf) as [e1 e2]. rewrite e1 in M. discriminate.
  - intros N. destruct (E N) as (e1 & e2 & e3 & e4). rewrite e1 in M. discriminate.
Qed.

Lemma inv1_pool s s' :
  kind K = Pool -> Inv1 s ->
  active s' = active s -> closed s' = closed s -> lopen s' = lopen s -> busy s' = busy s -> clients s' = clients s -> backlog s' = backlog s ->
  (fdmap s = [] -> pollset s = [] -> fdmap s' = [] /\ pollset s' = []) -> Inv1 s'.
Proof.
  intros Hk [A B C D E F] e1 e2 e3 e4 e5 e6 G. constructor; rewrite ?e1, ?e2, ?e3, ?e4, ?e5, ?e6; auto.
  - intros Hc Hf. destruct (D Hc Hf). auto.
  - congruence.
Qed.
Lemma rm_of_nil c l : l = [] -> rm c l = [].
Proof. now intros ->. Qed.

Lemma inv1_accept s c l : Inv1 s -> active s && lopen s && is_none (busy s) = true -> Inv1 (accept K c l s).
Proof.
  intros I Heqb.
    apply andb_prop in Heqb. destruct Heqb as [Hb Hn]. apply andb_prop in Hb. destruct Hb as [Ha Hl].
  destruct I as [A B C D E F].
  assert (Hc : closed s = false) by (rewrite A, Ha; reflexivity).
  unfold accept. destruct (kind K) eqn:Ek.
  + constructor; simp_state; rewrite ?Ek; auto; rewrite ?Hc; try discriminate.
  + assert (P1 : Inv1 (pool_register c (with_backlog (with_accepted (with_clients (set_conn s c (k_stage (conns s c) Own)) (clients s ++ [c])) (accepted s ++ [c])) l))).
    { constructor; simp_state; rewrite ?Ek; auto; rewrite ?Hc; try discriminate; congruence. }
    match goal with |- context [if (gone ?k && ?m) then _ else _] => destruct (gone k && m) end; [constructor; simp_state; rewrite ?Ek; auto; rewrite ?Hc; try discriminate; congruence|].
    destruct (has_auth K); [|exact P1]. destruct (abeh (conns s c)); [exact P1| |].
    * constructor; simp_state; rewrite ?Ek; auto; rewrite ?Hc; try discriminate; congruence.
    * constructor; simp_state; rewrite ?Ek; auto; rewrite ?Hc; try discriminate; try congruence; try (intros _; now right).
  + constructor; simp_state; rewrite ?Ek; auto; rewrite ?Hc; try discriminate; try (intros _; now left).
  + destruct (fork_parent_keeps (fx K)); constructor; simp_state; rewrite ?Ek; auto; rewrite ?Hc; try discriminate.
Qed.

Lemma inv1_step s e s' : Inv1 s -> step e s = Some s' -> Inv1 s'.
Proof.
  intros I H.
  step_cases H.
  all: try (apply inv1_server_close; assumption).
  all: try (destruct (accept_survives_oserror (fx K)); [assumption|apply inv1_server_close; assumption]).
  all: try (apply inv1_track_served).
  all: try (apply inv1_finish_own); try (apply inv1_drop).
  all: try (apply inv1_set_conn; assumption); try (apply inv1_serve_on; assumption).
  all: try (apply inv1_set_conn; apply inv1_serve_on; assumption).
  all: try assumption.
  all: try (match goal with Hk : kind K = Pool |- _ =>
         eapply (inv1_pool _ _ Hk); [first [eassumption | apply inv1_serve_on; eassumption | apply inv1_set_conn; eassumption]|..];
         simp_state; try reflexivity; try (rewrite ?(proj1 (serve_on_tables _ _ _ _)); reflexivity);
         try (intros e1 e2; rewrite ?e1, ?e2 in *; cbn in *; try discriminate; auto) end).
  - (* connect *)
    apply andb_prop in Heqb. destruct Heqb as [Hl _]. destruct I as [A B C D E F].
    assert (Hc : closed s = false) by (rewrite A, <- B, Hl; reflexivity).
    constructor; simp_state; auto; rewrite Hc; discriminate.
  - (* accept *)
    apply inv1_accept; assumption.
  - (* the pool's inline authenticator ends *)
    destruct I as [A B C D E F]. constructor; simp_state; auto; try congruence.
    intros Hc. destruct (C Hc) as [e1 e2]. rewrite e1. destruct (pool_fail_discards (fx K)); auto.
  - (* no worker could be started *)
    match goal with Hb : _ && spawns K = true |- _ => apply andb_prop in Hb; destruct Hb as [Hb _] end.
    match goal with |- Inv1 (spawn_fail K ?c ?l s) =>
      assert (I1 : Inv1 (finish_own K c (accept K c l s))) by (apply inv1_finish_own, inv1_accept; assumption) end.
    unfold spawn_fail. destruct (accept_survives_spawn_failure (fx K)); [exact I1|apply inv1_server_close; exact I1].
Qed.


(* ---- every connection against the tables ---- *)
Definition tracked : bool :=
  match kind K with Threaded | OneShot => negb (loose K) | Pool => true | Forking => fork_parent_keeps (fx K) end.

Definition conn_ok (cl fm : list cid) (bz : option cid) (bl : list cid) (x : cid) (k : conn) : Prop :=
  hooks k = (if cclosed k then 1 else 0)
  /\ (cclosed k = true -> authd k = true /\ shut k = true)
  /\ (stg k = Own -> kind K <> Pool /\ (tracked = true -> mem x cl = true \/ shut k = true))
  /\ (stg k = Authing -> kind K = Pool /\ bz = Some x /\ (mem x cl = true \/ shut k = true))
  /\ (stg k = Pooled -> mem x fm = true /\ authd k = true)
  /\ (mem x fm = true -> stg k = Pooled)
  /\ (mem x cl = true -> stg k = Own \/ stg k = Authing \/ (kind K = Pool /\ stg k = Finished /\ pool_fail_discards (fx K) = false))
  /\ (In x bl -> stg k = Backlog)
  /\ (stg k = Finished -> authd k = true -> cclosed k = true)
  /\ (stg k = Fresh \/ stg k = Backlog \/ stg k = Authing -> authd k = false).
Definition Inv2 (s : st) : Prop :=
  (forall x, conn_ok (clients s) (fdmap s) (busy s) (backlog s) x (conns s x)) /\ NoDup (backlog s).

Lemma inv2_init : Inv2 (init K).
Proof.
  split; [|constructor]. intros x. unfold conn_ok. cbn. repeat split; try discriminate; try contradiction.
Qed.

(* a connection record that differs only in what the tables do not care about *)
Definition same_core (k k' : conn) : Prop :=
  stg k' = stg k /\ authd k' = authd k /\ shut k' = shut k /\ cclosed k' = cclosed k /\ hooks k' = hooks k.
Lemma conn_ok_core cl fm bz bl x k k' : same_core k k' -> conn_ok cl fm bz bl x k -> conn_ok cl fm bz bl x k'.
Proof. intros (e1 & e2 & e3 & e4 & e5). unfold conn_ok. rewrite e1, e2, e3, e4, e5. auto. Qed.

Lemma inv2_local s c k' : same_core (conns s c) k' -> Inv2 s -> Inv2 (set_conn s c k').
Proof.
  intros Hc [H N]. split; [|exact N]. intros x. simp_state. conn_at x c; [|apply H].
  eapply conn_ok_core; [exact Hc|apply H].
Qed.

Ltac ok_destruct H := destruct H as (Ok1 & Ok2 & Ok3 & Ok4 & Ok5 & Ok6 & Ok7 & Ok8 & Ok9 & Ok10).

Lemma conn_ok_close cl fm bz bl x k : conn_ok cl fm bz bl x k -> conn_ok cl fm bz bl x (close_conn k).
Proof.
  intros H. ok_destruct H. unfold conn_ok.
  rewrite close_conn_hooks, close_conn_cclosed, close_conn_stg, close_conn_authd, close_conn_shut.
  destruct (cclosed k) eqn:Ec, (authd k) eqn:Ea; cbn [orb andb negb]; rewrite ?orb_true_r, ?orb_false_r; repeat split; auto;
  try (intros Hx; specialize (Ok2 eq_refl); tauto); try tauto; try discriminate; try (rewrite Ok1; reflexivity).
Qed.

Ltac ok_solve := unfold conn_ok in *; cbn in *; rewrite ?mem_rm_same in *; intuition (try congruence; try discriminate).

Lemma conn_ok_authd cl fm bz bl x k : stg k = Own -> conn_ok cl fm bz bl x k -> conn_ok cl fm bz bl x (k_authd k).
Proof. intros Hs H. ok_solve. Qed.

(* the worker's finally on its own connection *)
Definition fin_ok (k : conn) : Prop := authd k = true -> cclosed k = true.
Lemma conn_ok_finish cl fm bz bl c k :
  (stg k = Own \/ stg k = Authing) -> fin_ok k -> conn_ok cl fm bz bl c k -> conn_ok (rm c cl) fm bz bl c (k_stage (k_shut k) Finished).
Proof. intros Hs Hf H. unfold fin_ok in Hf. ok_solve. Qed.
Lemma conn_ok_rm_other cl fm bz bl c x k : x <> c -> conn_ok cl fm bz bl x k -> conn_ok (rm c cl) fm bz bl x k.
Proof. intros N. unfold conn_ok. now rewrite mem_rm_other. Qed.

Lemma inv2_fo_core s c : (stg (conns s c) = Own \/ stg (conns s c) = Authing) -> fin_ok (conns s c) -> Inv2 s -> Inv2 (fo_core c s).
Proof.
  intros Hs Hf [H N]. split; [|exact N]. intros x. simp_state. conn_at x c.
  - apply conn_ok_finish; [exact Hs|exact Hf|apply H].
  - apply conn_ok_rm_other; [assumption|apply H].
Qed.

Lemma inv2_busy_none s : (forall x, stg (conns s x) <> Authing) -> Inv2 s -> Inv2 (with_busy s None).
Proof.
  intros NA [H N]. split; [|exact N]. intros x. simp_state. specialize (H x). specialize (NA x). ok_solve.
Qed.

Lemma NoDup_nil_cid : NoDup (@nil cid). Proof. constructor. Qed.

Lemma inv2_server_close s : Inv2 s -> Inv2 (server_close K s).
Proof.
  intros [H N]. split; [|simp_state; destruct (closed s); [exact N|constructor]].
  intros x. simp_state. rewrite sc_conns. specialize (H x).
  destruct (closed s) eqn:Ec; [exact H|].
  unfold closed_conn.
  assert (Hb : mem x (backlog s) = true -> stg (conns s x) = Backlog).
  { intros M. apply mem_In in M. unfold conn_ok in H. tauto. }
  destruct (mem x (backlog s)) eqn:Mb; [specialize (Hb eq_refl)|clear Hb];
  destruct (mem x (clients s)) eqn:Mc; destruct pool_fix eqn:Pf; cbn [andb];
  try destruct (mem x (fdmap s)) eqn:Mf.
  all: try (ok_solve; fail).
  all: try (unfold conn_ok in *; rewrite ?close_conn_hooks, ?close_conn_cclosed, ?close_conn_stg, ?close_conn_authd, ?close_conn_shut; cbn;
            rewrite ?close_conn_hooks, ?close_conn_cclosed, ?close_conn_stg, ?close_conn_authd, ?close_conn_shut; cbn;
            destruct (cclosed (conns s x)) eqn:Ecc, (authd (conns s x)) eqn:Eau; cbn; intuition (try congruence; try discriminate); rewrite ?orb_true_r, ?orb_false_r; auto).
Qed.

Lemma inv2_no_authing s : Inv2 s -> kind K <> Pool -> forall x, stg (conns s x) <> Authing.
Proof. intros [H _] Nk x E. specialize (H x). unfold conn_ok in H. tauto. Qed.

Lemma inv2_finish_own s c : stg (conns s c) = Own -> fin_ok (conns s c) -> Inv2 s -> Inv2 (finish_own K c s).
Proof.
  intros Hs Hf I. rewrite finish_own_eq.
  assert (I1 : Inv2 (fo_core c s)) by (apply inv2_fo_core; auto).
  destruct (kind K) eqn:Ek; try exact I1.
  apply inv2_server_close, inv2_busy_none; [|exact I1].
  apply inv2_no_authing; [exact I1|congruence].
Qed.

Lemma conn_ok_fm_other cl fm bz bl c x k : x <> c -> conn_ok cl fm bz bl x k -> conn_ok cl (rm c fm) bz bl x k.
Proof. intros N. unfold conn_ok. now rewrite mem_rm_other. Qed.
Lemma conn_ok_dropped cl fm bz bl c k : mem c fm = true -> conn_ok cl fm bz bl c k -> conn_ok cl (rm c fm) bz bl c (k_stage (close_conn k) Finished).
Proof.
  intros M H. apply conn_ok_close in H.
  assert (F : authd (close_conn k) = true -> cclosed (close_conn k) = true).
  { rewrite close_conn_authd, close_conn_cclosed. intros ->. apply orb_true_r. }
  revert H F. generalize (close_conn k). intros k' H F. ok_solve.
Qed.
Lemma inv2_drop s c : Inv2 s -> Inv2 (drop c s).
Proof.
  intros [H N]. rewrite drop_eq. destruct (mem c (fdmap s)) eqn:M; [|split; assumption].
  split; [|exact N]. intros x. simp_state. conn_at x c.
  - apply conn_ok_dropped; [exact M|apply H].
  - apply conn_ok_fm_other; [assumption|apply H].
Qed.

(* tables the connection predicate does not mention *)
Lemma inv2_tables s s' :
  clients s' = clients s -> fdmap s' = fdmap s -> busy s' = busy s -> backlog s' = backlog s -> conns s' = conns s -> Inv2 s -> Inv2 s'.
Proof. intros e1 e2 e3 e4 e5 [H N]. split; rewrite ?e1, ?e2, ?e3, ?e4, ?e5; assumption. Qed.

Lemma conn_ok_served cl fm bz bl s c q rest : conn_ok cl fm bz bl c (conns s c) -> conn_ok cl fm bz bl c (served_conn s c q rest).
Proof.
  intros H. unfold served_conn. destruct (serve_req K c _ _ q) as [[v' tb'] r].
  match goal with |- conn_ok _ _ _ _ _ (if _ then close_conn ?k else _) => assert (H' : conn_ok cl fm bz bl c k) end.
  { eapply conn_ok_core; [|exact H]. repeat split. }
  destruct (is_close q); [apply conn_ok_close|]; exact H'.
Qed.
Lemma inv2_serve_on s c q rest : Inv2 s -> Inv2 (serve_on K s c q rest).
Proof.
  intros [H N]. split; simp_state; [|exact N]. intros x.
  destruct (Nat.eq_dec x c) as [->|Nx]; [rewrite serve_on_same; apply conn_ok_served, H|rewrite serve_on_other by exact Nx; apply H].
Qed.

Lemma inv2_connect s c a : lopen s && is_fresh (stg (conns s c)) = true -> Inv2 s ->
  Inv2 (with_backlog (set_conn s c (k_abeh (k_stage (conns s c) Backlog) a)) (backlog s ++ [c])).
Proof.
  intros Hb [H N]. apply andb_prop in Hb. destruct Hb as [_ Hf].
  assert (Hs : stg (conns s c) = Fresh) by (destruct (stg (conns s c)); try discriminate; reflexivity).
  assert (Nin : ~ In c (backlog s)).
  { intros Hi. specialize (H c). unfold conn_ok in H. destruct H as (_ & _ & _ & _ & _ & _ & _ & H8 & _). specialize (H8 Hi). congruence. }
  split.
  - intros x. simp_state. conn_at x c.
    + specialize (H c). unfold conn_ok in *. cbn. rewrite Hs in H. intuition (try congruence; try discriminate).
    + specialize (H x). unfold conn_ok in *. intuition.
      match goal with Hi : In x (_ ++ _) |- _ => apply in_app_or in Hi; destruct Hi as [Hi|[Hi|[]]]; [auto|congruence] end.
  - simp_state. clear H. induction (backlog s) as [|y l IH]; cbn.
    + constructor; [intros []|constructor].
    + inversion N; subst. constructor.
      * rewrite in_app_iff. cbn. intros [A|[A|[]]]; [contradiction|]. subst. apply Nin. now left.
      * apply IH; [assumption|]. intros A. apply Nin. now right.
Qed.

Lemma inv2_accept s c rest : backlog s = c :: rest -> is_none (busy s) = true -> Inv2 s -> Inv2 (accept K c rest s).
Proof.
  intros Hb Hn [H N].
  assert (Bn : busy s = None) by (destruct (busy s); [discriminate|reflexivity]).
  rewrite Hb in N. inversion N as [|? ? Nin N']; subst.
  assert (Hc := H c). assert (Sc : stg (conns s c) = Backlog).
  { unfold conn_ok in Hc. rewrite Hb in Hc. cbn in Hc. tauto. }
  assert (Hrest : forall x, In x rest -> In x (backlog s)) by (intros x Hx; rewrite Hb; now right).
  assert (Hne : forall x, x <> c -> Nat.eqb x c = false) by (intros x Hx; now apply Nat.eqb_neq).
  unfold accept. destruct (kind K) eqn:Ek.
  - (* threaded *)
    split; simp_state; [|exact N']. intros x. specialize (H x). conn_at x c.
    + unfold conn_ok in *. cbn. rewrite mem_app, mem_one, Nat.eqb_refl, orb_true_r, Sc in *. unfold tracked. rewrite Ek.
      intuition (try congruence; try discriminate).
    + unfold conn_ok in *. rewrite mem_app, mem_one, (Hne x) by assumption. rewrite orb_false_r. intuition (try congruence; auto).
  - (* pool *)
    assert (P1 : Inv2 (pool_register c (with_backlog (with_accepted (with_clients (set_conn s c (k_stage (conns s c) Own)) (clients s ++ [c])) (accepted s ++ [c])) rest))).
    { split; simp_state; [|exact N']. intros x. specialize (H x). conn_at x c.
      - unfold conn_ok in *. cbn. rewrite mem_app, mem_one, Nat.eqb_refl, orb_true_r, Sc in *.
        intuition (try congruence; try discriminate).
      - unfold conn_ok in *. cbn. rewrite mem_app, mem_one, (Hne x) by assumption. rewrite orb_false_r, Bn in *.
        intuition (try congruence; try discriminate; auto). }
    assert (P2 : Inv2 (pool_reject K c (with_backlog (with_accepted (with_clients (set_conn s c (k_stage (conns s c) Own)) (clients s ++ [c])) (accepted s ++ [c])) rest))).
    { split; simp_state; [|exact N']. intros x. specialize (H x). conn_at x c.
      - unfold conn_ok in *. cbn. rewrite Sc in *.
        destruct (pool_fail_discards (fx K)) eqn:Ed; rewrite ?mem_rm_same, ?mem_app, ?mem_one, ?Nat.eqb_refl, ?orb_true_r in *;
        intuition (try congruence; try discriminate).
      - unfold conn_ok in *.
        destruct (pool_fail_discards (fx K)) eqn:Ed; rewrite ?mem_rm_other by assumption; rewrite mem_app, mem_one, (Hne x) by assumption;
        rewrite orb_false_r; intuition (try congruence; auto). }
    match goal with |- context [if (gone ?k && ?m) then _ else _] => destruct (gone k && m) end; [exact P2|].
    destruct (has_auth K); [|exact P1]. destruct (abeh (conns s c)); [exact P1|exact P2|].
    split; simp_state; [|exact N']. intros x. specialize (H x). conn_at x c.
    + unfold conn_ok in *. cbn. rewrite mem_app, mem_one, Nat.eqb_refl, orb_true_r, Sc in *.
      intuition (try congruence; try discriminate).
    + unfold conn_ok in *. rewrite mem_app, mem_one, (Hne x) by assumption. rewrite orb_false_r, Bn in *.
      intuition (try congruence; try discriminate; auto).
  - (* one-shot *)
    split; simp_state; [|exact N']. intros x. specialize (H x). conn_at x c.
    + unfold conn_ok in *. cbn. rewrite mem_app, mem_one, Nat.eqb_refl, orb_true_r, Sc in *. unfold tracked. rewrite Ek.
      intuition (try congruence; try discriminate).
    + unfold conn_ok in *. rewrite mem_app, mem_one, (Hne x) by assumption. rewrite orb_false_r. intuition (try congruence; auto).
  - (* forking *)
    destruct (fork_parent_keeps (fx K)) eqn:Ef; (split; simp_state; [|exact N']); intros x; specialize (H x); conn_at x c.
    + unfold conn_ok in *. cbn. rewrite mem_app, mem_one, Nat.eqb_refl, orb_true_r, Sc in *. unfold tracked. rewrite Ek.
      intuition (try congruence; try discriminate).
    + unfold conn_ok in *. rewrite mem_app, mem_one, (Hne x) by assumption. rewrite orb_false_r. intuition (try congruence; auto).
    + unfold conn_ok in *. cbn. rewrite mem_rm_same, Sc in *. unfold tracked. rewrite Ek, Ef.
      intuition (try congruence; try discriminate).
    + unfold conn_ok in *. rewrite mem_rm_other, mem_app, mem_one, (Hne x) by assumption. rewrite orb_false_r. intuition (try congruence; auto).
Qed.

Lemma inv2_authing_ends s c : stg (conns s c) = Authing -> Inv2 s -> Inv2 (with_busy (pool_reject K c s) None).
Proof.
  intros Sc [H N]. split; simp_state; [|exact N]. intros x. assert (Hc := H c). specialize (H x). conn_at x c.
  - unfold conn_ok in *. cbn. destruct (pool_fail_discards (fx K)) eqn:Ed; rewrite ?mem_rm_same in *;
    intuition (try congruence; try discriminate).
  - assert (Hne : Nat.eqb x c = false) by now apply Nat.eqb_neq.
    unfold conn_ok in *. destruct (pool_fail_discards (fx K)) eqn:Ed; rewrite ?mem_rm_other by assumption;
    intuition (try congruence; try discriminate; auto).
Qed.

Lemma inv2_authd s c : stg (conns s c) = Own -> Inv2 s -> Inv2 (set_conn s c (k_authd (conns s c))).
Proof.
  intros Hs [H N]. split; [|exact N]. intros x. simp_state. conn_at x c; [apply conn_ok_authd; [exact Hs|]|]; apply H.
Qed.
Lemma inv2_close_at s c k0 : same_core (conns s c) k0 -> Inv2 s -> Inv2 (set_conn s c (close_conn k0)).
Proof.
  intros Hc [H N]. split; [|exact N]. intros x. simp_state. conn_at x c; [|apply H].
  apply conn_ok_close. eapply conn_ok_core; [exact Hc|apply H].
Qed.

Lemma inv2_track_served s c : stg (conns s c) = Own -> Inv2 s -> Inv2 (track_served K c s).
Proof.
  intros Hs I. unfold track_served. destruct (loose K) eqn:L; [|eapply inv2_tables; [..|exact I]; reflexivity].
  assert (T : tracked = false).
  { unfold tracked, loose in *. destruct (kind K); try discriminate; rewrite L; reflexivity. }
  destruct I as [H N]. split; [|exact N]. intros x. simp_state. specialize (H x). conn_at x c.
  - unfold conn_ok in *. rewrite T, mem_rm_same. intuition (try congruence; try discriminate).
  - apply conn_ok_rm_other; assumption.
Qed.
Lemma fin_ok_close k : fin_ok (close_conn k).
Proof. unfold fin_ok. rewrite close_conn_authd, close_conn_cclosed. intros ->. apply orb_true_r. Qed.
Lemma fin_ok_unauth k : negb (authd k) = true -> fin_ok k.
Proof. unfold fin_ok. destruct (authd k); [discriminate|discriminate]. Qed.
Lemma fin_ok_served_close s c q rest : is_close q = true -> fin_ok (served_conn s c q rest).
Proof.
  intros Hq. unfold served_conn. destruct (serve_req K c _ _ q) as [[v' tb'] r]. rewrite Hq. apply fin_ok_close.
Qed.

(* what accept leaves at the accepted connection when the server starts a worker of its own per client *)
Lemma accept_spawns_conn s c rest : spawns K = true -> conns (accept K c rest s) c = k_stage (conns s c) Own.
Proof.
  unfold spawns, accept. destruct (kind K); try discriminate; intros _; [|destruct (fork_parent_keeps (fx K))];
  cbn; now rewrite upd_same.
Qed.
Lemma inv2_spawn_fail s c rest : spawns K = true -> backlog s = c :: rest -> is_none (busy s) = true -> Inv2 s -> Inv2 (spawn_fail K c rest s).
Proof.
  intros Hsp Hb Hn I.
  assert (Sc : authd (conns s c) = false).
  { destruct I as [H _]. specialize (H c). unfold conn_ok in H. rewrite Hb in H. cbn in H. tauto. }
  assert (I1 : Inv2 (finish_own K c (accept K c rest s))).
  { apply inv2_finish_own.
    - rewrite accept_spawns_conn by assumption. reflexivity.
    - rewrite accept_spawns_conn by assumption. apply fin_ok_unauth. cbn. rewrite Sc. reflexivity.
    - apply inv2_accept; assumption. }
  unfold spawn_fail. destruct (accept_survives_spawn_failure (fx K)); [exact I1|apply inv2_server_close; exact I1].
Qed.

Lemma inv2_step s e s' : Inv2 s -> step e s = Some s' -> Inv2 s'.
Proof.
  intros I H.
  step_cases H.
  all: try (match goal with Hb : _ && spawns K = true |- _ =>
              let Hsp := fresh "Hsp" in let Hn := fresh "Hn" in
              apply andb_prop in Hb; destruct Hb as [Hb Hsp]; apply andb_prop in Hb; destruct Hb as [_ Hn];
              apply inv2_spawn_fail; assumption end).
  all: try (apply inv2_server_close; assumption).
  all: try (apply inv2_connect; assumption).
  all: try (apply inv2_accept; [assumption| |assumption];
            match goal with Hb : _ && is_none (busy _) = true |- _ => apply andb_prop in Hb; tauto end).
  all: try (apply inv2_authing_ends; assumption).
  all: try (apply inv2_authd; assumption).
  all: try (apply inv2_track_served; [simp_state; rewrite upd_same; assumption|apply inv2_authd; assumption]).
  all: try (destruct (accept_survives_oserror (fx K)); [assumption|apply inv2_server_close; assumption]).
  all: try (apply inv2_finish_own;
            [simp_state; rewrite ?upd_same, ?serve_on_same, ?served_conn_stg, ?close_conn_stg; cbn; assumption
            |simp_state; rewrite ?upd_same, ?serve_on_same;
             first [apply fin_ok_close | apply fin_ok_unauth; assumption | apply fin_ok_served_close; assumption]
            |first [assumption | apply inv2_close_at; [repeat split|assumption] | apply inv2_serve_on; assumption]]).
  all: try (apply inv2_drop).
  all: try (apply inv2_serve_on; assumption).
  all: try (apply inv2_local; [repeat split|assumption]).
  all: try (eapply inv2_tables; [..|first [eassumption | apply inv2_serve_on; eassumption | apply inv2_local; [|eassumption]; repeat split]];
            simp_state; reflexivity).
Qed.

(* ---- the thread pool: every registered descriptor is in exactly one place ---- *)
Definition cnt (x : cid) (l : list cid) : nat := count_occ Nat.eq_dec l x.
Definition slot_cids (w : option (cid * nat)) : list cid := match w with Some (c, _) => [c] | None => [] end.
Definition held (s : st) : list cid := flat_map slot_cids (workers s).

Lemma cnt_app x a b : cnt x (a ++ b) = cnt x a + cnt x b.
Proof. apply count_occ_app. Qed.
Lemma cnt_one x y : cnt x [y] = if Nat.eqb x y then 1 else 0.
Proof.
  unfold cnt. cbn. destruct (Nat.eq_dec y x) as [->|N]; [now rewrite Nat.eqb_refl|].
  destruct (Nat.eqb x y) eqn:E; [apply Nat.eqb_eq in E; congruence|reflexivity].
Qed.
Lemma cnt_cons x y l : cnt x (y :: l) = (if Nat.eqb x y then 1 else 0) + cnt x l.
Proof. change (y :: l) with ([y] ++ l). now rewrite cnt_app, cnt_one. Qed.
Lemma cnt_rm x d l : cnt x (rm d l) = if Nat.eqb x d then 0 else cnt x l.
Proof.
  induction l as [|y l IH]; [now destruct (Nat.eqb x d)|].
  change (rm d (y :: l)) with (if negb (Nat.eqb y d) then y :: rm d l else rm d l).
  rewrite cnt_cons. destruct (Nat.eqb y d) eqn:E; cbn [negb].
  - rewrite IH. apply Nat.eqb_eq in E. subst. destruct (Nat.eqb x d); reflexivity.
  - rewrite cnt_cons, IH. destruct (Nat.eqb x d) eqn:F; [|reflexivity].
    apply Nat.eqb_eq in F. subst. now rewrite Nat.eqb_sym, E.
Qed.
Lemma cnt_pos_mem x l : mem x l = true <-> cnt x l > 0.
Proof. rewrite mem_In. apply count_occ_In. Qed.
Lemma cnt_zero_mem x l : mem x l = false <-> cnt x l = 0.
Proof.
  split; intros H.
  - destruct (cnt x l) eqn:E; [reflexivity|]. assert (G : cnt x l > 0) by lia. apply cnt_pos_mem in G. congruence.
  - destruct (mem x l) eqn:E; [|reflexivity]. apply cnt_pos_mem in E. lia.
Qed.

Definition slot_cnt (x : cid) (w : option (cid * nat)) : nat := cnt x (slot_cids w).
Lemma held_set_nth x ws w old v :
  nth_error ws w = Some old -> cnt x (flat_map slot_cids (set_nth w v ws)) + slot_cnt x old = cnt x (flat_map slot_cids ws) + slot_cnt x v.
Proof.
  revert w. induction ws as [|y ws IH]; intros [|w] H; cbn in H; try discriminate.
  - inversion H; subst. cbn [set_nth flat_map]. rewrite !cnt_app. unfold slot_cnt. lia.
  - cbn [set_nth flat_map]. rewrite !cnt_app. specialize (IH w H). lia.
Qed.

Definition Inv3 (s : st) : Prop :=
  active s = true -> forall x, cnt x (pollset s) + cnt x (queue s) + cnt x (held s) = if mem x (fdmap s) then 1 else 0.

Lemma inv3_init : Inv3 (init K).
Proof.
  intros _ x. unfold held. cbn. destruct (kind K); cbn; try reflexivity.
  induction (nworkers K); cbn; auto.
Qed.

Lemma inv3_tables s s' :
  active s' = active s -> fdmap s' = fdmap s -> pollset s' = pollset s -> queue s' = queue s -> workers s' = workers s -> Inv3 s -> Inv3 s'.
Proof. intros e1 e2 e3 e4 e5 H. unfold Inv3, held. rewrite e1, e2, e3, e4, e5. exact H. Qed.
Lemma inv3_server_close s : Inv3 s -> Inv3 (server_close K s).
Proof.
  intros H. unfold server_close. destruct (closed s); [exact H|]. intros A. discriminate A.
Qed.
Lemma inv3_finish_own s c : Inv3 s -> Inv3 (finish_own K c s).
Proof.
  intros H. rewrite finish_own_eq.
  assert (H1 : Inv3 (fo_core c s)) by (eapply inv3_tables; [..|exact H]; reflexivity).
  destruct (kind K); try exact H1. apply inv3_server_close. eapply inv3_tables; [..|exact H1]; reflexivity.
Qed.
Lemma inv3_serve_on s c q rest : Inv3 s -> Inv3 (serve_on K s c q rest).
Proof. apply inv3_tables; simp_state; reflexivity. Qed.
Lemma inv3_drop_free s c : Inv3 s -> (active s = true -> cnt c (pollset s) + cnt c (queue s) + cnt c (held s) = 0) -> Inv3 (drop c s).
Proof.
  intros H Hz. rewrite drop_eq. destruct (mem c (fdmap s)) eqn:M; [|exact H].
  intros A x. unfold held. simp_state. specialize (H A x). rewrite mem_rm.
  destruct (Nat.eqb x c) eqn:E; cbn [negb andb]; [|exact H].
  apply Nat.eqb_eq in E. subst. apply Hz, A.
Qed.
Lemma inv3_accept s c rest : backlog s = c :: rest -> Inv2 s -> Inv3 s -> Inv3 (accept K c rest s).
Proof.
  intros Hb [H2 _] H. unfold accept.
  assert (Mf : mem c (fdmap s) = false).
  { specialize (H2 c). unfold conn_ok in H2. rewrite Hb in H2. destruct (mem c (fdmap s)); [|reflexivity].
    assert (stg (conns s c) = Backlog) by (cbn in H2; tauto). assert (stg (conns s c) = Pooled) by tauto. congruence. }
  assert (P1 : Inv3 (pool_register c (with_backlog (with_accepted (with_clients (set_conn s c (k_stage (conns s c) Own)) (clients s ++ [c])) (accepted s ++ [c])) rest))).
  { intros A x. unfold held. simp_state. specialize (H A x). unfold held in H. rewrite cnt_app, mem_app, mem_one, cnt_one.
    destruct (Nat.eqb x c) eqn:E; [|rewrite orb_false_r; lia].
    apply Nat.eqb_eq in E. subst. rewrite Mf in *. cbn. lia. }
  destruct (kind K); try (eapply inv3_tables; [..|exact H]; reflexivity).
  - match goal with |- context [if (gone ?k && ?m) then _ else _] => destruct (gone k && m) end; [eapply inv3_tables; [..|exact H]; reflexivity|].
    destruct (has_auth K); [|exact P1]. destruct (abeh (conns s c)); [exact P1| |]; (eapply inv3_tables; [..|exact H]; reflexivity).
  - destruct (fork_parent_keeps (fx K)); (eapply inv3_tables; [..|exact H]; reflexivity).
Qed.

Lemma slot_cnt_some x c n : slot_cnt x (Some (c, n)) = if Nat.eqb x c then 1 else 0.
Proof. unfold slot_cnt. cbn [slot_cids]. apply cnt_one. Qed.
Lemma slot_cnt_none x : slot_cnt x None = 0.
Proof. reflexivity. Qed.

Lemma inv3_poll_enqueue t c : mem c (pollset t) = true -> Inv3 t ->
  Inv3 (enqueue (with_pool t (fdmap t) (rm c (pollset t)) (queue t) (workers t)) c).
Proof.
  intros M H A x. unfold held. simp_state. specialize (H A x). unfold held in H. rewrite cnt_rm, cnt_app, cnt_one.
  destruct (Nat.eqb x c) eqn:E; [|lia]. apply Nat.eqb_eq in E. subst. apply cnt_pos_mem in M.
  destruct (mem c (fdmap t)); lia.
Qed.
Lemma inv3_poll_drop t c : mem c (pollset t) = true -> Inv3 t ->
  Inv3 (drop c (with_pool t (fdmap t) (rm c (pollset t)) (queue t) (workers t))).
Proof.
  intros M H. rewrite drop_eq. simp_state. apply cnt_pos_mem in M.
  destruct (mem c (fdmap t)) eqn:Mf; intros A x; unfold held; simp_state; specialize (H A x); unfold held in H;
  rewrite ?mem_rm, cnt_rm; destruct (Nat.eqb x c) eqn:E; cbn [negb andb]; try lia;
  apply Nat.eqb_eq in E; subst; rewrite ?Mf in H; lia.
Qed.
Lemma inv3_take t w c rest n : nth_error (workers t) w = Some None -> queue t = c :: rest -> Inv3 t ->
  Inv3 (with_pool t (fdmap t) (pollset t) rest (set_nth w (Some (c, n)) (workers t))).
Proof.
  intros Hw Hq H A x. unfold held. simp_state. specialize (H A x). unfold held in H. rewrite Hq, cnt_cons in H.
  pose proof (held_set_nth x _ _ _ (Some (c, n)) Hw) as G. rewrite slot_cnt_none, slot_cnt_some in G. lia.
Qed.
Lemma inv3_set_conn t c k : Inv3 t -> Inv3 (set_conn t c k).
Proof. apply inv3_tables; reflexivity. Qed.
Lemma inv3_release_queue t w c n : nth_error (workers t) w = Some (Some (c, n)) -> Inv3 t -> Inv3 (enqueue (set_worker t w None) c).
Proof.
  intros Hw H A x. unfold held. simp_state. specialize (H A x). unfold held in H. rewrite cnt_app, cnt_one.
  pose proof (held_set_nth x _ _ _ None Hw) as G. rewrite slot_cnt_none, slot_cnt_some in G. lia.
Qed.
Lemma inv3_release_poll t w c n : nth_error (workers t) w = Some (Some (c, n)) -> Inv3 t -> Inv3 (add_inactive (set_worker t w None) c).
Proof.
  intros Hw H A x. unfold held. simp_state. specialize (H A x). unfold held in H. rewrite cnt_app, cnt_one.
  pose proof (held_set_nth x _ _ _ None Hw) as G. rewrite slot_cnt_none, slot_cnt_some in G. lia.
Qed.
Lemma inv3_release_drop t w c n : nth_error (workers t) w = Some (Some (c, n)) -> Inv3 t -> Inv3 (drop c (set_worker t w None)).
Proof.
  intros Hw H. rewrite drop_eq. simp_state.
  destruct (mem c (fdmap t)) eqn:Mf; intros A x; unfold held; simp_state; specialize (H A x); unfold held in H;
  pose proof (held_set_nth x _ _ _ None Hw) as G; rewrite slot_cnt_none, slot_cnt_some in G;
  rewrite ?mem_rm; destruct (Nat.eqb x c) eqn:E; cbn [negb andb]; try lia;
  apply Nat.eqb_eq in E; subst; rewrite ?Mf in H; lia.
Qed.
Lemma inv3_keep t w c n m : nth_error (workers t) w = Some (Some (c, n)) -> Inv3 t -> Inv3 (set_worker t w (Some (c, m))).
Proof.
  intros Hw H A x. unfold held. simp_state. specialize (H A x). unfold held in H.
  pose proof (held_set_nth x _ _ _ (Some (c, m)) Hw) as G. rewrite !slot_cnt_some in G. lia.
Qed.

Lemma inv3_spawn_fail s c rest : backlog s = c :: rest -> Inv2 s -> Inv3 s -> Inv3 (spawn_fail K c rest s).
Proof.
  intros Hb I2 I. unfold spawn_fail.
  destruct (accept_survives_spawn_failure (fx K)); [|apply inv3_server_close]; apply inv3_finish_own, inv3_accept; assumption.
Qed.
Lemma inv3_step s e s' : Inv2 s -> Inv3 s -> step e s = Some s' -> Inv3 s'.
Proof.
  intros I2 I H.
  step_cases H.
  all: try (apply inv3_spawn_fail; assumption).
  all: try (apply inv3_server_close; assumption).
  all: try (apply inv3_accept; assumption).
  all: try (apply inv3_finish_own).
  all: try (apply inv3_serve_on; assumption).
  all: try (eapply inv3_tables; [..|first [eassumption | apply inv3_serve_on; eassumption]]; simp_state; reflexivity).
  all: try match goal with Hb : _ && mem ?c (pollset _) && _ && _ = true |- _ =>
         let M := fresh "M" in assert (M : mem c (pollset s) = true) by (repeat (apply andb_prop in Hb; destruct Hb as [Hb ?]); assumption);
         first [apply inv3_poll_enqueue | apply inv3_poll_drop]; assumption end.
  all: try (eapply inv3_take; eassumption).
  all: try (eapply inv3_release_queue; [simp_state; eassumption|]).
  all: try (eapply inv3_release_poll; [simp_state; eassumption|]).
  all: try (eapply inv3_release_drop; [simp_state; eassumption|]).
  all: try (eapply inv3_keep; [simp_state; eassumption|]).
  all: try assumption; try (apply inv3_serve_on; assumption); try (apply inv3_set_conn; assumption).
  all: try (eapply inv3_tables; [..|eassumption]; simp_state; reflexivity).
Qed.


(* ---- all invariants hold in every reachable state ---- *)
Definition Inv (s : st) : Prop := Inv1 s /\ Inv2 s /\ Inv3 s.
Lemma inv_init : Inv (init K).
Proof. split; [apply inv1_init|split; [apply inv2_init|apply inv3_init]]. Qed.
Lemma inv_step s e s' : Inv s -> step e s = Some s' -> Inv s'.
Proof.
  intros (I1 & I2 & I3) H. split; [eapply inv1_step; eassumption|split; [eapply inv2_step; eassumption|eapply inv3_step; eassumption]].
Qed.
Lemma inv_reach_by l s : reach_by l s -> Inv s.
Proof. induction 1; [apply inv_init|eapply inv_step; eassumption]. Qed.
Lemma inv_reach s : reach s -> Inv s.
Proof. intros [l H]. eapply inv_reach_by, H. Qed.

(* ================= C17 ================= *)
Definition serving (g : stage) : bool := match g with Own | Authing | Pooled => true | _ => false end.
(* does close() reach the connections being served?  threaded / one-shot: always; pool, forking: by the generated facts *)
Definition close_reaches : bool :=
  match kind K with Threaded | OneShot => negb (loose K) | Pool => pool_close_drops (fx K) | Forking => fork_parent_keeps (fx K) end.

Lemma pooled_is_pool s c : Inv s -> stg (conns s c) = Pooled -> kind K = Pool.
Proof.
  intros (I1 & [H _] & _) Hs. specialize (H c). unfold conn_ok in H.
  destruct (kind K) eqn:Ek; try reflexivity; exfalso;
  (assert (Nk : kind K <> Pool) by congruence); destruct (i_nonpool _ I1 Nk) as (e1 & _);
  assert (M : mem c (fdmap s) = true) by tauto; rewrite e1 in M; discriminate.
Qed.

Lemma closed_conn_shut s x : shut (conns s x) = true -> shut (closed_conn s x) = true.
Proof.
  intros Hs. unfold closed_conn.
  destruct (mem x (backlog s)), (mem x (clients s)), (pool_fix && mem x (fdmap s)); cbn; rewrite ?close_conn_shut; cbn; rewrite ?Hs; reflexivity.
Qed.

Lemma closed_conn_shut_clients s x : mem x (clients s) = true -> shut (closed_conn s x) = true.
Proof.
  intros Hm. unfold closed_conn. rewrite Hm.
  destruct (mem x (backlog s)), (pool_fix && mem x (fdmap s)); cbn; rewrite ?close_conn_shut; reflexivity.
Qed.
Lemma closed_conn_shut_pooled s x :
  pool_fix = true -> mem x (fdmap s) = true -> authd (conns s x) = true -> (cclosed (conns s x) = true -> shut (conns s x) = true) ->
  shut (closed_conn s x) = true.
Proof.
  intros Hp Hm Ha Hc. unfold closed_conn. rewrite Hp, Hm. cbn [andb].
  destruct (mem x (backlog s)), (mem x (clients s)); cbn; rewrite close_conn_shut; cbn; rewrite ?Ha; cbn;
  destruct (cclosed (conns s x)) eqn:Ec; cbn; rewrite ?orb_true_r; auto; rewrite Hc; auto.
Qed.

Lemma tracked_of_reaches : close_reaches = true -> kind K <> Pool -> tracked = true.
Proof. unfold close_reaches, tracked. destruct (kind K); congruence. Qed.

Lemma serving_shut_when_closed s c : Inv s -> closed s = true -> close_reaches = true ->
  serving (stg (conns s c)) = true -> shut (conns s c) = true.
Proof.
  intros (I1 & [H2 N2] & I3) Hc Hr Hs. destruct (i_closed_clients _ I1 Hc) as [c1 _].
  specialize (H2 c). unfold conn_ok in H2. rewrite c1 in H2. cbn [mem existsb] in H2.
  destruct (stg (conns s c)) eqn:Sg; try discriminate.
  - destruct H2 as (_ & _ & Ho & _). destruct (Ho eq_refl) as [Nk T]. destruct (T (tracked_of_reaches Hr Nk)); [discriminate|assumption].
  - destruct H2 as (_ & _ & _ & Ha & _). destruct (Ha eq_refl) as (_ & _ & [F|F]); [discriminate|assumption].
  - destruct H2 as (_ & _ & _ & _ & Hp & _). destruct (Hp eq_refl) as [M _].
    assert (Kp : kind K = Pool).
    { destruct (kind K) eqn:Ek; try reflexivity; exfalso; (assert (Nk : kind K <> Pool) by congruence);
      destruct (i_nonpool _ I1 Nk) as (e1 & _); rewrite e1 in M; discriminate. }
    assert (Pf : pool_fix = true) by (unfold pool_fix; unfold close_reaches in Hr; rewrite Kp in *; exact Hr).
    destruct (i_closed_pool _ I1 Hc Pf) as [e1 _]. rewrite e1 in M. discriminate.
Qed.

Lemma serving_shut_by_close s c : Inv s -> close_reaches = true ->
  serving (stg (conns s c)) = true -> shut (closed_conn s c) = true.
Proof.
  intros (I1 & [H2 N2] & I3) Hr Hs.
  specialize (H2 c). unfold conn_ok in H2.
  destruct (stg (conns s c)) eqn:Sg; try discriminate.
  - destruct H2 as (_ & _ & Ho & _). destruct (Ho eq_refl) as [Nk T].
    destruct (T (tracked_of_reaches Hr Nk)); [now apply closed_conn_shut_clients|now apply closed_conn_shut].
  - destruct H2 as (_ & _ & _ & Ha & _). destruct (Ha eq_refl) as (_ & _ & [F|F]); [now apply closed_conn_shut_clients|now apply closed_conn_shut].
  - destruct H2 as (_ & Hcc & _ & _ & Hp & _). destruct (Hp eq_refl) as [M A].
    assert (Kp : kind K = Pool).
    { destruct (kind K) eqn:Ek; try reflexivity; exfalso; (assert (Nk : kind K <> Pool) by congruence);
      destruct (i_nonpool _ I1 Nk) as (e1 & _); rewrite e1 in M; discriminate. }
    assert (Pf : pool_fix = true) by (unfold pool_fix; unfold close_reaches in Hr; rewrite Kp in *; exact Hr).
    apply closed_conn_shut_pooled; auto. intros E. now destruct (Hcc E).
Qed.

Theorem close_ends_clients s : reach s -> close_reaches = true ->
  let s' := server_close K s in
  closed s' = true /\ active s' = false /\ lopen s' = false /\ clients s' = [] /\ backlog s' = []
  /\ forall c, serving (stg (conns s c)) = true -> shut (conns s' c) = true.
Proof.
  intros R Hr s'. pose proof (inv_reach _ R) as I. pose proof I as (I1 & I2 & I3).
  assert (I' : Inv1 s') by (apply inv1_server_close, I1).
  assert (Hc : closed s' = true) by apply sc_closed.
  destruct (i_closed_clients _ I' Hc) as [e1 e2].
  assert (Ha : active s' = false) by (pose proof (i_closed _ I') as A; rewrite Hc in A; destruct (active s'); [discriminate|reflexivity]).
  repeat split; auto.
  - rewrite (i_lopen _ I'). exact Ha.
  - intros c Hs. subst s'. rewrite sc_conns. destruct (closed s) eqn:Ec.
    + now apply serving_shut_when_closed.
    + now apply serving_shut_by_close.
Qed.

(* closing twice is the identity; close is always enabled *)
Theorem close_idempotent s : server_close K (server_close K s) = server_close K s.
Proof. unfold server_close at 1. now rewrite sc_closed. Qed.
Theorem close_always_enabled s : step EClose s = Some (server_close K s).
Proof. reflexivity. Qed.

(* the disconnect hook of a connection runs at most once, ever *)
Theorem hook_at_most_once s : reach s -> forall c, hooks (conns s c) <= 1 /\ (hooks (conns s c) = 1 <-> cclosed (conns s c) = true).
Proof.
  intros R c. pose proof (inv_reach _ R) as (_ & [H _] & _). specialize (H c). unfold conn_ok in H. destruct H as (Hh & _).
  rewrite Hh. destruct (cclosed (conns s c)); split; try lia; split; intros; try reflexivity; discriminate.
Qed.

(* a worker whose client has left, or whose socket the server has shut down, is never blocked *)
Lemma worker_unblocked s c :
  (stg (conns s c) = Own \/ stg (conns s c) = Authing) -> (gone (conns s c) = true \/ shut (conns s c) = true) ->
  exists s', step (EWork c) s = Some s'.
Proof.
  intros Hs Hg. unfold Server.step, Server.work.
  destruct Hs as [Hs|Hs]; rewrite Hs.
  - destruct (authd (conns s c)); cbn [negb].
    + destruct (shut (conns s c)) eqn:Sh; [eauto|]. destruct Hg as [Hg|Hg]; [|discriminate]. rewrite Hg.
      destruct (next_input (inb (conns s c))); try destruct (is_close q); eauto.
    + destruct (shut (conns s c)) eqn:Sh; [cbn; eauto|]. destruct Hg as [Hg|Hg]; [|discriminate]. rewrite Hg. cbn [orb andb].
      destruct (abeh (conns s c)); cbn [is_stall]; destruct (has_auth K); eauto.
  - destruct Hg as [-> | ->]; rewrite ?orb_true_r; cbn; eauto.
Qed.

Lemma no_pooled_when_closed s c : Inv s -> closed s = true -> close_reaches = true -> stg (conns s c) <> Pooled.
Proof.
  intros (I1 & [H2 N2] & I3) Hc Hr Sg. specialize (H2 c). unfold conn_ok in H2.
  destruct H2 as (_ & _ & _ & _ & Hp & _). destruct (Hp Sg) as [M _].
  assert (Kp : kind K = Pool).
  { destruct (kind K) eqn:Ek; try reflexivity; exfalso; (assert (Nk : kind K <> Pool) by congruence);
    destruct (i_nonpool _ I1 Nk) as (e1 & _); rewrite e1 in M; discriminate. }
  assert (Pf : pool_fix = true) by (unfold pool_fix; unfold close_reaches in Hr; rewrite Kp in *; exact Hr).
  destruct (i_closed_pool _ I1 Hc Pf) as [e1 _]. rewrite e1 in M. discriminate.
Qed.

Definition quiescent := Server.quiescent decomp decode K.

(* after close(), once the server's threads have nothing left to do, no connection is being served any more and every
   connection that had a service instance has run its disconnect hook exactly once *)
Theorem closed_and_quiet s : reach s -> closed s = true -> close_reaches = true -> quiescent s ->
  forall c, serving (stg (conns s c)) = false /\ (authd (conns s c) = true -> hooks (conns s c) = 1 /\ stg (conns s c) = Finished).
Proof.
  intros R Hc Hr Q c. pose proof (inv_reach _ R) as I.
  assert (Hs : serving (stg (conns s c)) = false).
  { destruct (serving (stg (conns s c))) eqn:Sv; [exfalso|reflexivity].
    pose proof (serving_shut_when_closed _ _ I Hc Hr Sv) as Sh.
    destruct (stg (conns s c)) eqn:Sg; try discriminate.
    - destruct (worker_unblocked s c) as [s' E]; [left; exact Sg|right; exact Sh|]. rewrite (Q (EWork c) eq_refl) in E. discriminate.
    - destruct (worker_unblocked s c) as [s' E]; [right; exact Sg|right; exact Sh|]. rewrite (Q (EWork c) eq_refl) in E. discriminate.
    - now apply (no_pooled_when_closed s c I Hc Hr). }
  split; [exact Hs|]. intros Ha. destruct I as (_ & [H2 _] & _). specialize (H2 c). unfold conn_ok in H2.
  destruct H2 as (Hh & _ & _ & _ & _ & _ & _ & _ & H9 & H10).
  destruct (stg (conns s c)) eqn:Sg; try discriminate; try (rewrite H10 in Ha by tauto; discriminate).
  rewrite Hh, (H9 eq_refl Ha). auto.
Qed.
(* ... and until then each of those workers can take its next step: nothing it waits for is missing *)
Theorem closed_workers_not_blocked s : reach s -> closed s = true -> close_reaches = true ->
  forall c, (stg (conns s c) = Own \/ stg (conns s c) = Authing) -> exists s', step (EWork c) s = Some s'.
Proof.
  intros R Hc Hr c Hs. apply worker_unblocked; [exact Hs|right].
  apply serving_shut_when_closed; auto using inv_reach. destruct Hs as [-> | ->]; reflexivity.
Qed.

(* ---- no residue ---- *)
Lemma held_witness x ws : cnt x (flat_map slot_cids ws) > 0 -> exists w n, nth_error ws w = Some (Some (x, n)).
Proof.
  induction ws as [|y ws IH]; cbn [flat_map]; intros H; [cbn in H; lia|].
  rewrite cnt_app in H. destruct (Nat.eq_dec (cnt x (slot_cids y)) 0) as [Z|Z].
  - destruct IH as (w & n & E); [lia|]. exists (S w), n. exact E.
  - destruct y as [[c n]|]; [|cbn in Z; lia]. cbn [slot_cids] in Z. rewrite cnt_one in Z.
    destruct (Nat.eqb x c) eqn:E; [|lia]. apply Nat.eqb_eq in E. subst. exists 0, n. reflexivity.
Qed.

Definition pool_has_idle_worker (s : st) : Prop := exists w, nth_error (workers s) w = Some None.
Definition clients_guard : Prop := kind K <> Pool \/ pool_fail_discards (fx K) = true.

Lemma serve_unblocked s w c n : kind K = Pool -> nth_error (workers s) w = Some (Some (c, S n)) -> gone (conns s c) = true ->
  exists s', step (EServe w) s = Some s'.
Proof.
  intros Kp Hw Hg. unfold Server.step, Server.serve_step. rewrite Kp, Hw.
  destruct (negb (mem c (fdmap s))); [eauto|]. rewrite Hg.
  destruct (next_input (inb (conns s c))); try destruct (is_close q); try destruct n as [|m]; try destruct (pool_catches_base (fx K)); eauto.
Qed.
(* no pool worker thread has died *)
Definition no_dead_worker (s : st) : Prop := forall w c, nth_error (workers s) w <> Some (Some (c, 0)).

(* while the server runs: when its threads have nothing left to do, no table mentions a client that has left
   (thread pool: provided a worker is idle -- see C16 for what happens otherwise) *)
Theorem no_residue_running s : reach s -> active s = true -> quiescent s ->
  forall c, gone (conns s c) = true ->
    stg (conns s c) <> Own /\ stg (conns s c) <> Authing
    /\ (clients_guard -> mem c (clients s) = false)
    /\ (no_dead_worker s -> pool_has_idle_worker s \/ queue s = [] ->
        stg (conns s c) <> Pooled /\ mem c (fdmap s) = false /\ mem c (pollset s) = false /\ mem c (queue s) = false /\ cnt c (held s) = 0).
Proof.
  intros R Ha Q c Hg. pose proof (inv_reach _ R) as I. pose proof I as (I1 & [H2 N2] & I3).
  assert (Hs : forall g, stg (conns s c) = g -> g = Own \/ g = Authing -> False).
  { intros g E Hga. destruct (worker_unblocked s c) as [s' F]; [rewrite E; exact Hga|left; exact Hg|].
    rewrite (Q (EWork c) eq_refl) in F. discriminate. }
  assert (H2c := H2 c). unfold conn_ok in H2c. destruct H2c as (_ & _ & _ & _ & Hp & Hfm & Hcl & _).
  split; [intros E; apply (Hs Own); auto|]. split; [intros E; apply (Hs Authing); auto|]. split.
  - intros G. destruct (mem c (clients s)) eqn:M; [exfalso|reflexivity].
    destruct (Hcl eq_refl) as [E|[E|(Kp & _ & D)]]; [apply (Hs Own); auto|apply (Hs Authing); auto|].
    destruct G; congruence.
  - intros ND G. specialize (I3 Ha c).
    assert (Mf : mem c (fdmap s) = false).
    { destruct (mem c (fdmap s)) eqn:M; [exfalso|reflexivity].
      assert (Kp : kind K = Pool).
      { destruct (kind K) eqn:Ek; try reflexivity; exfalso; (assert (Nk : kind K <> Pool) by congruence);
        destruct (i_nonpool _ I1 Nk) as (e1 & _); rewrite e1 in M; discriminate. }
      destruct (Nat.eq_dec (cnt c (pollset s)) 0) as [Zp|Zp]; [destruct (Nat.eq_dec (cnt c (queue s)) 0) as [Zq|Zq]|].
      - (* in a worker's hands *)
        destruct (held_witness c (workers s)) as (w & n & Hw); [unfold held in I3; lia|].
        destruct n as [|n]; [exfalso; exact (ND w c Hw)|].
        destruct (serve_unblocked s w c n Kp Hw Hg) as [s' F]. rewrite (Q (EServe w) eq_refl) in F. discriminate.
      - (* in the queue: an idle worker takes the head *)
        destruct G as [[w Hw]|G]; [|rewrite G in Zq; cbn in Zq; lia].
        destruct (queue s) as [|c' rest] eqn:Eq; [cbn in Zq; lia|].
        assert (F : step (ETake w) s = Some (with_pool s (fdmap s) (pollset s) rest (set_nth w (Some (c', Nat.max 1 (batch K))) (workers s)))).
        { unfold Server.step, Server.take_step. rewrite Kp, Hw, Eq, Ha. reflexivity. }
        rewrite (Q (ETake w) eq_refl) in F. discriminate.
      - (* in the poll set: end-of-stream makes it readable *)
        assert (Mp : mem c (pollset s) = true) by (apply cnt_pos_mem; lia).
        assert (F : exists s', step (EPoll c false) s = Some s').
        { unfold Server.step, Server.poll_step. rewrite Kp, Ha, Mp, Hg. cbn. rewrite orb_true_r. cbn. eauto. }
        destruct F as [s' F]. rewrite (Q (EPoll c false) eq_refl) in F. discriminate. }
    rewrite Mf in I3. split; [intros E; destruct (Hp E); congruence|]. split; [exact Mf|].
    repeat split; try (apply cnt_zero_mem; lia). lia.
Qed.

(* after close(): nothing is left in the tables close() is responsible for *)
Theorem no_residue_closed s : reach s -> closed s = true ->
  clients s = [] /\ backlog s = [] /\ (pool_fix = true -> fdmap s = [] /\ pollset s = []) /\ active s = false /\ lopen s = false.
Proof.
  intros R Hc. pose proof (inv_reach _ R) as (I1 & _ & _). destruct (i_closed_clients _ I1 Hc) as [e1 e2].
  assert (Ha : active s = false) by (pose proof (i_closed _ I1) as A; rewrite Hc in A; destruct (active s); [discriminate|reflexivity]).
  pose proof (i_lopen _ I1) as Hl. rewrite Ha in Hl.
  split; [exact e1|]. split; [exact e2|]. split; [|split; assumption].
  intros Pf. exact (i_closed_pool _ I1 Hc Pf).
Qed.

(* ---- the one-shot server ---- *)
Definition OneInv (s : st) : Prop :=
  (accepted s = [] /\ busy s = None)
  \/ exists c, accepted s = [c] /\ (busy s = Some c \/ closed s = true) /\ (stg (conns s c) = Finished -> closed s = true).

Lemma one_frame s s' :
  accepted s' = accepted s -> busy s' = busy s -> (closed s = true -> closed s' = true) ->
  (forall c, stg (conns s' c) = Finished -> stg (conns s c) = Finished \/ closed s' = true) -> OneInv s -> OneInv s'.
Proof.
  intros e1 e2 Hc Hf [[A B]|(c & A & B & F)]; [left; rewrite e1, e2; auto|right].
  exists c. rewrite e1, e2. split; [exact A|]. split; [tauto|]. intros E. destruct (Hf c E); auto.
Qed.
Lemma one_closed s' : closed s' = true -> (accepted s' = [] /\ busy s' = None \/ exists c, accepted s' = [c]) -> OneInv s'.
Proof. intros Hc [H|[c H]]; [left; exact H|right; exists c; auto]. Qed.

Lemma one_finish t c : kind K = OneShot -> (accepted t = [] /\ True \/ exists c', accepted t = [c']) -> OneInv (finish_own K c t).
Proof.
  intros Ko Sh. rewrite finish_own_eq, Ko. apply one_closed; [apply sc_closed|].
  rewrite sc_accepted, sc_busy. simp_state. destruct Sh as [[A _]|[c' A]]; [left; auto|right; eauto].
Qed.

Lemma one_step s e s' : kind K = OneShot -> Inv1 s -> Inv2 s -> OneInv s -> step e s = Some s' -> OneInv s'.
Proof.
  intros Ko I1 I2 O H.
  assert (Shape : accepted s = [] /\ True \/ exists c', accepted s = [c']).
  { destruct O as [[A B]|(c & A & _)]; [left; auto|right; eauto]. }
  step_cases H; try congruence.
  all: try (exfalso; match goal with Hb : _ && spawns K = true |- _ =>
              apply andb_prop in Hb; destruct Hb as [_ Hb]; unfold spawns in Hb; rewrite Ko in Hb; discriminate Hb end).
  all: try (eapply one_frame; [..|exact O]; simp_state; rewrite ?upd_same; try reflexivity; try tauto;
            intros x; simp_state; conn_at x c; cbn; rewrite ?serve_on_same, ?served_conn_stg, ?serve_on_other by assumption;
            try discriminate; auto; fail).
  all: try (apply one_finish; [exact Ko|simp_state; exact Shape]).
  - (* accept: only from the state in which nothing was accepted yet *)
    apply andb_prop in Heqb. destruct Heqb as [Hb Hn]. apply andb_prop in Hb. destruct Hb as [Ha Hl].
    assert (Bn : busy s = None) by (destruct (busy s); [discriminate|reflexivity]).
    assert (Hc : closed s = false) by (rewrite (i_closed _ I1), Ha; reflexivity).
    destruct O as [[A B]|(c0 & A & [B|B] & F)]; try congruence.
    right. exists c. unfold accept. rewrite Ko. simp_state. rewrite A, upd_same. cbn. split; [reflexivity|]. split; [now left|discriminate].
  - (* no inline authenticator outside the pool *)
    exfalso. destruct I2 as [H2 _]. specialize (H2 c). unfold conn_ok in H2.
    match goal with E : stg (conns s c) = Authing |- _ => assert (kind K = Pool) by tauto end. congruence.
Qed.

Theorem oneshot_serves_one s : kind K = OneShot -> reach s ->
  List.length (accepted s) <= 1
  /\ (accepted s <> [] -> step EAccept s = None)
  /\ (forall c, In c (accepted s) -> stg (conns s c) = Finished -> closed s = true /\ active s = false /\ lopen s = false).
Proof.
  intros Ko [l R].
  assert (O : OneInv s /\ Inv s).
  { induction R.
    - split; [left; split; reflexivity|apply inv_init].
    - destruct IHR as [O I]. split; [|eapply inv_step; eassumption]. destruct I as (I1 & I2 & _). eapply one_step; eassumption. }
  destruct O as [O (I1 & _ & _)].
  assert (Cl : closed s = true -> active s = false /\ lopen s = false).
  { intros Hc. pose proof (i_closed _ I1) as A. rewrite Hc in A. pose proof (i_lopen _ I1) as B.
    destruct (active s); [discriminate|auto]. }
  destruct O as [[A B]|(c & A & B & F)].
  - rewrite A. cbn. split; [lia|]. split; [congruence|intros c []].
  - rewrite A. cbn. split; [lia|]. split.
    + intros _. unfold Server.step. destruct (backlog s); [reflexivity|].
      destruct B as [B|B]; [rewrite B; cbn; now rewrite andb_false_r|].
      destruct (Cl B) as [Ha _]. now rewrite Ha.
    + intros c' [<-|[]] E. specialize (F E). destruct (Cl F). auto.
Qed.

(* ---- histories as lists: every event must be enabled ---- *)
Fixpoint exec (l : list event) (s : st) : option st :=
  match l with [] => Some s | e :: r => match step e s with Some s' => exec r s' | None => None end end.
Lemma exec_app l1 l2 s : exec (l1 ++ l2) s = match exec l1 s with Some s' => exec l2 s' | None => None end.
Proof. revert s. induction l1 as [|e l1 IH]; intros s; cbn; [reflexivity|]. destruct (step e s); [apply IH|reflexivity]. Qed.
Lemma exec_reach_from l : forall l0 s0 s, reach_by l0 s0 -> exec l s0 = Some s -> reach_by (l0 ++ l) s.
Proof.
  induction l as [|e l IH]; intros l0 s0 s R H; cbn in H.
  - inversion H; subst. now rewrite app_nil_r.
  - destruct (step e s0) as [s1|] eqn:E; [|discriminate].
    replace (l0 ++ e :: l) with ((l0 ++ [e]) ++ l) by (rewrite <- app_assoc; reflexivity).
    eapply IH; [|exact H]. econstructor; eassumption.
Qed.
Lemma exec_reach l s : exec l (init K) = Some s -> reach s.
Proof. intros H. exists ([] ++ l). eapply exec_reach_from; [constructor|exact H]. Qed.

(* ---- refutations on trees where close() does not reach the served connections ---- *)
Lemma nth_error_repeat_none (n w : nat) : nth_error (repeat (@None (cid * nat)) n) w = Some None \/ nth_error (repeat (@None (cid * nat)) n) w = None.
Proof. revert w. induction n as [|n IH]; intros [|w]; cbn; auto. Qed.

Definition w_connected (c : cid) (a : auth) : st :=
  with_backlog (set_conn (init K) c (k_abeh (k_stage fresh_conn Backlog) a)) [c].
Definition w_accepted_base (c : cid) (a : auth) : st :=
  let s1 := w_connected c a in
  with_backlog (with_accepted (with_clients (set_conn s1 c (k_stage (conns s1 c) Own)) [c]) [c]) [].

(* the witness of the design: one client is accepted, then close(): the client is still being served, its socket was
   never shut down, its hook has not run, and no thread of the server will ever do anything about it *)
Theorem close_refuted_pool : kind K = Pool -> pool_close_drops (fx K) = false ->
  exists s, exec [EConnect 1 AuthOk; EAccept; EClose] (init K) = Some s
    /\ closed s = true /\ quiescent s
    /\ stg (conns s 1) = Pooled /\ shut (conns s 1) = false /\ gone (conns s 1) = false
    /\ authd (conns s 1) = true /\ hooks (conns s 1) = 0 /\ mem 1 (fdmap s) = true.
Proof.
  intros Kp Pf. exists (server_close K (pool_register 1 (w_accepted_base 1 AuthOk))). split.
  - cbn. unfold accept, server_close, w_accepted_base, w_connected, pool_register. cbn. rewrite Kp. cbn. destruct (has_auth K); reflexivity.
  - unfold server_close. cbn. rewrite Kp, Pf. cbn. repeat split.
    intros e He. destruct e; try discriminate He; cbn; rewrite ?Kp; try reflexivity.
    + unfold Server.work. cbn. unfold shut_all, reset_all, upd. cbn. destruct (Nat.eqb c 1); reflexivity.
    + unfold Server.take_step. cbn. destruct (nth_error _ w) as [[?|]|]; reflexivity.
    + unfold Server.serve_step. cbn. destruct (nth_error_repeat_none (nworkers K) w) as [-> | ->]; reflexivity.
Qed.

(* the forking server: the parent has given the socket away; close() finds nothing to shut down *)
Theorem close_refuted_forking : kind K = Forking -> fork_parent_keeps (fx K) = false -> has_auth K = false ->
  exists s, exec [EConnect 1 AuthOk; EAccept; EWork 1; EClose] (init K) = Some s
    /\ closed s = true /\ quiescent s
    /\ stg (conns s 1) = Own /\ shut (conns s 1) = false /\ gone (conns s 1) = false
    /\ authd (conns s 1) = true /\ hooks (conns s 1) = 0.
Proof.
  intros Kp Pf Ha.
  exists (server_close K (set_conn (with_clients (w_accepted_base 1 AuthOk) []) 1 (k_authd (conns (w_accepted_base 1 AuthOk) 1)))). split.
  - cbn. unfold accept, server_close, w_accepted_base, w_connected, Server.work. cbn. repeat (progress (rewrite ?Kp, ?Pf, ?Ha; cbn)). reflexivity.
  - unfold server_close. cbn. rewrite Kp. cbn. repeat split.
    intros e He. destruct e; try discriminate He; cbn; rewrite ?Kp; try reflexivity.
    unfold Server.work. cbn. unfold shut_all, reset_all, upd. cbn. destruct (Nat.eqb c 1); reflexivity.
Qed.

(* the thread pool keeps the socket of a client that failed to authenticate in Server.clients after that client has left *)
Theorem residue_refuted_pool : kind K = Pool -> pool_fail_discards (fx K) = false -> has_auth K = true ->
  exists s, exec [EConnect 1 AuthFail; EAccept; ELeave 1 false] (init K) = Some s
    /\ active s = true /\ quiescent s /\ gone (conns s 1) = true /\ mem 1 (clients s) = true.
Proof.
  intros Kp Pf Ha.
  exists (set_conn (pool_reject K 1 (w_accepted_base 1 AuthFail)) 1 (k_gone (conns (pool_reject K 1 (w_accepted_base 1 AuthFail)) 1))). split.
  - cbn. unfold accept, pool_reject, w_accepted_base, w_connected. cbn. repeat (progress (rewrite ?Kp, ?Pf, ?Ha; cbn)). reflexivity.
  - unfold pool_reject. cbn. rewrite Pf. cbn. repeat split.
    intros e He. destruct e; try discriminate He; cbn; rewrite ?Kp; try reflexivity.
    + unfold Server.work. cbn. unfold upd. cbn. destruct (Nat.eqb c 1); reflexivity.
    + unfold Server.take_step. cbn. destruct (nth_error _ w) as [[?|]|]; reflexivity.
    + unfold Server.serve_step. cbn. rewrite Kp. destruct (nth_error_repeat_none (nworkers K) w) as [-> | ->]; reflexivity.
Qed.

(* ================= C16 ================= *)
(* the endpoint part of a connection record *)
Definition ep4 (k : conn) := (own k, table k, out k, hist k).
Lemma ep4_close k : ep4 (close_conn k) = ep4 k.
Proof. unfold ep4. destruct (close_conn_ep k) as (-> & -> & -> & ->). reflexivity. Qed.
Lemma ep4_closed_conn s x : ep4 (closed_conn s x) = ep4 (conns s x).
Proof.
  unfold closed_conn. destruct (mem x (backlog s)), (mem x (clients s)), (pool_fix && mem x (fdmap s)); cbn;
  try reflexivity; unfold ep4; cbn; repeat match goal with |- context [close_conn ?k] => destruct (close_conn_ep k) as (-> & -> & -> & ->) end; reflexivity.
Qed.

(* the client an event is about *)
Definition subject (s : st) (e : event) : option cid :=
  match e with
  | EConnect c _ | ESend c _ | ELeave c _ | EWork c | EPoll c _ => Some c
  | EAccept | ESpawnFail => hd_error (backlog s)
  | EServe w => match nth_error (workers s) w with Some (Some (c, _)) => Some c | _ => None end
  | ETake _ | EClose | EAcceptFail => None
  end.

Lemma fo_core_other c s x : x <> c -> conns (fo_core c s) x = conns s x.
Proof. intros N. unfold fo_core. cbn. now rewrite upd_other. Qed.
Lemma finish_own_other c s x : kind K <> OneShot -> x <> c -> conns (finish_own K c s) x = conns s x.
Proof. intros Nk N. rewrite finish_own_eq. destruct (kind K); try congruence; now apply fo_core_other. Qed.
Lemma drop_other c s x : x <> c -> conns (drop c s) x = conns s x.
Proof. intros N. rewrite drop_eq. destruct (mem c (fdmap s)); [cbn; now rewrite upd_other|reflexivity]. Qed.
Lemma accept_other c rest s x : x <> c -> conns (accept K c rest s) x = conns s x.
Proof.
  intros N. unfold accept. destruct (kind K); cbn; rewrite ?upd_other by assumption; try reflexivity.
  - match goal with |- context [if (gone ?k && ?m) then _ else _] => destruct (gone k && m) end; [destruct (pool_fail_discards (fx K)); cbn; rewrite ?upd_other by assumption; reflexivity|].
    destruct (has_auth K); [destruct (abeh (conns s c))|]; cbn; rewrite ?upd_other by assumption; reflexivity.
  - destruct (fork_parent_keeps (fx K)); cbn; now rewrite upd_other.
Qed.

(* 1. whatever a client does -- and whatever the server does for it -- leaves every other connection's record untouched
      (the one-shot server is excluded: its worker's last step closes the server) *)
Lemma spawn_fail_other c rest s x : kind K <> OneShot -> accept_survives_spawn_failure (fx K) = true -> x <> c ->
  conns (spawn_fail K c rest s) x = conns s x.
Proof. intros Nk Hf N. unfold spawn_fail. rewrite Hf, finish_own_other, accept_other by assumption. reflexivity. Qed.

Theorem noninterference s e s' : kind K <> OneShot -> e <> EClose -> e <> EAcceptFail ->
  (e = ESpawnFail -> accept_survives_spawn_failure (fx K) = true) -> step e s = Some s' ->
  forall x, subject s e <> Some x -> conns s' x = conns s x.
Proof.
  intros Nk Ne Ne2 Hsf H x Hx.
  step_cases H; try congruence; cbn [subject] in Hx;
  repeat match goal with E : nth_error _ _ = Some _ |- _ => rewrite E in Hx; clear E | E : backlog _ = _ |- _ => rewrite E in Hx; clear E end;
  cbn in Hx; try (assert (Nx : x <> c) by congruence).
  all: try (rewrite spawn_fail_other by (first [assumption | apply Hsf; reflexivity]); reflexivity).
  all: simp_state; rewrite ?finish_own_other, ?drop_other, ?accept_other by assumption; simp_state;
       rewrite ?upd_other, ?serve_on_other by assumption; try reflexivity.
  all: try (rewrite finish_own_other by assumption; simp_state; rewrite ?upd_other, ?serve_on_other by assumption; reflexivity).
  all: try (rewrite drop_other by assumption; simp_state; rewrite ?upd_other, ?serve_on_other by assumption; reflexivity).
  all: destruct (kind K); try congruence; simp_state; rewrite ?upd_other, ?serve_on_other by assumption; reflexivity.
Qed.

(* ---- the endpoint of a connection changes only by serving that connection's own requests ---- *)
Lemma ep4_server_close t x : ep4 (conns (server_close K t) x) = ep4 (conns t x).
Proof. rewrite sc_conns. destruct (closed t); [reflexivity|apply ep4_closed_conn]. Qed.
Lemma ep4_fo_core c t x : ep4 (conns (fo_core c t) x) = ep4 (conns t x).
Proof. unfold fo_core. cbn. conn_at x c; reflexivity. Qed.
Lemma ep4_finish_own c t x : ep4 (conns (finish_own K c t) x) = ep4 (conns t x).
Proof.
  rewrite finish_own_eq. destruct (kind K); try apply ep4_fo_core.
  rewrite ep4_server_close. cbn [conns with_busy]. apply ep4_fo_core.
Qed.
Lemma ep4_drop c t x : ep4 (conns (drop c t) x) = ep4 (conns t x).
Proof. rewrite drop_eq. destruct (mem c (fdmap t)); [|reflexivity]. cbn. conn_at x c; [|reflexivity]. unfold ep4. cbn. destruct (close_conn_ep (conns t c)) as (-> & -> & -> & ->). reflexivity. Qed.
Lemma ep4_accept c rest t x : ep4 (conns (accept K c rest t) x) = ep4 (conns t x).
Proof.
  unfold accept. destruct (kind K); cbn.
  - conn_at x c; reflexivity.
  - match goal with |- context [if (gone ?k && ?m) then _ else _] => destruct (gone k && m) end; [cbn; conn_at x c; reflexivity|].
    destruct (has_auth K); [destruct (abeh (conns t c))|]; cbn; conn_at x c; reflexivity.
  - conn_at x c; reflexivity.
  - destruct (fork_parent_keeps (fx K)); cbn; conn_at x c; reflexivity.
Qed.
Lemma ep4_set_conn t c k x : ep4 k = ep4 (conns t c) -> ep4 (conns (set_conn t c k) x) = ep4 (conns t x).
Proof. intros E. cbn. conn_at x c; [exact E|reflexivity]. Qed.
Lemma ep4_serve_on t c q rest x : ep4 (conns (serve_on K t c q rest) x) = if Nat.eqb x c then ep4 (served_conn t c q rest) else ep4 (conns t x).
Proof.
  destruct (Nat.eqb x c) eqn:E.
  - apply Nat.eqb_eq in E. subst. now rewrite serve_on_same.
  - apply Nat.eqb_neq in E. now rewrite serve_on_other.
Qed.

Lemma ep4_spawn_fail c rest t x : ep4 (conns (spawn_fail K c rest t) x) = ep4 (conns t x).
Proof.
  unfold spawn_fail. destruct (accept_survives_spawn_failure (fx K)); rewrite ?ep4_server_close, ep4_finish_own, ep4_accept; reflexivity.
Qed.
Theorem step_ep s e s' : step e s = Some s' ->
  forall x, ep4 (conns s' x) = ep4 (conns s x)
            \/ exists q rest, next_input (inb (conns s x)) = NReq q rest /\ ep4 (conns s' x) = ep4 (served_conn s x q rest).
Proof.
  intros H x.
  step_cases H.
  all: rewrite ?ep4_spawn_fail, ?ep4_finish_own, ?ep4_drop, ?ep4_accept, ?ep4_server_close.
  all: try (left; reflexivity).
  all: try (left; apply ep4_set_conn; unfold ep4; cbn; rewrite ?(proj1 (close_conn_ep _)); reflexivity).
  all: try (left; apply ep4_set_conn; rewrite ep4_close; reflexivity).
  all: cbn [conns set_worker enqueue with_pool]; rewrite ep4_serve_on; destruct (Nat.eqb x c) eqn:E; [|left; reflexivity];
       apply Nat.eqb_eq in E; subst x; right; eexists _, _; split; [eassumption|reflexivity].
Qed.

(* hence, with a service class registered, what a connection holds and what it has answered is a function of the requests
   served on that very connection *)
Definition ep_of (c : cid) (l : list req) : svc * list oid * list reply :=
  ep_run K c {| Server.cnt := 0; nmade := 0 |} [] [] l.
Lemma ep_run_snoc c l : forall v tb acc q,
  ep_run K c v tb acc (l ++ [q]) =
  let '(v1, tb1, o1) := ep_run K c v tb acc l in let '(v2, tb2, r) := serve_req K c v1 tb1 q in (v2, tb2, o1 ++ [r]).
Proof.
  induction l as [|p l IH]; intros v tb acc q; cbn.
  - destruct (serve_req K c v tb q) as [[v2 tb2] r]. reflexivity.
  - destruct (serve_req K c v tb p) as [[v1 tb1] r1]. apply IH.
Qed.
Theorem endpoint_is_function_of_own_requests s : class_svc K = true -> reach s ->
  forall c, (own (conns s c), table (conns s c), out (conns s c)) = ep_of c (hist (conns s c)).
Proof.
  intros Hc [l R]. induction R; intros c.
  - reflexivity.
  - specialize (IHR c). destruct (step_ep _ _ _ H c) as [E|(q & rest & Hn & E)]; unfold ep4 in E.
    + inversion E. congruence.
    + unfold served_conn in E. rewrite Hc in E.
      destruct (serve_req K c (own (conns s c)) (table (conns s c)) q) as [[v' tb'] r] eqn:Sr.
      assert (E' : (own (conns s' c), table (conns s' c), out (conns s' c), hist (conns s' c))
                   = (v', tb', out (conns s c) ++ [r], hist (conns s c) ++ [q])).
      { rewrite E. destruct (is_close q); [destruct (close_conn_ep (k_served (conns s c) rest v' tb' r q)) as (-> & -> & -> & ->)|]; reflexivity. }
      injection E' as e1 e2 e3 e4. rewrite e1, e2, e3, e4. unfold ep_of. rewrite ep_run_snoc.
      fold (ep_of c (hist (conns s c))). rewrite <- IHR, Sr. reflexivity.
Qed.

(* ---- references never leak: a connection resolves only ids it was itself given, and with a service class registered those are its own ---- *)
Lemma omem_In o l : omem o l = true <-> In o l.
Proof.
  unfold omem. rewrite existsb_exists. split.
  - intros (x & H & E). unfold oeqb in E. apply andb_prop in E. destruct E as [E1 E2]. apply Nat.eqb_eq in E1, E2.
    destruct o, x. cbn in *. subst. exact H.
  - intros H. exists o. split; [exact H|]. unfold oeqb. now rewrite !Nat.eqb_refl.
Qed.
Lemma orm1_subset o l x : In x (orm1 o l) -> In x l.
Proof.
  induction l as [|y l IH]; cbn; [auto|]. destruct (oeqb o y); cbn; [auto|]. intros [H|H]; auto.
Qed.
Lemma serve_req_tables c v tb q v' tb' r (acc : list reply) :
  serve_req K c v tb q = (v', tb', r) ->
  (forall o, In o tb -> In (POid o) acc) -> forall o, In o tb' -> In (POid o) (acc ++ [r]).
Proof.
  intros E H o Ho. rewrite in_app_iff. unfold serve_req in E.
  destruct q as [|o0|o0|o0|o0| | |]; [| | | | | |inversion E; subst; left; auto|].
  - inversion E; subst. destruct Ho as [<-|Ho]; [right; now left|left; auto].
  - destruct (omem o0 tb && oeqb o0 (owner K c, 0)); inversion E; subst; left; auto.
  - destruct (omem o0 tb && oeqb o0 (owner K c, 0)); inversion E; subst; [|left; auto].
    destruct Ho as [<-|Ho]; [right; now left|left; auto].
  - inversion E; subst. left; auto.
  - destruct (omem o0 tb); inversion E; subst; left; [apply H; eapply orm1_subset, Ho|auto].
  - inversion E; subst. left; auto.
  - inversion E; subst. left; auto.
Qed.
Lemma serve_req_owner c v tb q v' tb' r :
  serve_req K c v tb q = (v', tb', r) ->
  (forall o, In o tb -> fst o = owner K c) -> (forall o, In o tb' -> fst o = owner K c) /\ (forall o, r = POid o -> fst o = owner K c).
Proof.
  intros E H. unfold serve_req in E.
  destruct q as [|o0|o0|o0|o0| | |]; [| | | | | |inversion E; subst; split; [assumption|intros o Eo; discriminate]
                                       |inversion E; subst; split; [assumption|intros o Eo; discriminate]].
  - inversion E; subst. split; [intros o [<-|Ho]; [reflexivity|auto]|intros o Eo; inversion Eo; reflexivity].
  - destruct (omem o0 tb && oeqb o0 (owner K c, 0)); inversion E; subst; (split; [assumption|intros o Eo; discriminate]).
  - destruct (omem o0 tb && oeqb o0 (owner K c, 0)); inversion E; subst.
    + split; [intros o [<-|Ho]; [reflexivity|auto]|intros o Eo; inversion Eo; reflexivity].
    + split; [assumption|intros o Eo; discriminate].
  - inversion E; subst. split; [assumption|]. intros o Eo. destruct (omem o0 tb'); discriminate.
  - destruct (omem o0 tb); inversion E; subst; (split; [|intros o Eo; discriminate]); [|assumption].
    intros o Ho. apply H. eapply orm1_subset, Ho.
  - inversion E; subst. split; [assumption|intros o Eo; discriminate].
Qed.

Definition TabInv (s : st) : Prop :=
  forall x, (forall o, In o (table (conns s x)) -> In (POid o) (out (conns s x)))
            /\ (forall o, In o (table (conns s x)) -> fst o = owner K x)
            /\ (forall o, In (POid o) (out (conns s x)) -> fst o = owner K x).
Lemma tabinv_reach s : reach s -> TabInv s.
Proof.
  intros [l R]. induction R; intros x.
  - cbn. repeat split; intros o [].
  - specialize (IHR x). destruct IHR as (I1 & I2 & I3).
    destruct (step_ep _ _ _ H x) as [E|(q & rest & Hn & E)]; unfold ep4 in E.
    + injection E as e1 e2 e3 e4. rewrite e2, e3. auto.
    + unfold served_conn in E.
      destruct (serve_req K x _ (table (conns s x)) q) as [[v' tb'] r] eqn:Sr.
      assert (E' : (own (conns s' x), table (conns s' x), out (conns s' x), hist (conns s' x))
                   = ((if class_svc K then v' else own (conns s x)), tb', out (conns s x) ++ [r], hist (conns s x) ++ [q])).
      { rewrite E. destruct (is_close q); [match goal with |- context [close_conn ?k] => destruct (close_conn_ep k) as (-> & -> & -> & ->) end|]; reflexivity. }
      injection E' as e1 e2 e3 e4. rewrite e2, e3.
      destruct (serve_req_owner _ _ _ _ _ _ _ Sr I2) as [O1 O2].
      split; [eapply serve_req_tables; eassumption|]. split; [exact O1|].
      intros o Ho. apply in_app_or in Ho. destruct Ho as [Ho|[Ho|[]]]; auto.
Qed.

Theorem only_given_ids_resolve s : reach s -> forall x o, omem o (table (conns s x)) = true -> In (POid o) (out (conns s x)).
Proof. intros R x o H. apply omem_In in H. destruct (tabinv_reach s R x) as (I1 & _). auto. Qed.
Theorem foreign_id_never_resolves s : class_svc K = true -> reach s ->
  forall x y o, x <> y -> In (POid o) (out (conns s y)) -> omem o (table (conns s x)) = false.
Proof.
  intros Hc R x y o N Hy. destruct (omem o (table (conns s x))) eqn:M; [exfalso|reflexivity]. apply omem_In in M.
  destruct (tabinv_reach s R x) as (_ & I2 & _). destruct (tabinv_reach s R y) as (_ & _ & I3).
  specialize (I2 o M). specialize (I3 o Hy). unfold owner in *. rewrite Hc in *. congruence.
Qed.

(* ---- the accept loop ---- *)
Lemma accept_closed c rest s : closed (accept K c rest s) = closed s.
Proof.
  unfold accept. destruct (kind K); cbn; try reflexivity.
  - match goal with |- context [if (gone ?k && ?m) then _ else _] => destruct (gone k && m) end; [reflexivity|]. destruct (has_auth K); [destruct (abeh (conns s c))|]; cbn; reflexivity.
  - destruct (fork_parent_keeps (fx K)); reflexivity.
Qed.
Lemma drop_closed c s : closed (drop c s) = closed s.
Proof. rewrite drop_eq. destruct (mem c (fdmap s)); reflexivity. Qed.
(* the events that close the server: close() itself, and -- on a tree that does not survive them -- a failing accept() and a worker
   that cannot be started *)
Definition closing (e : event) : bool :=
  match e with
  | EClose => true
  | EAcceptFail => negb (accept_survives_oserror (fx K))
  | ESpawnFail => negb (accept_survives_spawn_failure (fx K))
  | _ => false
  end.
Lemma spawn_fail_closed c rest s : kind K <> OneShot -> accept_survives_spawn_failure (fx K) = true ->
  closed (spawn_fail K c rest s) = closed s.
Proof.
  intros Nk Hf. unfold spawn_fail. rewrite Hf, finish_own_eq.
  destruct (kind K) eqn:Ek; try congruence; unfold fo_core; cbn [closed with_clients set_conn with_conns]; apply accept_closed.
Qed.
Lemma step_closed_same s e s' : kind K <> OneShot -> closing e = false -> step e s = Some s' -> closed s' = closed s.
Proof.
  intros Nk Ce H. step_cases H; cbn [closing] in Ce; try discriminate Ce; rewrite ?accept_closed, ?drop_closed; simp_state; try reflexivity.
  all: try (match goal with E : accept_survives_oserror (fx K) = false |- _ => rewrite E in Ce; discriminate Ce end).
  all: try (apply spawn_fail_closed; [assumption|now apply negb_false_iff]).
  all: try (destruct (kind K); try congruence; simp_state; reflexivity).
  all: try (destruct (pool_fail_discards (fx K)); reflexivity).
Qed.
Lemma closed_only_by_closing l s : kind K <> OneShot -> reach_by l s -> closed s = true -> exists e, In e l /\ closing e = true.
Proof.
  intros Nk R. induction R; intros Hc; [discriminate|].
  destruct (closing e) eqn:Ce.
  - exists e. split; [apply in_or_app; right; now left|exact Ce].
  - rewrite (step_closed_same _ _ _ Nk Ce H) in Hc. destruct (IHR Hc) as (e0 & I0 & C0).
    exists e0. split; [apply in_or_app; now left|exact C0].
Qed.
Lemma closed_only_by_close l s : kind K <> OneShot -> reach_by l s -> closed s = true ->
  In EClose l \/ (accept_survives_oserror (fx K) = false /\ In EAcceptFail l)
  \/ (accept_survives_spawn_failure (fx K) = false /\ In ESpawnFail l).
Proof.
  intros Nk R Hc. destruct (closed_only_by_closing l s Nk R Hc) as (e & I & C).
  destruct e; cbn in C; try discriminate C.
  - right; left. split; [now apply negb_true_iff|exact I].
  - right; right. split; [now apply negb_true_iff|exact I].
  - left; exact I.
Qed.
Theorem accept_stays_enabled l s : kind K <> OneShot -> reach_by l s -> ~ In EClose l ->
  (accept_survives_oserror (fx K) = true \/ ~ In EAcceptFail l) ->
  (accept_survives_spawn_failure (fx K) = true \/ ~ In ESpawnFail l) -> busy s = None -> backlog s <> [] ->
  exists s', step EAccept s = Some s'.
Proof.
  intros Nk R Nc Nf Ns Hb Hq. assert (I : Inv s) by (eapply inv_reach_by; eassumption). destruct I as (I1 & _ & _).
  assert (Hc : closed s = false).
  { destruct (closed s) eqn:E; [|reflexivity]. exfalso. destruct (closed_only_by_close l s Nk R E) as [A|[[A B]|[A B]]]; [auto| |].
    - destruct Nf as [Nf|Nf]; [congruence|auto].
    - destruct Ns as [Ns|Ns]; [congruence|auto]. }
  pose proof (i_closed _ I1) as A. pose proof (i_lopen _ I1) as B. rewrite Hc in A.
  assert (Ha : active s = true) by (destruct (active s); [reflexivity|discriminate]).
  unfold Server.step. destruct (backlog s); [congruence|]. rewrite B, Ha, Hb. cbn. eauto.
Qed.
Lemma threaded_forking_never_busy s : kind K = Threaded \/ kind K = Forking -> reach s -> busy s = None.
Proof.
  intros Hk R. destruct (inv_reach s R) as (I1 & _ & _). destruct (busy s) eqn:E; [exfalso|reflexivity].
  destruct (i_busy_kind _ I1) as [F|F]; [congruence|destruct Hk; congruence|destruct Hk; congruence].
Qed.

(* ---- a well-behaved client is served from its own connection's state, whatever the others are doing ---- *)
Definition reply_of (s : st) (c : cid) (q : req) : reply :=
  let k := conns s c in snd (serve_req K c (if class_svc K then own k else shared s) (table k) q).
Lemma served_conn_out s c q rest : out (served_conn s c q rest) = out (conns s c) ++ [reply_of s c q].
Proof.
  unfold served_conn, reply_of. destruct (serve_req K c _ _ q) as [[v' tb'] r]. cbn [snd].
  destruct (is_close q); [match goal with |- context [close_conn ?k] => destruct (close_conn_ep k) as (_ & _ & -> & _) end|]; reflexivity.
Qed.
Lemma served_conn_noclose s c q rest : is_close q = false ->
  stg (served_conn s c q rest) = stg (conns s c) /\ shut (served_conn s c q rest) = shut (conns s c) /\ inb (served_conn s c q rest) = rest.
Proof. intros Eq. unfold served_conn. destruct (serve_req K c _ _ q) as [[v' tb'] r]. rewrite Eq. repeat split. Qed.
Theorem own_worker_serves s c q rest :
  stg (conns s c) = Own -> authd (conns s c) = true -> shut (conns s c) = false -> next_input (inb (conns s c)) = NReq q rest ->
  exists s', step (EWork c) s = Some s' /\ out (conns s' c) = out (conns s c) ++ [reply_of s c q]
             /\ (is_close q = false -> stg (conns s' c) = Own /\ shut (conns s' c) = false /\ inb (conns s' c) = rest).
Proof.
  intros Hs Ha Hsh Hn. unfold Server.step, Server.work. rewrite Hs, Ha, Hsh, Hn. cbn [negb].
  destruct (is_close q) eqn:Eq; eexists; (split; [reflexivity|]).
  - assert (E := ep4_finish_own c (serve_on K s c q rest) c). unfold ep4 in E. injection E as _ _ e3 _.
    rewrite e3, serve_on_same, served_conn_out. split; [reflexivity|discriminate].
  - rewrite serve_on_same, served_conn_out. split; [reflexivity|]. intros _.
    destruct (served_conn_noclose s c q rest Eq) as (-> & -> & ->). auto.
Qed.

(* the thread pool: wherever a connection with a complete request is, its next step is enabled -- except when it waits in the
   queue and no worker is free (c16_pool_liveness_refuted shows that this can last for ever) *)
Lemma out_drop c t x : out (conns (drop c t) x) = out (conns t x).
Proof. assert (E := ep4_drop c t x). unfold ep4 in E. now injection E. Qed.
Theorem pool_next_step_enabled s c q rest : kind K = Pool -> active s = true -> mem c (fdmap s) = true ->
  next_input (inb (conns s c)) = NReq q rest ->
  (mem c (pollset s) = true -> exists s', step (EPoll c false) s = Some s')
  /\ (forall w r, nth_error (workers s) w = Some None -> queue s = c :: r ->
        exists s1 s2, step (ETake w) s = Some s1 /\ step (EServe w) s1 = Some s2
                      /\ out (conns s2 c) = out (conns s c) ++ [reply_of s c q])
  /\ (forall w n, nth_error (workers s) w = Some (Some (c, S n)) ->
        exists s', step (EServe w) s = Some s' /\ out (conns s' c) = out (conns s c) ++ [reply_of s c q]).
Proof.
  intros Kp Ha Mf Hn.
  assert (Hne : negb (is_none (hd_error (inb (conns s c)))) = true).
  { unfold Server.next_input in Hn. destruct (inb (conns s c)); [discriminate|reflexivity]. }
  assert (Serve : forall t w n, nth_error (workers t) w = Some (Some (c, S n)) -> fdmap t = fdmap s -> conns t = conns s -> shared t = shared s ->
            exists s', step (EServe w) t = Some s' /\ out (conns s' c) = out (conns s c) ++ [reply_of s c q]).
  { intros t w n Hw e1 e2 e3. unfold Server.step, Server.serve_step. rewrite Kp, Hw, e1, Mf, e2, Hn. cbn [negb].
    assert (Eo : out (conns (serve_on K t c q rest) c) = out (conns s c) ++ [reply_of s c q]).
    { rewrite serve_on_same, served_conn_out. unfold reply_of. now rewrite e2, e3. }
    destruct (is_close q); [|destruct n as [|m]]; eexists; (split; [reflexivity|]); rewrite ?out_drop;
    cbn [conns set_worker enqueue with_pool]; exact Eo. }
  split; [|split].
  - intros Mp. unfold Server.step, Server.poll_step. rewrite Kp, Ha, Mp, Hne. cbn. eauto.
  - intros w r Hw Hq.
    assert (Mx : exists b, Nat.max 1 (batch K) = S b) by (destruct (batch K); cbn; eauto).
    destruct Mx as [b Mx].
    assert (T : step (ETake w) s = Some (with_pool s (fdmap s) (pollset s) r (set_nth w (Some (c, S b)) (workers s)))).
    { unfold Server.step, Server.take_step. now rewrite Kp, Hw, Hq, Ha, Mx. }
    destruct (Serve (with_pool s (fdmap s) (pollset s) r (set_nth w (Some (c, S b)) (workers s))) w b) as (s2 & E2 & O2); try reflexivity.
    { cbn. clear - Hw. revert w Hw. induction (workers s) as [|y ws IH]; intros [|w] H; cbn in *; try discriminate; auto. }
    eexists _, s2. split; [exact T|]. auto.
  - intros w n Hw. apply (Serve s w n Hw); reflexivity.
Qed.



(* ---- no pool worker thread ever dies on a tree whose _serve_requests catches BaseException ---- *)
Lemma nth_error_set_nth {A} (l : list A) w v w' : nth_error (set_nth w v l) w' = if Nat.eqb w' w then (match nth_error l w with Some _ => Some v | None => None end) else nth_error l w'.
Proof.
  revert w w'. induction l as [|y l IH]; intros [|w] [|w']; cbn; try reflexivity.
  - destruct (Nat.eqb w' w); reflexivity.
  - apply IH.
Qed.
Lemma workers_finish_own c t : workers (finish_own K c t) = workers t.
Proof. rewrite finish_own_eq. destruct (kind K); try reflexivity. now rewrite sc_workers. Qed.
Lemma workers_drop c t : workers (drop c t) = workers t.
Proof. rewrite drop_eq. destruct (mem c (fdmap t)); reflexivity. Qed.
Lemma workers_accept c rest t : workers (accept K c rest t) = workers t.
Proof.
  unfold accept. destruct (kind K); cbn; try reflexivity.
  - match goal with |- context [if (gone ?k && ?m) then _ else _] => destruct (gone k && m) end; [reflexivity|]. destruct (has_auth K); [destruct (abeh (conns t c))|]; reflexivity.
  - destruct (fork_parent_keeps (fx K)); reflexivity.
Qed.
Lemma workers_spawn_fail c rest t : workers (spawn_fail K c rest t) = workers t.
Proof. unfold spawn_fail. destruct (accept_survives_spawn_failure (fx K)); rewrite ?sc_workers, workers_finish_own, workers_accept; reflexivity. Qed.
Lemma no_dead_step s e s' : pool_catches_base (fx K) = true -> no_dead_worker s -> step e s = Some s' -> no_dead_worker s'.
Proof.
  intros Hf ND H.
  step_cases H; try congruence; unfold no_dead_worker in *; intros w' c';
  try (destruct (accept_survives_oserror (fx K)));
  rewrite ?workers_spawn_fail, ?workers_finish_own, ?workers_drop, ?workers_accept, ?sc_workers; cbn [workers set_conn with_backlog with_pool with_busy pool_reject with_clients set_worker enqueue add_inactive track_served];
  rewrite ?so_workers; try apply ND.
  all: cbn [workers set_conn with_conns].
  all: match goal with |- nth_error (set_nth ?w _ _) _ <> _ =>
         rewrite nth_error_set_nth; destruct (Nat.eqb w' w); try apply ND;
         match goal with |- context [nth_error ?l w] => destruct (nth_error l w) end; try discriminate end.
  all: try (destruct (batch K); cbn; discriminate).
Qed.
Theorem no_dead_worker_when_caught s : pool_catches_base (fx K) = true -> reach s -> no_dead_worker s.
Proof.
  intros Hf [l R]. induction R.
  - intros w c. cbn. destruct (kind K); [destruct w; discriminate| |destruct w; discriminate|destruct w; discriminate].
    revert w. induction (nworkers K) as [|n IH]; intros [|w]; cbn; try discriminate. apply IH.
  - eapply no_dead_step; eassumption.
Qed.

(* ---- a socket-replacing authenticator (TLS) ---- *)
Theorem close_refuted_wrapping_auth : kind K = Threaded -> has_auth K = true -> auth_replaces K = true ->
  worker_tracks_served (fx K) = false ->
  exists s, exec [EConnect 1 AuthOk; EAccept; EWork 1; EClose] (init K) = Some s
    /\ closed s = true /\ quiescent s
    /\ stg (conns s 1) = Own /\ shut (conns s 1) = false /\ gone (conns s 1) = false
    /\ authd (conns s 1) = true /\ hooks (conns s 1) = 0.
Proof.
  intros Kp Ha Hr Hf.
  exists (server_close K (set_conn (with_clients (w_accepted_base 1 AuthOk) []) 1 (k_authd (conns (w_accepted_base 1 AuthOk) 1)))). split.
  - cbn. unfold accept, server_close, w_accepted_base, w_connected, Server.work, track_served, loose. cbn.
    repeat (progress (rewrite ?Kp, ?Ha, ?Hr, ?Hf; cbn)). reflexivity.
  - unfold server_close. cbn. rewrite Kp. cbn. repeat split.
    intros e He. destruct e; try discriminate He; cbn; rewrite ?Kp; try reflexivity.
    unfold Server.work. cbn. unfold shut_all, reset_all, upd. cbn. destruct (Nat.eqb c 1); reflexivity.
Qed.

(* ---- accept() failing with an OS error ---- *)
Theorem accept_error_refuted : kind K = Threaded -> has_auth K = false -> accept_survives_oserror (fx K) = false ->
  exists s, exec [EConnect 1 AuthOk; EAccept; EWork 1; EAcceptFail] (init K) = Some s
    /\ closed s = true /\ active s = false /\ shut (conns s 1) = true /\ authd (conns s 1) = true /\ gone (conns s 1) = false.
Proof.
  intros Kp Ha Hf. eexists. split.
  - cbn. unfold accept, Server.work, track_served, loose. cbn. repeat (progress (rewrite ?Kp, ?Ha, ?Hf; cbn)). reflexivity.
  - unfold server_close. cbn. rewrite ?Kp. cbn. repeat split.
Qed.

(* ---- a worker (thread, child process) that cannot be started ---- *)
(* on a tree that guards _accept_method: the failure costs that client and nobody else; the loop goes on *)
Theorem spawn_failure_costs_one s c rest s' : kind K <> OneShot -> accept_survives_spawn_failure (fx K) = true ->
  backlog s = c :: rest -> step ESpawnFail s = Some s' ->
  closed s' = closed s /\ (forall x, x <> c -> conns s' x = conns s x)
  /\ stg (conns s' c) = Finished /\ shut (conns s' c) = true /\ authd (conns s' c) = authd (conns s c) /\ hooks (conns s' c) = hooks (conns s c)
  /\ mem c (clients s') = false /\ workers s' = workers s.
Proof.
  intros Nk Hf Hb H. unfold Server.step in H. rewrite Hb in H.
  destruct (active s && lopen s && is_none (busy s) && spawns K) eqn:G; [|discriminate H]. injection H as <-.
  apply andb_prop in G. destruct G as [_ Hsp].
  split; [apply spawn_fail_closed; assumption|]. split; [intros x Nx; apply spawn_fail_other; assumption|].
  rewrite workers_spawn_fail. unfold spawn_fail. rewrite Hf, finish_own_eq.
  assert (Ec := accept_spawns_conn s c rest Hsp).
  destruct (kind K) eqn:Ek; try congruence; try (unfold spawns in Hsp; rewrite Ek in Hsp; discriminate Hsp);
  unfold fo_core; cbn [conns clients with_clients set_conn with_conns]; rewrite upd_same, Ec, mem_rm_same; cbn; repeat split; reflexivity.
Qed.
(* refutation on a tree without the guard: one served client, a second one connects while no thread can be started: the server is
   closed although nobody called close(), and the first client has been thrown out *)
Theorem spawn_failure_refuted : kind K = Threaded -> has_auth K = false -> accept_survives_spawn_failure (fx K) = false ->
  exists s, exec [EConnect 1 AuthOk; EAccept; EWork 1; EConnect 2 AuthOk; ESpawnFail] (init K) = Some s
    /\ closed s = true /\ active s = false /\ shut (conns s 1) = true /\ authd (conns s 1) = true /\ gone (conns s 1) = false.
Proof.
  intros Kp Ha Hf. eexists. split.
  - cbn. unfold spawns, spawn_fail, finish_own, accept, Server.work, track_served, loose. cbn. repeat (progress (rewrite ?Kp, ?Ha, ?Hf; cbn)). reflexivity.
  - unfold server_close. cbn. rewrite ?Kp. cbn. repeat split.
Qed.

(* ---- close() racing with an accept in flight ---- *)
Theorem late_register_harmless s c : accept_rechecks_closed (fx K) = true -> closed s = true ->
  let s' := late_register K c s in
  clients s' = clients s /\ closed s' = true /\ shut (conns s' c) = true /\ stg (conns s' c) = Finished
  /\ forall x, x <> c -> conns s' x = conns s x.
Proof.
  intros Hf Hc. cbv zeta. unfold late_register. rewrite Hf, Hc. cbn. rewrite upd_same.
  split; [reflexivity|]. split; [exact Hc|]. split; [reflexivity|]. split; [reflexivity|].
  intros x Nx. now rewrite upd_other.
Qed.
Theorem accept_close_race_refuted : kind K = Threaded -> accept_rechecks_closed (fx K) = false ->
  let s0 := server_close K (with_backlog (w_connected 1 AuthOk) []) in       (* the listener handed connection 1 out, then close() ran *)
  let s := late_register K 1 s0 in
  closed s = true /\ active s = false /\ clients s = [1] /\ stg (conns s 1) = Own /\ shut (conns s 1) = false.
Proof.
  intros Kp Hf. cbv zeta. unfold late_register. rewrite Hf. cbn [andb]. unfold accept, server_close, w_connected. cbn. rewrite Kp. cbn. repeat split.
Qed.

(* ---- the one-shot server does accept its one connection ---- *)
Lemma oneinv_reach s : kind K = OneShot -> reach s -> OneInv s /\ Inv s.
Proof.
  intros Ko [l R]. induction R.
  - split; [left; split; reflexivity|apply inv_init].
  - destruct IHR as [O I]. split; [|eapply inv_step; eassumption]. destruct I as (I1 & I2 & _). eapply one_step; eassumption.
Qed.
Theorem oneshot_accepts_first s : kind K = OneShot -> reach s -> accepted s = [] -> closed s = false -> backlog s <> [] ->
  exists s', step EAccept s = Some s' /\ List.length (accepted s') = 1.
Proof.
  intros Ko R Ha Hc Hb. destruct (oneinv_reach s Ko R) as [O (I1 & _ & _)].
  assert (Bn : busy s = None) by (destruct O as [[_ B]|(c & A & _)]; [exact B|congruence]).
  pose proof (i_closed _ I1) as A. pose proof (i_lopen _ I1) as B. rewrite Hc in A.
  assert (Hact : active s = true) by (destruct (active s); [reflexivity|discriminate]).
  unfold Server.step. destruct (backlog s) as [|c rest]; [congruence|]. rewrite B, Hact, Bn. cbn.
  eexists. split; [reflexivity|]. unfold accept. rewrite Ko. cbn. rewrite Ha. reflexivity.
Qed.

(* ---- a worker's failure: what happens to ITS connection (the others: noninterference) ---- *)
Theorem own_worker_failure s c rest : kind K <> OneShot -> reach s ->
  stg (conns s c) = Own -> authd (conns s c) = true -> shut (conns s c) = false ->
  (next_input (inb (conns s c)) = NBad rest \/ next_input (inb (conns s c)) = NKill rest) ->
  exists s', step (EWork c) s = Some s'
    /\ stg (conns s' c) = Finished /\ hooks (conns s' c) = 1 /\ shut (conns s' c) = true /\ cclosed (conns s' c) = true
    /\ clients s' = rm c (clients s) /\ active s' = active s /\ (forall x, x <> c -> conns s' x = conns s x).
Proof.
  intros Nk R Hs Ha Hsh Hn. pose proof (inv_reach s R) as (_ & [H2 _] & _). specialize (H2 c).
  unfold conn_ok in H2. destruct H2 as (Hh & _).
  assert (E : step (EWork c) s = Some (finish_own K c (set_conn s c (close_conn (k_inb (conns s c) rest))))).
  { unfold Server.step, Server.work. rewrite Hs, Ha, Hsh. cbn [negb]. destruct Hn as [-> | ->]; reflexivity. }
  eexists. split; [exact E|]. rewrite finish_own_eq. destruct (kind K) eqn:Ek; try congruence; cbn; rewrite ?upd_same; cbn;
  rewrite close_conn_hooks, close_conn_cclosed; cbn; rewrite Ha; cbn; rewrite Hh;
  (destruct (cclosed (conns s c)); cbn; repeat split; try reflexivity; intros x Nx; now rewrite !upd_other by assumption).
Qed.

End P.


(* ---- thread pool: refutations (concrete witnesses) ---- *)
Definition partial_frame : list byte := [x00; x00; x00; x0a; x00].          (* header promises 10 bytes; nothing follows *)
Definition good_frame : list byte := [x00; x00; x00; x01; x00; x51; x0a].   (* a complete frame with a one-byte payload *)
Definition w_decomp (b : list byte) : option (list byte) := None.
Definition w_decode (b : list byte) : option req := if bytes_eqb b [x51] then Some QRoot else None.
Definition w_pool (f : facts) (au : bool) : cfg :=
  {| kind := Pool; fx := f; has_auth := au; class_svc := true; nworkers := 2; batch := 10; auth_replaces := false |}.
Definition starve_history : list event :=
  [EConnect 1 AuthOk; EConnect 2 AuthOk; EConnect 3 AuthOk; EAccept; EAccept; EAccept;
   ESend 1 partial_frame; ESend 2 partial_frame; ESend 3 good_frame;
   EPoll 1 false; ETake 0; EPoll 2 false; ETake 1; EPoll 3 false].

(* two workers, two clients that sent a truncated frame and stay connected, one well-behaved client with a complete request:
   both workers sit in Channel.recv, the good client's connection waits in the active queue, and NO thread of the server can
   take any step *)
Theorem pool_liveness_refuted f :
  match exec w_decomp w_decode (w_pool f false) starve_history (init (w_pool f false)) with
  | Some s => active s = true /\ Server.quiescent w_decomp w_decode (w_pool f false) s
              /\ stg (conns s 3) = Pooled /\ gone (conns s 3) = false /\ queue s = [3]
              /\ Server.next_input w_decomp w_decode (inb (conns s 3)) = NReq QRoot [] /\ out (conns s 3) = []
              /\ workers s = [Some (1, 10); Some (2, 10)]
              /\ Server.next_input w_decomp w_decode (inb (conns s 1)) = NBlock /\ gone (conns s 1) = false
              /\ Server.next_input w_decomp w_decode (inb (conns s 2)) = NBlock /\ gone (conns s 2) = false
  | None => False
  end.
Proof.
  destruct f as [f1 f2 f3 f4 f5 f6 f7].
  match goal with |- match ?x with _ => _ end => set (r := x) end.
  vm_compute in r. subst r. cbv beta iota.
  split; [reflexivity|]. split.
  - intros e He. destruct e; try discriminate He.
    + reflexivity.
    + destruct c as [|[|[|[|c]]]]; reflexivity.
    + destruct c as [|[|[|[|c]]]]; reflexivity.
    + destruct w as [|[|[|w]]]; reflexivity.
    + destruct w as [|[|[|w]]]; reflexivity.
  - repeat split.
Qed.

(* the thread pool authenticates inside the accept loop: one client that connects and never finishes authentication keeps
   every later client in the listener's queue; no thread of the server can take a step *)
Theorem pool_accept_blocked_refuted f :
  match exec w_decomp w_decode (w_pool f true) [EConnect 1 AuthStall; EAccept; EConnect 2 AuthOk] (init (w_pool f true)) with
  | Some s => active s = true /\ closed s = false /\ Server.quiescent w_decomp w_decode (w_pool f true) s
              /\ backlog s = [2] /\ busy s = Some 1 /\ gone (conns s 1) = false /\ stg (conns s 2) = Backlog
  | None => False
  end.
Proof.
  destruct f as [f1 f2 f3 f4 f5 f6 f7].
  match goal with |- match ?x with _ => _ end => set (r := x) end.
  vm_compute in r. subst r. cbv beta iota.
  split; [reflexivity|]. split; [reflexivity|]. split.
  - intros e He. destruct e; try discriminate He.
    + reflexivity.
    + destruct c as [|[|[|c]]]; reflexivity.
    + destruct c as [|[|[|c]]]; reflexivity.
    + destruct w as [|[|[|w]]]; reflexivity.
    + destruct w as [|[|[|w]]]; reflexivity.
  - repeat split.
Qed.


(* a client makes the server ask IT something (an unsolicited reply carrying a remote reference -> nested HANDLE_INSPECT) and
   answers with an exception record for SystemExit: on a tree whose _serve_requests does not catch BaseException the pool's
   worker thread ends.  nbThreads = 2, two such clients, one well-behaved client: both workers are dead, the good client's
   request waits in the queue and no thread of the running server can take a step *)
Definition kill_frame : list byte := [x00; x00; x00; x01; x00; x4b; x0a].
Definition k_decode (b : list byte) : option req := if bytes_eqb b [x51] then Some QRoot else if bytes_eqb b [x4b] then Some QKill else None.
Definition k_facts (caught : bool) : facts :=
  {| pool_close_drops := true; pool_fail_discards := true; fork_parent_keeps := false; pool_catches_base := caught;
     worker_tracks_served := true; accept_survives_oserror := true; accept_rechecks_closed := true;
     accept_survives_spawn_failure := true |}.
Definition kill_history : list event :=
  [EConnect 1 AuthOk; EConnect 2 AuthOk; EConnect 3 AuthOk; EAccept; EAccept; EAccept;
   ESend 1 kill_frame; EPoll 1 false; ETake 0; EServe 0; ESend 2 kill_frame; EPoll 2 false; ETake 1; EServe 1;
   ESend 3 good_frame; EPoll 3 false].
Theorem pool_worker_death_refuted :
  match exec w_decomp k_decode (w_pool (k_facts false) false) kill_history (init (w_pool (k_facts false) false)) with
  | Some s => active s = true /\ Server.quiescent w_decomp k_decode (w_pool (k_facts false) false) s
              /\ workers s = [Some (1, 0); Some (2, 0)] /\ queue s = [3] /\ gone (conns s 3) = false
              /\ Server.next_input w_decomp k_decode (inb (conns s 3)) = NReq QRoot [] /\ out (conns s 3) = []
  | None => False
  end.
Proof.
  match goal with |- match ?x with _ => _ end => set (r := x) end.
  vm_compute in r. subst r. cbv beta iota.
  split; [reflexivity|]. split.
  - intros e He. destruct e; try discriminate He.
    + reflexivity.
    + destruct c as [|[|[|[|c]]]]; reflexivity.
    + destruct c as [|[|[|[|c]]]]; reflexivity.
    + destruct w as [|[|[|w]]]; reflexivity.
    + destruct w as [|[|[|w]]]; reflexivity.
  - repeat split.
Qed.
(* the same history on a tree that catches it: the two connections are dropped, both workers live, the good client is served *)
Theorem pool_worker_survives_when_caught :
  match exec w_decomp k_decode (w_pool (k_facts true) false) (kill_history ++ [ETake 0; EServe 0]) (init (w_pool (k_facts true) false)) with
  | Some s => out (conns s 3) = [POid (3, 0)] /\ stg (conns s 1) = Finished /\ hooks (conns s 1) = 1 /\ stg (conns s 2) = Finished
              /\ fdmap s = [3] /\ workers s = [Some (3, 9); None]
  | None => False
  end.
Proof. vm_compute. repeat split. Qed.
