(* C13, "never strands a message", as a theorem about EVERY reachable state: no state is a trap.
   From any reachable state, for any thread that has issued a request and is inside wait()/serve(), there is a continuation - thread
   steps, timeouts of blocked threads, and the peer's answer if it has not been sent yet - after which that thread has left wait():
   Returned (its own reply was processed in time) or TimedOut (its own expiry had passed).  Whatever the other threads did before -
   whoever holds the receive lock, wherever the reply is (not sent, in the stream behind other frames, in another thread's hand,
   already dispatched) - the reply can still be read and dispatched and the waiter can still get out.  (Possibility, not fairness:
   the theorem exhibits a schedule; c13_completion_refuted_without_deadline shows a scheduler-independent guarantee is false.) *)
From V Require Import lib.Base model.Serve proofs.ServeP.
From Coq Require Import Arith Lia.

Fixpoint runl (s : st) (evs : list (label * nat)) : option st :=
  match evs with [] => Some s | (l, i) :: r => match step l i s with Some s' => runl s' r | None => None end end.

(* labels of a continuation: thread steps, timeouts, the peer's answer - never the clock passing an expiry *)
Definition quiet (l : label) : Prop := l = LStep \/ l = LTimeout \/ exists q, l = LAnswer q.

Definition finished (p : pc) : Prop := p = Returned \/ p = TimedOut.
Definition settled (s : st) (q : nat) : Prop := ready s q = true \/ expd s q = true.

(* thread-local facts kept by steps of any thread *)
Lemma step_myseq_kept' s l i s' w : (l = LStep \/ l = LTimeout \/ exists q, l = LAnswer q) -> step l i s = Some s' ->
  myseq (thrs s' w) = myseq (thrs s w).
Proof.
  intros Hl H. unfold step in H. cbv zeta in H.
  destruct Hl as [-> | [-> | [q0 ->]]];
  repeat match type of H with context [match ?x with _ => _ end] => destruct x eqn:?; try discriminate end;
  inversion H; subst; cbn [thrs with_thr]; try reflexivity;
  try (thread w i; try reflexivity; try congruence).
  all: try (unfold wake; destruct (tpc (thrs s w)); reflexivity).
Qed.

Definition inside (p : pc) : Prop := in_loop p = true \/ finished p.

Lemma step_inside_kept s l i s' w : (l = LStep \/ l = LTimeout \/ exists q, l = LAnswer q) -> step l i s = Some s' ->
  inside (tpc (thrs s w)) -> inside (tpc (thrs s' w)).
Proof.
  intros Hl H Hin. unfold step in H. cbv zeta in H. unfold inside, finished in *.
  destruct Hl as [-> | [-> | [q0 ->]]];
  repeat match type of H with context [match ?x with _ => _ end] => destruct x eqn:?; try discriminate end;
  inversion H; subst; cbn [thrs with_thr]; auto;
  try (thread w i; auto; try (left; reflexivity); try (right; left; reflexivity); try (right; right; reflexivity)).
  all: try (unfold wake; destruct (tpc (thrs s w)) eqn:Ew; cbn in *; auto).
  all: try (destruct (hand (thrs s w)); cbn; auto).
  all: try (destruct Hin as [X|[X|X]]; discriminate X).
  all: try (rewrite ?Ew; cbn; auto).
Qed.

Lemma step_settled_kept s l i s' q : step l i s = Some s' -> settled s q -> settled s' q.
Proof. intros H [Hr|He]; [left; eapply step_ready_mono; eauto|right; eapply step_expd_mono; eauto]. Qed.

(* ---- part 1: a settled waiter gets out alone (the rank argument of ServeL, with TimedOut as a second exit) ---- *)
Definition rank (p : pc) : nat :=
  match p with
  | Returned | TimedOut => 0 | LoopTest => 1 | Asleep => 2 | S5 => 2 | S4 => 3 | S3 => 4 | S2 => 5 | S1 => 6 | Idle => 7
  end.

Lemma settled_descends s w q : InvB s -> myseq (thrs s w) = Some q -> settled s q -> in_loop (tpc (thrs s w)) = true ->
  exists l s', (l = LStep \/ l = LTimeout) /\ step l w s = Some s' /\ rank (tpc (thrs s' w)) < rank (tpc (thrs s w)).
Proof.
  intros IB Hm Hs Hl. unfold step. cbv zeta.
  destruct (tpc (thrs s w)) eqn:E; try discriminate Hl.
  - (* LoopTest *) exists LStep. rewrite Hm. destruct (ready s q) eqn:Er.
    + eexists. split; [auto|]. split; [reflexivity|]. cbn [thrs with_thr]. rewrite upd_same. cbn. lia.
    + destruct Hs as [Hs|Hs]; [congruence|]. rewrite Hs. eexists. split; [auto|]. split; [reflexivity|]. cbn [thrs with_thr]. rewrite upd_same. cbn. lia.
  - (* S1 *) exists LStep. destruct (holder s); eexists; (split; [auto|]); (split; [reflexivity|]); cbn [thrs with_thr]; rewrite upd_same; cbn; lia.
  - (* Asleep *) exists LTimeout. eexists. split; [auto|]. split; [reflexivity|]. cbn [thrs with_thr]. rewrite upd_same. cbn. lia.
  - (* S2 *) destruct (inbox s) as [|h rest] eqn:Ei.
    + exists LTimeout. eexists. split; [auto|]. split; [reflexivity|]. cbn [thrs with_thr]. rewrite upd_same. cbn. lia.
    + exists LStep. eexists. split; [auto|]. split; [reflexivity|]. cbn [thrs with_thr]. rewrite upd_same. cbn. lia.
  - (* S3 *) exists LStep. eexists. split; [auto|]. split; [reflexivity|]. cbn [thrs with_thr]. rewrite upd_same. cbn. lia.
  - (* S4 *) exists LStep. eexists. split; [auto|]. split; [reflexivity|]. cbn [thrs with_thr]. rewrite upd_same. destruct (hand (thrs s w)); cbn; lia.
  - (* S5 *) pose proof (B_s5 s IB w E) as H5. destruct (hand (thrs s w)) as [h|]; [|congruence].
    exists LStep. eexists. split; [auto|]. split; [reflexivity|]. cbn [thrs with_thr]. rewrite upd_same. cbn. lia.
Qed.

Lemma settled_finishes : forall n s w q, InvA s -> InvB s -> myseq (thrs s w) = Some q -> settled s q ->
  inside (tpc (thrs s w)) -> rank (tpc (thrs s w)) <= n ->
  exists evs s', runl s evs = Some s' /\ finished (tpc (thrs s' w)) /\ (forall e, In e evs -> snd e = w /\ quiet (fst e)).
Proof.
  induction n as [|n IH]; intros s w q IA IB Hm Hs Hin Hk.
  - exists [], s. split; [reflexivity|]. split; [|intros e []].
    destruct Hin as [Hl|Hf]; [|exact Hf]. destruct (tpc (thrs s w)); cbn in Hk; try lia; try discriminate Hl.
  - destruct Hin as [Hl|Hf]; [|exists [], s; split; [reflexivity|split; [exact Hf|intros e []]]].
    destruct (settled_descends s w q IB Hm Hs Hl) as (l & s1 & Hlab & Hst & Hlt).
    assert (Hlab' : l = LStep \/ l = LTimeout \/ exists q0, l = LAnswer q0) by tauto.
    destruct (IH s1 w q (invA_step _ _ _ _ IA Hst) (invB_step _ _ _ _ IB Hst)) as (evs & s2 & Hr & Hfin & Hown).
    + rewrite (step_myseq_kept' s l w s1 w Hlab' Hst). exact Hm.
    + eapply step_settled_kept; eauto.
    + eapply step_inside_kept; eauto. left; exact Hl.
    + lia.
    + exists ((l, w) :: evs), s2. split; [cbn; rewrite Hst; exact Hr|]. split; [exact Hfin|].
      intros e [<-|He]; [split; [reflexivity|exact Hlab']|auto].
Qed.

(* ---- part 2: an unsettled request can always be brought one step nearer to being dispatched ---- *)
Definition rank_carry (p : pc) : nat := match p with S3 => 3 | S4 => 2 | S5 => 1 | _ => 0 end.
Definition rankw (p : pc) : nat := match p with S1 => 1 | LoopTest => 2 | Asleep => 3 | S5 => 3 | S4 => 4 | _ => 5 end.
Definition cpart (s : st) (w : nat) : nat :=
  match holder s with
  | Some h => match tpc (thrs s h) with S2 => 0 | _ => 9 end
  | None => rankw (tpc (thrs s w))
  end.
Definition M (s : st) (w q : nat) : nat :=
  match ph s q with
  | POut => 120 + 10 * length (inbox s)
  | PIn => 100 + 10 * length (inbox s) + cpart s w
  | PHand h => rank_carry (tpc (thrs s h))
  | PDone | PNone => 0
  end.

Lemma cpart_le s w : cpart s w <= 9.
Proof. unfold cpart. destruct (holder s) as [h|]; [destruct (tpc (thrs s h)); lia|destruct (tpc (thrs s w)); cbn; lia]. Qed.
Lemma rankw_le p : rankw p <= 5.
Proof. destruct p; cbn; lia. Qed.

Ltac simp_s := cbn [ph inbox holder thrs with_thr tpc set_pc].

Lemma nearer s w q : InvA s -> InvB s -> myseq (thrs s w) = Some q -> in_loop (tpc (thrs s w)) = true ->
  ready s q = false -> expd s q = false ->
  exists l i s', (l = LStep \/ l = LTimeout \/ exists q0, l = LAnswer q0) /\ step l i s = Some s' /\ (settled s' q \/ M s' w q < M s w q).
Proof.
  intros IA IB Hm Hl Hr He.
  assert (Hq : q < counter s) by (destruct (B_seq s IB) as [X _]; eauto).
  destruct (ph s q) as [| | |h|] eqn:Ep.
  - (* PNone: impossible, the number has been drawn *)
    exfalso. apply (proj2 (B_fresh s IB q)) in Ep. lia.
  - (* POut: the peer answers *)
    exists (LAnswer q), 0. unfold step. rewrite Ep. eexists. split; [eauto|]. split; [reflexivity|]. right.
    unfold M. cbn [ph inbox]. rewrite upd_same, Ep. rewrite app_length. cbn [length].
    match goal with |- _ + cpart ?S w < _ => pose proof (cpart_le S w) end. lia.
  - (* PIn: somebody has to read it *)
    assert (Hin : In q (inbox s)) by (apply (proj2 (B_inbox s IB)); exact Ep).
    destruct (holder s) as [h|] eqn:Eh.
    + assert (Hh : holds_lock (tpc (thrs s h)) = true) by (apply (A_hold s IA); exact Eh).
      destruct (tpc (thrs s h)) eqn:Eph; try discriminate Hh.
      * (* the holder is polling: it reads the oldest frame *)
        destruct (inbox s) as [|q0 rest] eqn:Ei; [destruct Hin|].
        exists LStep, h. unfold step. cbv zeta. rewrite Eph, Ei. eexists. split; [auto|]. split; [reflexivity|]. right.
        unfold M. cbn [ph inbox thrs]. rewrite Ep. unfold upd at 1. destruct (Nat.eqb q q0) eqn:Eq.
        -- rewrite upd_same. rewrite ?Ei. cbn. lia.
        -- rewrite Ep. cbn [length]. match goal with |- _ + cpart ?S w < _ => pose proof (cpart_le S w) end. rewrite ?Ei. cbn [length]. lia.
      * (* the holder is about to release *)
        exists LStep, h. unfold step. rewrite Eph. eexists. split; [auto|]. split; [reflexivity|]. right.
        unfold M, cpart. simp_s. rewrite Ep, Eh, Eph.
        match goal with |- context [rankw ?P] => pose proof (rankw_le P) end. lia.
    + (* the lock is free: the waiter itself goes for it *)
      assert (Hnl : holds_lock (tpc (thrs s w)) = false).
      { destruct (holds_lock (tpc (thrs s w))) eqn:X; [|reflexivity]. apply (A_hold s IA) in X. congruence. }
      destruct (tpc (thrs s w)) eqn:E; try discriminate Hl; try discriminate Hnl.
      * (* LoopTest *) exists LStep, w. unfold step. rewrite E, Hm, Hr, He. eexists. split; [auto|]. split; [reflexivity|]. right.
        unfold M, cpart. simp_s. rewrite Ep, Eh, upd_same. simp_s. rewrite E. cbn [rankw]. lia.
      * (* S1 *) exists LStep, w. unfold step. rewrite E, Eh. eexists. split; [auto|]. split; [reflexivity|]. right.
        unfold M, cpart. simp_s. rewrite Ep, Eh, upd_same. simp_s. rewrite E. cbn [rankw]. lia.
      * (* Asleep *) exists LTimeout, w. unfold step. rewrite E. eexists. split; [auto|]. split; [reflexivity|]. right.
        unfold M, cpart. simp_s. rewrite Ep, Eh, upd_same. simp_s. rewrite E. cbn [rankw]. lia.
      * (* S4 *) exists LStep, w. unfold step. cbv zeta. rewrite E. eexists. split; [auto|]. split; [reflexivity|]. right.
        unfold M, cpart. simp_s. rewrite Ep, Eh, upd_same. rewrite E.
        destruct (hand (thrs s w)); simp_s; cbn [rankw]; lia.
      * (* S5: dispatches the frame it carries, which is not q *)
        pose proof (B_s5 s IB w E) as H5. destruct (hand (thrs s w)) as [q1|] eqn:Ehd; [|congruence].
        destruct (B_hand1 s IB w q1 Ehd) as [Hp1 _].
        assert (Hne : q <> q1) by (intros ->; congruence).
        exists LStep, w. unfold step. rewrite E, Ehd. eexists. split; [auto|]. split; [reflexivity|]. right.
        unfold M, cpart. simp_s. rewrite (upd_other (ph s) q1 q PDone Hne). rewrite Ep, Eh, upd_same. simp_s. rewrite E. cbn [rankw]. lia.
  - (* PHand h: the thread that carries it goes on *)
    pose proof (B_hand2 s IB q h Ep) as Hh. destruct (B_hand1 s IB h q Hh) as [_ Hc].
    destruct (tpc (thrs s h)) eqn:Eph; try discriminate Hc.
    + (* S3 *) exists LStep, h. unfold step. rewrite Eph. eexists. split; [auto|]. split; [reflexivity|]. right.
      unfold M. simp_s. rewrite Ep, upd_same. simp_s. rewrite Eph. cbn [rank_carry]. lia.
    + (* S4 *) exists LStep, h. unfold step. cbv zeta. rewrite Eph. eexists. split; [auto|]. split; [reflexivity|]. right.
      unfold M. simp_s. rewrite Ep, upd_same, Hh. simp_s. rewrite Eph. cbn [rank_carry]. lia.
    + (* S5: the dispatch; the callback is still registered, the expiry has not passed: the cell becomes ready *)
      exists LStep, h. unfold step. rewrite Eph, Hh. eexists. split; [auto|]. split; [reflexivity|]. left. left.
      cbn [ready]. destruct (pending s q) as [t|] eqn:Epd.
      * rewrite He. apply upd_same.
      * exfalso. apply (proj1 (B_pend s IB q)) in Epd. destruct Epd; congruence.
  - (* PDone: then it is settled already *)
    exfalso. destruct (late s q) eqn:El.
    + destruct (B_late s IB q El) as [_ X]. congruence.
    + assert (ready s q = true) by (apply (B_ready s IB); auto). congruence.
Qed.

Lemma runl_app s evs1 s1 evs2 : runl s evs1 = Some s1 -> runl s (evs1 ++ evs2) = runl s1 evs2.
Proof.
  revert s. induction evs1 as [|[l i] r IH]; intros s H; cbn in *; [now inversion H|].
  destruct (step l i s); [auto|discriminate].
Qed.

Theorem can_always_finish : forall n s w q, InvA s -> InvB s -> myseq (thrs s w) = Some q -> inside (tpc (thrs s w)) ->
  M s w q < n -> exists evs s', runl s evs = Some s' /\ finished (tpc (thrs s' w)) /\ (forall e, In e evs -> quiet (fst e)).
Proof.
  induction n as [|n IH]; intros s w q IA IB Hm Hin HM; [lia|].
  destruct Hin as [Hl|Hf]; [|exists [], s; split; [reflexivity|split; [exact Hf|intros e []]]].
  destruct (ready s q) eqn:Er.
  { destruct (settled_finishes _ s w q IA IB Hm (or_introl Er) (or_introl Hl) (le_n _)) as (evs & s' & H1 & H2 & H3).
    exists evs, s'. split; [exact H1|]. split; [exact H2|]. intros e He. exact (proj2 (H3 e He)). }
  destruct (expd s q) eqn:Ee.
  { destruct (settled_finishes _ s w q IA IB Hm (or_intror Ee) (or_introl Hl) (le_n _)) as (evs & s' & H1 & H2 & H3).
    exists evs, s'. split; [exact H1|]. split; [exact H2|]. intros e He. exact (proj2 (H3 e He)). }
  destruct (nearer s w q IA IB Hm Hl Er Ee) as (l & i & s1 & Hlab & Hst & Hprog).
  pose proof (invA_step _ _ _ _ IA Hst) as IA1. pose proof (invB_step _ _ _ _ IB Hst) as IB1.
  assert (Hm1 : myseq (thrs s1 w) = Some q) by (rewrite (step_myseq_kept' s l i s1 w Hlab Hst); exact Hm).
  assert (Hin1 : inside (tpc (thrs s1 w))) by (eapply step_inside_kept; eauto; left; exact Hl).
  destruct Hprog as [Hs|Hlt].
  - destruct (settled_finishes _ s1 w q IA1 IB1 Hm1 Hs Hin1 (le_n _)) as (evs & s' & H1 & H2 & H3).
    exists ((l, i) :: evs), s'. split; [cbn; rewrite Hst; exact H1|]. split; [exact H2|].
    intros e [<-|He]; [exact Hlab|exact (proj2 (H3 e He))].
  - destruct (IH s1 w q IA1 IB1 Hm1 Hin1 ltac:(lia)) as (evs & s' & H1 & H2 & H3).
    exists ((l, i) :: evs), s'. split; [cbn; rewrite Hst; exact H1|]. split; [exact H2|].
    intros e [<-|He]; [exact Hlab|exact (H3 e He)].
Qed.

(* a quiet continuation does not move the clock past any expiry *)
Lemma quiet_step_expd s l i s' : quiet l -> step l i s = Some s' -> expd s' = expd s.
Proof.
  intros Hl H. unfold step in H. cbv zeta in H.
  destruct Hl as [-> | [-> | [q0 ->]]];
  repeat match type of H with context [match ?x with _ => _ end] => destruct x eqn:?; try discriminate end;
  inversion H; subst; reflexivity.
Qed.
Lemma quiet_run_expd : forall evs s s', (forall e, In e evs -> quiet (fst e)) -> runl s evs = Some s' -> expd s' = expd s.
Proof.
  induction evs as [|[l i] r IH]; intros s s' Hq H; cbn in H; [now inversion H|].
  destruct (step l i s) as [s1|] eqn:E; [|discriminate].
  rewrite (IH s1 s'); [|intros e He; apply Hq; right; exact He|exact H].
  apply (quiet_step_expd s l i s1); [apply (Hq (l, i)); left; reflexivity|exact E].
Qed.
Lemma runl_inv : forall evs s s', InvA s -> InvB s -> InvD s -> runl s evs = Some s' -> InvA s' /\ InvB s' /\ InvD s'.
Proof.
  induction evs as [|[l i] r IH]; intros s s' IA IB ID H; cbn in H; [inversion H; subst; auto|].
  destruct (step l i s) as [s1|] eqn:E; [|discriminate].
  apply (IH s1 s'); eauto using invA_step, invB_step, invD_step.
Qed.
Lemma quiet_run_myseq : forall evs s s' w, (forall e, In e evs -> quiet (fst e)) -> runl s evs = Some s' ->
  myseq (thrs s' w) = myseq (thrs s w).
Proof.
  induction evs as [|[l i] r IH]; intros s s' w Hq H; cbn in H; [now inversion H|].
  destruct (step l i s) as [s1|] eqn:E; [|discriminate].
  rewrite (IH s1 s' w); [|intros e He; apply Hq; right; exact He|exact H].
  apply (step_myseq_kept' s l i s1 w); [apply (Hq (l, i)); left; reflexivity|exact E].
Qed.

(* the statement used by props/C13.v *)
Theorem no_trap s w q : InvA s -> InvB s -> InvD s -> myseq (thrs s w) = Some q -> in_loop (tpc (thrs s w)) = true ->
  exists evs s', runl s evs = Some s' /\ (forall e, In e evs -> quiet (fst e))
    /\ (tpc (thrs s' w) = Returned \/ (tpc (thrs s' w) = TimedOut /\ expd s q = true)).
Proof.
  intros IA IB ID Hm Hl.
  destruct (can_always_finish (S (M s w q)) s w q IA IB Hm (or_introl Hl) (Nat.lt_succ_diag_r _)) as (evs & s' & Hr & Hf & Hq).
  exists evs, s'. split; [exact Hr|]. split; [exact Hq|].
  destruct Hf as [Hf|Hf]; [left; exact Hf|right; split; [exact Hf|]].
  destruct (runl_inv evs s s' IA IB ID Hr) as (_ & _ & ID').
  destruct (ID' w Hf) as (q' & Hm' & He' & _).
  rewrite (quiet_run_myseq evs s s' w Hq Hr), Hm in Hm'. inversion Hm'; subst q'.
  rewrite (quiet_run_expd evs s s' Hq Hr) in He'. exact He'.
Qed.

Lemma runl_reach s0 : forall evs s1 s, reach s0 s1 -> runl s1 evs = Some s -> reach s0 s.
Proof.
  induction evs as [|[lb i] r IH]; intros s1 s R H; cbn in H.
  - injection H as <-. exact R.
  - destruct (step lb i s1) as [s2|] eqn:E; [|discriminate]. apply (IH s2 s); [econstructor; eauto|exact H].
Qed.
