"""C20 — uploading and downloading files reproduces them byte for byte.

Real rpyc.utils.classic.upload*/download* over a real classic connection pair (rpyc.classic.connect_thread, both
ends in this process, two disjoint temp directories play "local" and "remote"), compared
  * with the property's own statement evaluated in Python (oracle: the destination is the filtered source,
    byte for byte, under the same relative names; everything else at the destination and the whole source untouched),
  * with the extracted Coq model model/Files.v (correspondence: resulting trees on both sides, raised exception class,
    and -- for single files -- the exact sequence of read results and write sizes seen by the file objects)."""
import builtins, hashlib, importlib.util, os, random, re, shutil, signal, subprocess, sys, tempfile, threading, traceback
from harness import common as C

META = {
    "level": "proof",
    "level_text": "Theorems for all file contents, all chunk sizes >= 1, all directory trees with unique names per directory (any depth/fan-out, "
                  "empty directories, special entries), all filters and all pre-existing destinations (props/C20.v): the chunk loop is the identity with "
                  "ceil(len/chunk) writes; copying into nothing yields exactly the pruned tree; copying into existing content overlays it and touches nothing else; "
                  "prune removes exactly the rejected names; upload and download are one function up to the side swap; the loop guard equals the caller's filter for every "
                  "filter that is true in a boolean context (for all filters once the code tests `filter is None`; refuted for falsy filter objects while it tests "
                  "`not filter`); the omitted chunk_size (regenerated STREAM_CHUNK) is in the domain; upload_package with an explicit remotepath is upload without a filter. "
                  "The loop statements, open modes, the filter guard and the side "
                  "of every filesystem call are regenerated from classic.py on every run and tied by computation; the extracted model is compared with the real "
                  "functions over real connection pairs (peer on a thread: the side of every filesystem call is observed by thread identity and compared with the model's skeleton; "
                  "peer in another process with another working directory and relative paths: a call on the wrong side lands in the wrong tree and fails the byte-wise oracle). Proof is the right level: the property quantifies over all trees, contents, chunk sizes and filters.",
    "level_note": "Trusted: Coq kernel, pygen, extraction + driver, harness. The OS file API (read returns up to n bytes and b'' only at EOF, 'wb' truncates, "
                  "listdir names are unique, makedirs/isdir/isfile) is modelled structurally and validated differentially; remote file objects are reached "
                  "through proxies (C02); permissions, symlinks to existing targets, concurrent modification and chunk_size <= 0 are outside; so is upload_package's "
                  "remotepath=None branch (it writes into the peer's site-packages; its text is only snapshotted). Both rigs share one machine and one OS: os.path.join "
                  "running on the right side is observed (thread rig) but a separator difference between two operating systems is not exercised. "
                  "Non-termination is judged without a clock where possible (an instrumented file that sees more than 64 consecutive empty reads/writes ends the loop and "
                  "reports it); the only wall-clock bound is a 180 s backstop per call that returns early and reports a hang only when the stack at expiry is inside classic.py.",
    "technique": "Coq proof (interpreted chunk loop, nested induction over trees); regenerated skeletons tied by reflexivity; differential correspondence of the extracted model "
                 "against real upload/download over a live classic connection",
    "gen": ["consts", "classic"],
    "shapes": ["classic.*"],
    "models": ["files"],
    "model_files": ["Files"],
    "assumptions": [
        "OS/CPython file API: BufferedReader.read(n) returns min(n, remaining) bytes, open(..., 'wb') truncates, os.listdir returns each name once "
        "(validated differentially on every run, not proved)",
        "excluded by the property text: chunk_size <= 0; outside the model: permissions, symlinks to live targets, special files as destination, concurrent writers",
    ],
}

import rpyc
from rpyc.utils import classic

CHUNKS = [1, 2, 3, 7, 64, 4096, 64000]
NAMES = ["a", "b", "c", "d", "f.txt", "x.pyc", "y.pyc", ".hidden", "d d", " sp", "ünï", "data.bin", "__pycache__", "A", "a.b.c",
         "z" * 100, "-", "~", "a.pyc.txt", "pyc", "中"]
CASE_TIMEOUT = 180      # wall-clock backstop for one whole upload/download (returns early; never reached by a working tree)
MAX_HANGS = 2           # after that many backstop expiries the rest of the run is skipped (each is already reported)
LIVELOCK_N = 64         # a copy loop that performs this many consecutive empty reads/writes on one file will never end


# ------------------------------------------------------------------ case description (JSON-able)
# node  := ["f", seed, size, pattern] | ["d", [[name, node], ...]] | ["s", "fifo"|"link"]
# pred  := ["reject", [names]] | ["only", [names]] | ["suffix", s] | ["maxlen", n]
# filter:= ["none"]  (filter=None)  |  pred  (a plain function)  |  ["obj", truthy, pred]  (a callable object with a truth value)

def file_bytes(nd):
    _, seed, size, pat = nd
    if pat == 0:
        return random.Random(seed).randbytes(size)
    if pat == 1:
        return bytes(size)
    if pat == 2:
        return (b"line\r\nnext\n\x1a\r" * (size // 13 + 1))[:size]
    if pat == 4:
        return (b"# generated package\n#\n" * (size // 22 + 1))[:size]      # valid Python source at every length
    return bytes((seed + i) & 0xff for i in range(size))


def enc(name):
    return name.encode("utf-8")


class Pred:
    """a callable filter object with an explicit truth value (think: a callable collection of accepted names, empty = falsy)"""

    def __init__(self, fn, truth):
        self.fn, self.truth = fn, truth

    def __call__(self, name):
        return self.fn(name)

    def __bool__(self):
        return self.truth


def py_filter(flt):
    k = flt[0]
    if k == "none":
        return None
    if k == "obj":
        return Pred(py_filter(flt[2]), bool(flt[1]))
    if k == "reject":
        s = set(flt[1])
        return lambda n: n not in s
    if k == "only":
        s = set(flt[1])
        return lambda n: n in s
    if k == "suffix":
        suf = enc(flt[1])
        return lambda n: not enc(n).endswith(suf)
    if k == "maxlen":
        return lambda n: len(enc(n)) <= flt[1]
    raise ValueError(flt)


def accepts(flt, name):
    """what the caller asked for: None accepts everything, anything else accepts what it returns true for"""
    f = py_filter(flt)
    return True if f is None else bool(f(name))


def is_falsy_object(flt):
    return flt[0] == "obj" and not flt[1]


def sx_filter(flt):
    """() = None, (truthy pred) = callable"""
    if flt[0] == "none":
        return []
    if flt[0] == "obj":
        return [1 if flt[1] else 0, sx_pred(flt[2])]
    return [1, sx_pred(flt)]


def sx_pred(flt):
    k = flt[0]
    if k == "reject":
        return [1, [enc(n) for n in flt[1]]]
    if k == "only":
        return [2, [enc(n) for n in flt[1]]]
    if k == "suffix":
        return [3, enc(flt[1])]
    return [4, flt[1]]


# ------------------------------------------------------------------ on-disk trees <-> canonical values
# canonical: None | ("f", bytes) | ("d", {name: canonical}) | ("s",)

def build(path, nd):
    if nd[0] == "f":
        with open(path, "wb") as f:
            f.write(file_bytes(nd))
    elif nd[0] == "d":
        os.mkdir(path)
        for name, c in nd[1]:
            build(os.path.join(path, name), c)
    elif nd[1] == "fifo":
        os.mkfifo(path)
    else:
        os.symlink(os.path.join(path, "does", "not", "exist"), path)


def canon_of_case(nd):
    if nd is None:
        return None
    if nd[0] == "f":
        return ("f", file_bytes(nd))
    if nd[0] == "d":
        return ("d", {name: canon_of_case(c) for name, c in nd[1]})
    return ("s",)


def snap(path):
    try:
        st = os.lstat(path)
    except FileNotFoundError:
        return None
    import stat
    if stat.S_ISREG(st.st_mode):
        with open(path, "rb") as f:
            return ("f", f.read())
    if stat.S_ISDIR(st.st_mode):
        return ("d", {n: snap(os.path.join(path, n)) for n in os.listdir(path)})
    return ("s",)


def sx_of_canon(c, order=None):
    """option node for the model"""
    if c is None:
        return []
    return [_sx_node(c)]


def _sx_node(c):
    if c[0] == "f":
        return [0, c[1]]
    if c[0] == "d":
        return [1, [[enc(n), _sx_node(v)] for n, v in c[1].items()]]
    return [2]


def canon_of_sx(o):
    if not o:
        return None
    return _canon_node(o[0])


def _canon_node(x):
    if x[0] == 0:
        return ("f", x[1])
    if x[0] == 1:
        return ("d", {k.decode("utf-8"): _canon_node(v) for k, v in x[1]})
    return ("s",)


def digest(c):
    h = hashlib.sha1()

    def go(c):
        if c is None:
            h.update(b"N")
        elif c[0] == "f":
            h.update(b"F" + hashlib.sha1(c[1]).digest())
        elif c[0] == "d":
            h.update(b"D(")
            for n in sorted(c[1]):
                h.update(enc(n) + b"\0")
                go(c[1][n])
            h.update(b")")
        else:
            h.update(b"S")
    go(c)
    return h.hexdigest()[:16]


def count_entries(c):
    if c is None or c[0] != "d":
        return 0
    return sum(1 + count_entries(v) for v in c[1].values())


def brief(c, depth=0):
    if c is None:
        return None
    if c[0] == "f":
        return "file[%d]" % len(c[1])
    if c[0] == "s":
        return "special"
    if depth > 2:
        return "dir{%d}" % len(c[1])
    return {n: brief(v, depth + 1) for n, v in sorted(c[1].items())}


# ------------------------------------------------------------------ the property's statement, in Python (oracle)
class Conflict(Exception):
    pass


def expected_dst(src, dst, flt, top=True):
    """what must be at the destination path afterwards; Conflict when a file meets a directory or the reverse
    (the property does not say what happens then)"""
    if src is None or src[0] == "s":
        return dst
    if src[0] == "f":
        if dst is not None and dst[0] != "f":
            raise Conflict()
        return ("f", src[1])
    if dst is not None and dst[0] != "d":
        raise Conflict()
    out = dict(dst[1]) if dst is not None else {}
    for n, c in src[1].items():
        if accepts(flt, n):
            r = expected_dst(c, out.get(n), flt, False)
            if r is not None:
                out[n] = r
    return ("d", out)


def unfiltered_dst(src, dst):
    try:
        return expected_dst(src, dst, ["none"])
    except Conflict:
        return ("conflict",)


def first_difference(exp, got, path=""):
    """(signature-kind, path) of the first difference between two canonical trees, or None"""
    if exp == got:
        return None
    if exp is None:
        return ("extra-entry", path)
    if got is None:
        return ("missing-entry", path)
    if exp[0] != got[0]:
        return ("kind-mismatch", path)
    if exp[0] == "f":
        return ("content-mismatch", path)
    if exp[0] == "d":
        for n in sorted(set(exp[1]) | set(got[1])):
            d = first_difference(exp[1].get(n), got[1].get(n), path + "/" + n)
            if d:
                return d
    return ("kind-mismatch", path)


# ------------------------------------------------------------------ generators
def gen_size(r, chunk, big_ok):
    c = r.random()
    if chunk >= 4096 and not big_ok:
        return r.choice([0, 1, 2, 5, 17])
    if c < 0.75:
        k = r.choice([0, 1, 1, 2, 2, 3])
        return max(0, k * chunk + r.choice([-1, 0, 0, 1]))
    if c < 0.85:
        return r.choice([0, 1])
    return r.randint(0, 3 * chunk + 2) if chunk < 4096 else r.randint(0, chunk + 100)


def gen_file(r, chunk, big_ok=True):
    return ["f", r.getrandbits(32), gen_size(r, chunk, big_ok), r.choice([0, 0, 0, 1, 2, 3])]


def gen_tree(r, chunk, depth, budget, specials=True):
    """a directory node; budget = [remaining big files]"""
    n = r.choice([0, 1, 2, 2, 3, 3, 4, 5])
    names = r.sample(NAMES, n)
    out = []
    for nm in names:
        c = r.random()
        if c < 0.30 and depth > 0:
            out.append([nm, gen_tree(r, chunk, depth - 1, budget, specials)])
        elif c < 0.36 and specials:
            out.append([nm, ["s", r.choice(["fifo", "link"])]])
        elif c < 0.42:
            out.append([nm, ["d", []]])
        else:
            big = budget[0] > 0
            f = gen_file(r, chunk, big)
            if chunk >= 4096 and f[2] >= chunk - 1:
                budget[0] -= 1
            out.append([nm, f])
    return ["d", out]


def names_in(nd, acc):
    if nd and nd[0] == "d":
        for n, c in nd[1]:
            acc.append(n)
            names_in(c, acc)
    return acc


def gen_filter(r, src):
    f = gen_pred(r, src)
    if f[0] != "none" and r.random() < 0.12:
        return ["obj", r.random() < 0.4, f]       # a callable object; 60% of them false in a boolean context
    return f


def gen_pred(r, src):
    present = names_in(src, []) or ["a"]
    c = r.random()
    if c < 0.25:
        return ["none"]
    if c < 0.50:
        return ["reject", sorted(set(r.sample(present, min(len(present), r.choice([1, 1, 2, 3]))) + r.sample(NAMES, 1)))]
    if c < 0.65:
        return ["suffix", r.choice([".pyc", ".pyc", "c", ".txt", "", "a"])]
    if c < 0.80:
        keep = sorted(set(r.sample(present, max(1, len(present) * 2 // 3))))
        return ["only", keep]
    if c < 0.90:
        return ["maxlen", r.choice([0, 1, 3, 5, 50])]
    return ["only", []] if r.random() < 0.5 else ["reject", sorted(set(present))]


def gen_existing(r, src, chunk, allow_conflict):
    """a destination that overlaps the source: some same names (file over file, dir over dir), some others"""
    if src[0] == "f":
        return gen_file(r, chunk, False)
    out = []
    for n, c in src[1]:
        k = r.random()
        if k < 0.45:
            continue
        if c[0] == "d":
            if allow_conflict and k > 0.97:
                out.append([n, gen_file(r, chunk, False)])
            else:
                out.append([n, gen_existing(r, c, chunk, allow_conflict)])
        elif c[0] == "f":
            if allow_conflict and k > 0.97:
                out.append([n, ["d", []]])
            else:
                out.append([n, gen_file(r, chunk, False)])
        else:
            out.append([n, gen_file(r, chunk, False) if k < 0.8 else ["d", []]])
    have = {n for n, _ in out} | {n for n, _ in src[1]}
    for n in r.sample(NAMES, r.choice([0, 1, 2])):
        if n not in have:
            out.append([n, gen_file(r, chunk, False) if r.random() < 0.6 else ["d", [["kept", gen_file(r, chunk, False)]]]])
    r.shuffle(out)
    return ["d", out]


def gen_case(r, i):
    chunk = r.choice(CHUNKS) if r.random() < 0.8 else r.randint(1, 300)
    if i % 9 == 0:
        chunk = r.choice([4096, 64000])
    omit = i % 12 == 5                                          # chunk_size not passed: the default of the signature is used
    if omit:
        chunk = DEFAULT_CHUNK
    c = r.random()
    case = {"kind": "tree", "dir": r.choice(["upload", "download"]), "chunk": chunk, "ign": r.random() < 0.15, "dst": None}
    if c < 0.06:
        case["src"] = gen_file(r, chunk)                       # a single file as the top
    elif c < 0.09:
        case["src"] = r.choice([None, ["s", "fifo"], ["s", "link"]])    # malformed top: nothing / neither file nor directory
    else:
        case["src"] = gen_tree(r, chunk, r.choice([0, 1, 2, 3, 4]), [2])
    case["filter"] = gen_filter(r, case["src"])
    if omit:
        case["chunk"] = None
    e = r.random()
    if case["src"] is not None and case["src"][0] != "s" and e < 0.35:
        case["dst"] = gen_existing(r, case["src"], chunk, allow_conflict=(e < 0.08 and not is_falsy_object(case["filter"])))
    elif e > 0.97:
        case["dst"] = ["d", []]
    if r.random() < 0.02:
        case["chunk"] = 0                                       # outside the property; correspondence only
    case["rig"] = "process" if i % 5 == 2 else "thread"
    if i % 6 == 1:
        case["again"] = True                                    # transfer the same source twice within the run
    return case


def gen_file_case(r, i):
    chunk = CHUNKS[i % len(CHUNKS)] if i % 3 else r.randint(1, 1000)
    omit = i % 10 == 4
    if omit:
        chunk = DEFAULT_CHUNK
    sizes = [0, 1, chunk - 1, chunk, chunk + 1, 2 * chunk - 1, 2 * chunk, 2 * chunk + 1, 3 * chunk, r.randint(0, 4 * chunk)]
    if chunk >= 4096:
        sizes = [0, 1, chunk - 1, chunk, chunk + 1, 2 * chunk, 2 * chunk + 1, r.randint(0, 2 * chunk)]
    size = sizes[(i // len(CHUNKS)) % len(sizes)] if r.random() < 0.85 else r.choice(sizes)
    return {"kind": "file", "dir": r.choice(["upload", "download"]), "chunk": None if omit else chunk, "rig": "process" if i % 5 == 2 else "thread",
            "src": ["f", r.getrandbits(32), max(0, size), r.choice([0, 0, 1, 2, 3])],
            "dst": r.choice([None, None, ["f", r.getrandbits(32), r.choice([0, 1, size + 5, 3 * chunk + 1]), 3]])}


# ------------------------------------------------------------------ running the implementation
class Hang(BaseException):
    """the backstop expired; carries the main thread's stack at that moment"""

    def __init__(self, stack=()):
        self.stack = stack


class Livelock(RuntimeError):
    """raised by an instrumented file object: the loop using it keeps reading/writing nothing (a logical criterion, no clock)"""


def _alarm(signum=None, frame=None):
    raise Hang(traceback.extract_stack(frame) if frame is not None else ())


def confirmed_in_classic(stack):
    """the frames of rpyc/utils/classic.py the main thread was in when the backstop expired (innermost last)"""
    if isinstance(stack, str):      # the Hang was caught by rpyc while a request was being served and came back by value
        return ["classic.py:%s %s" % (ln, fn) for ln, fn in re.findall(r"rpyc/utils/classic\.py, line (\d+) in (\w+)", stack)]
    return ["%s:%d %s" % (os.path.basename(f.filename), f.lineno, f.name) for f in stack
            if f.filename.replace(os.sep, "/").endswith("rpyc/utils/classic.py")]


class Rig:
    """one classic connection pair in this process (rpyc.classic.connect_thread) + a scratch directory.
    The peer's calls run on the server thread, the local ones on the main thread: that is how the side of every
    filesystem call is observed here (Tracer)."""
    kind = "thread"
    total_hangs = 0

    def __init__(self):
        self.root = tempfile.mkdtemp(prefix="c20-")
        self.conn = None
        self.n = 0
        self.hangs = 0
        self.connect()

    def connect(self):
        if self.conn is not None:
            try:
                self.conn.close()
            except Exception:
                pass
        self.conn = rpyc.classic.connect_thread()

    def close(self):
        try:
            self.conn.close()
        except Exception:
            pass
        shutil.rmtree(self.root, ignore_errors=True)

    def fresh(self):
        """scratch space of one case: absolute directories of the two sides and the prefixes to hand to rpyc"""
        self.n += 1
        d = os.path.join(self.root, "k%d" % self.n)
        os.makedirs(os.path.join(d, "L"))
        os.makedirs(os.path.join(d, "R"))
        return {"rm": [d], "labs": os.path.join(d, "L"), "rabs": os.path.join(d, "R"),
                "larg": os.path.join(d, "L"), "rarg": os.path.join(d, "R")}

    def enter(self):
        pass

    def leave(self):
        pass

    def guarded(self, fn):
        """(outcome, exception-name) with a watchdog"""
        if Rig.total_hangs >= MAX_HANGS:     # already reported; do not spend the budget on more of the same
            return ("skipped", None)
        old = signal.signal(signal.SIGALRM, _alarm)
        signal.setitimer(signal.ITIMER_REAL, CASE_TIMEOUT, 0.5)     # re-fires in case library code swallows the first one
        self.enter()
        try:
            fn()
            return ("ok", None)
        except Hang as h:
            signal.setitimer(signal.ITIMER_REAL, 0)
            self.hangs += 1
            Rig.total_hangs += 1
            self.leave()
            self.connect()
            where = confirmed_in_classic(h.stack)
            if where:           # confirmed: after CASE_TIMEOUT s the main thread is still inside upload*/download*
                return ("hang", "no return after %d s; stack: %s" % (CASE_TIMEOUT, " > ".join(where[-4:])))
            return ("harness-timeout", "no return after %d s outside classic.py: %s" % (CASE_TIMEOUT, str(h.stack)[-400:]))
        except OSError as e:
            return ("exc", "OSError")
        except Exception as e:
            if "Livelock" in type(e).__name__:      # raised locally, or at the peer and re-raised here by rpyc
                return ("hang", "livelock: more than %d consecutive empty reads/writes on one file" % LIVELOCK_N)
            return ("exc", C.exc_enum(e))
        finally:
            signal.setitimer(signal.ITIMER_REAL, 0)
            signal.signal(signal.SIGALRM, old)
            self.leave()


_SERVER = r"""
import sys
sys.dont_write_bytecode = True
sys.path.insert(0, sys.argv[1])
from rpyc.utils.server import OneShotServer
from rpyc.utils.classic import SlaveService
s = OneShotServer(SlaveService, hostname="127.0.0.1", port=0)
print(s.port, flush=True)
s.start()
"""


class ProcRig(Rig):
    """the peer is another process whose working directory is <root>/R; this process works in <root>/L while a call runs;
    all paths handed to rpyc are RELATIVE.  A filesystem call made on the wrong side therefore hits the other directory
    tree and the byte-wise oracle sees it (a file uploaded 'to the peer' that lands on the local side is missing there)."""
    kind = "process"

    def __init__(self):
        self.proc = None
        self.cwd0 = None
        super().__init__()

    def connect(self):
        self.stop()
        os.makedirs(os.path.join(self.root, "L"), exist_ok=True)
        os.makedirs(os.path.join(self.root, "R"), exist_ok=True)
        self.proc = subprocess.Popen([sys.executable, "-c", _SERVER, C.REPO], cwd=os.path.join(self.root, "R"),
                                     stdout=subprocess.PIPE, stderr=subprocess.DEVNULL, stdin=subprocess.DEVNULL)
        port = int(self.proc.stdout.readline())
        self.conn = rpyc.classic.connect("127.0.0.1", port)

    def stop(self):
        if self.conn is not None:
            try:
                self.conn.close()
            except Exception:
                pass
            self.conn = None
        if self.proc is not None:
            try:
                self.proc.kill()
                self.proc.wait(10)
            except Exception:
                pass
            self.proc = None

    def close(self):
        self.leave()
        self.stop()
        shutil.rmtree(self.root, ignore_errors=True)

    def fresh(self):
        self.n += 1
        k = "k%d" % self.n
        l, rm = os.path.join(self.root, "L", k), os.path.join(self.root, "R", k)
        os.makedirs(l)
        os.makedirs(rm)
        return {"rm": [l, rm], "labs": l, "rabs": rm, "larg": k, "rarg": k}

    def enter(self):
        if self.cwd0 is None:
            self.cwd0 = os.getcwd()
            os.chdir(os.path.join(self.root, "L"))

    def leave(self):
        if self.cwd0 is not None:
            os.chdir(self.cwd0)
            self.cwd0 = None


class RecFile:
    def __init__(self, f, tag, log):
        self.f, self.tag, self.log = f, tag, log
        self.empties = 0

    def _progress(self, n):
        self.empties = 0 if n else self.empties + 1
        if self.empties > LIVELOCK_N:
            raise Livelock("%d consecutive empty reads/writes" % self.empties)

    def read(self, n=-1):
        b = self.f.read(n)
        self.log.append(("r", self.tag, n, len(b)))
        self._progress(len(b))
        return b

    def write(self, b):
        self.log.append(("w", self.tag, len(b)))
        self._progress(len(b))
        return self.f.write(b)

    def close(self):
        self.f.close()

    def __enter__(self):
        return self

    def __exit__(self, *a):
        self.f.close()


MAIN_THREAD = threading.main_thread()


class Tracer:
    """while active: every open/listdir/makedirs/isdir/isfile/join made IN THIS PROCESS on a path of the case is recorded
    with the thread it ran on (main = local side, anything else = the peer of the thread rig) and files are wrapped to log
    read/write calls and to notice a loop that no longer makes progress.  In the process rig only the local side is seen."""

    def __init__(self, sp, dp):
        self.sp, self.dp = sp, dp
        self.ops = []       # (tag, side it ran on)
        self.log = []       # RecFile events
        self.saved = []

    def _tag(self, op, p):
        src = p == self.sp or p.startswith(self.sp + os.sep)
        if op == "open":
            return "open_src" if src else "open_dst"
        if op == "join":
            return "join_src" if src else "join_dst"
        if op == "isfile":
            return "probe" if src else "isfile_dst"
        if op == "isdir":
            return "probe" if src else "mk"
        if op == "listdir":
            return "list" if src else "listdir_dst"
        return "mk" if not src else "makedirs_src"

    def _mine(self, p):
        return type(p) is str and (p == self.sp or p == self.dp or p.startswith(self.sp + os.sep) or p.startswith(self.dp + os.sep))

    def _wrap(self, op, orig):
        def w(p, *a, **k):
            if self._mine(p):
                self.ops.append((self._tag(op, p), "L" if threading.current_thread() is MAIN_THREAD else "R"))
            return orig(p, *a, **k)
        return w

    def __enter__(self):
        real_open = builtins.open

        def rec_open(p, mode="r", *a, **k):
            f = real_open(p, mode, *a, **k)
            if self._mine(p):
                self.ops.append((self._tag("open", p), "L" if threading.current_thread() is MAIN_THREAD else "R"))
                return RecFile(f, "src" if self._tag("open", p) == "open_src" else "dst", self.log)
            return f
        for mod, name, op in ((builtins, "open", None), (os, "listdir", "listdir"), (os, "makedirs", "makedirs"),
                              (os.path, "isdir", "isdir"), (os.path, "isfile", "isfile"), (os.path, "join", "join")):
            orig = getattr(mod, name)
            self.saved.append((mod, name, orig))
            setattr(mod, name, rec_open if op is None else self._wrap(op, orig))
        return self

    def __exit__(self, *a):
        for mod, name, orig in self.saved:
            setattr(mod, name, orig)
        self.saved = []


_TYPED = {}


def _typed(module):
    """typed items of the tree under test, computed in-process by the translator (coq/gen may meanwhile belong to another tree)"""
    if module not in _TYPED:
        from tools import pygen
        _TYPED[module] = pygen.typed_items(C.REPO, module)
    return _TYPED[module]


def gen_guard():
    """which filter guard the tree under test has (1 = `filter is None`, 0 = truthiness test / unrecognised)"""
    t = _typed("classic")
    return 1 if all("dk_guard := GIsNone" in t.get(k, "") for k in ("upload_skel", "download_skel")) else 0


def default_chunk():
    """the chunk size used when chunk_size is omitted, as the translator reads it from rpyc/core/consts.py"""
    m = re.search(r"\((\d+)\)%Z", _typed("consts").get("STREAM_CHUNK", ""))
    return int(m.group(1)) if m else 64000


DEFAULT_CHUNK = default_chunk()


def eff_chunk(case):
    return DEFAULT_CHUNK if case["chunk"] is None else case["chunk"]


def import_package(path, name):
    spec = importlib.util.spec_from_file_location(name, os.path.join(path, "__init__.py"), submodule_search_locations=[path])
    mod = importlib.util.module_from_spec(spec)
    spec.loader.exec_module(mod)
    return mod


def run_tree_impl(rig, case):
    """-> src0, dst0, outcome, src1, dst1, tracer-or-None (snapshots by absolute path; rpyc gets the rig's path prefixes)"""
    w = rig.fresh()
    up = case["dir"] == "upload"
    sabs, sarg = (w["labs"], w["larg"]) if up else (w["rabs"], w["rarg"])
    dabs, darg = (w["rabs"], w["rarg"]) if up else (w["labs"], w["larg"])
    sp, dp = os.path.join(sabs, "src"), os.path.join(dabs, "dst")
    spa, dpa = os.path.join(sarg, "src"), os.path.join(darg, "dst")
    if case["src"] is not None:
        build(sp, case["src"])
    if case["dst"] is not None:
        build(dp, case["dst"])
    src0, dst0 = snap(sp), snap(dp)
    kw = {} if case["chunk"] is None else {"chunk_size": case["chunk"]}
    if case["kind"] == "package":
        mod = import_package(sp, "c20pkg_%s_%d" % (rig.kind, rig.n))
        call = lambda: classic.upload_package(rig.conn, mod, dpa, **kw)
    else:
        fn = classic.upload if up else classic.download
        call = lambda: fn(rig.conn, spa, dpa, filter=py_filter(case["filter"]), ignore_invalid=case["ign"], **kw)
    tr = Tracer(spa, dpa)
    with tr:
        out = rig.guarded(call)
    src1, dst1 = snap(sp), snap(dp)
    again = None
    if case.get("again") and out[0] == "ok":
        # the same source once more, into a second path where nothing exists (same process, same connection)
        dp2, dpa2 = os.path.join(dabs, "dst2"), os.path.join(darg, "dst2")
        if case["kind"] == "package":
            call2 = lambda: classic.upload_package(rig.conn, mod, dpa2, **kw)
        else:
            call2 = lambda: fn(rig.conn, spa, dpa2, filter=py_filter(case["filter"]), ignore_invalid=case["ign"], **kw)
        out2 = rig.guarded(call2)
        again = (out2, snap(sp), snap(dp2))
    for d in w["rm"]:
        shutil.rmtree(d, ignore_errors=True)
    return src0, dst0, out, src1, dst1, tr, again


def run_file_impl(rig, case):
    w = rig.fresh()
    up = case["dir"] == "upload"
    sabs, sarg = (w["labs"], w["larg"]) if up else (w["rabs"], w["rarg"])
    dabs, darg = (w["rabs"], w["rarg"]) if up else (w["labs"], w["larg"])
    sp, dp = os.path.join(sabs, "src.bin"), os.path.join(dabs, "dst.bin")
    spa, dpa = os.path.join(sarg, "src.bin"), os.path.join(darg, "dst.bin")
    build(sp, case["src"])
    if case["dst"] is not None:
        build(dp, case["dst"])
    fn = classic.upload_file if up else classic.download_file
    kw = {} if case["chunk"] is None else {"chunk_size": case["chunk"]}
    call = lambda: fn(rig.conn, spa, dpa, **kw)
    tr = Tracer(spa, dpa)
    with tr:
        out = rig.guarded(call)
    src1, dst1 = snap(sp), snap(dp)
    for d in w["rm"]:
        shutil.rmtree(d, ignore_errors=True)
    return out, src1, dst1, tr


def check_sides(ctx, table, case, tr):
    """the side every filesystem call ran on (by thread) against the model's skeleton table, and the plain reading:
    the source is touched only on the source side, the destination only on the destination side"""
    if tr is None or table is None:
        return
    up = case["dir"] == "upload"
    want = table["upload" if up else "download"]
    seen = {}
    for tag, side in tr.ops:
        seen.setdefault(tag, set()).add(side)
    for tag, sides in sorted(seen.items()):
        if tag not in want or sides != {want[tag]}:
            ctx.tie_broken("correspondence:side", "%s: %s ran on side(s) %s, the model's skeleton says %s"
                           % (case["dir"], tag, sorted(sides), want.get(tag, "<no such call>")))
            return
    ctx.count("sides-validated")


# ------------------------------------------------------------------ checking
def small(case):
    return {k: (v if k not in ("src", "dst") else brief(canon_of_case(v))) for k, v in case.items()}


def chunk_text(case):
    return "chunk_size omitted (default %d)" % DEFAULT_CHUNK if case["chunk"] is None else "chunk_size=%d" % case["chunk"]


def check_files(ctx, model, rigs, cases, table=None):
    res = model.batch([["copyfile", eff_chunk(c), file_bytes(c["src"])] for c in cases]) if model else None
    for i, case in enumerate(cases):
        data = file_bytes(case["src"])
        chunk = eff_chunk(case)
        up = case["dir"] == "upload"
        rig = rigs[case.get("rig", "thread")]
        out, src1, dst1, tr = run_file_impl(rig, case)
        if out[0] == "skipped":
            ctx.count("skipped-after-hangs")
            continue
        key = ("file", case["dir"], case["chunk"], hashlib.sha1(data).hexdigest(), case["dst"] is not None, rig.kind)
        ctx.case(key, nontrivial=len(data) >= 1, sample=small(case))
        rel = "empty" if not data else ("<chunk" if len(data) < chunk else ("multiple" if len(data) % chunk == 0 else
                                                                              ("multiple+1" if len(data) % chunk == 1 else
                                                                               ("multiple-1" if len(data) % chunk == chunk - 1 else "between"))))
        ctx.count("file:size:" + rel)
        ctx.count("file:" + case["dir"])
        ctx.count("file:rig:" + rig.kind)
        if case["chunk"] is None:
            ctx.count("file:chunk:default")
        # --- oracle: the destination file is the source file, byte for byte; the source is untouched
        if out[0] == "harness-timeout":
            ctx.tie_broken("harness:timeout", str(out[1]))
            continue
        if out[0] != "ok":
            ctx.violation("file:%s:%s" % (case["dir"], "hang" if out[0] == "hang" else "unexpected-exception:" + str(out[1])), case,
                          observed=out, expected="returns", what="%s_file raised/hung on a regular file" % case["dir"])
        elif dst1 != ("f", data):
            got = dst1[1] if dst1 and dst1[0] == "f" else None
            ctx.violation("file:%s:content-mismatch" % case["dir"], case,
                          observed={"len": None if got is None else len(got), "sha1": None if got is None else hashlib.sha1(got).hexdigest()},
                          expected={"len": len(data), "sha1": hashlib.sha1(data).hexdigest()},
                          what="%s_file with %s of a %d-byte file does not reproduce it at the destination side%s"
                               % (case["dir"], chunk_text(case), len(data), " (peer in another process and directory)" if rig.kind == "process" else ""))
        if src1 != ("f", data):
            ctx.violation("file:%s:source-modified" % case["dir"], case, observed=brief(src1), expected="file[%d]" % len(data),
                          what="the source file changed")
        # --- correspondence: bytes, write sizes, read results, read arguments, sides
        if res is not None:
            ctx.model_traces += 1
            m = res[i]
            if m[0] != b"ok":
                ctx.tie_broken("correspondence:copyfile", "model says %r for chunk %d size %d" % (m[0], chunk, len(data)))
                continue
            mout, mws, mrs = m[1]
            igot = dst1[1] if dst1 and dst1[0] == "f" else None
            if out[0] != "ok" or igot != mout:
                ctx.tie_broken("correspondence:copyfile", "%s %s size %d: impl outcome %r, bytes equal: %r" % (case["dir"], chunk_text(case), len(data), out, igot == mout))
            else:
                log = tr.log
                iws = [e[2] for e in log if e[0] == "w" and e[1] == "dst"]
                irs = [e[3] for e in log if e[0] == "r" and e[1] == "src"]
                iargs = {e[2] for e in log if e[0] == "r"}
                bad_side = [e for e in log if (e[0] == "w" and e[1] != "dst") or (e[0] == "r" and e[1] != "src")]
                if rig.kind == "process":       # only this process's end of the copy is instrumented there
                    mws, mrs, iws, irs = ((mws if not up else iws), (mrs if up else irs), iws, irs)
                if iws != mws or irs != mrs or bad_side or (iargs - {chunk}):
                    ctx.tie_broken("correspondence:copyfile", "%s %s size %d: impl writes %r reads %r read-args %r; model writes %r reads %r"
                                   % (case["dir"], chunk_text(case), len(data), iws[:6], irs[:6], sorted(iargs)[:4], mws[:6], mrs[:6]))
                check_sides(ctx, table, case, tr)


def check_trees(ctx, model, rigs, cases, table=None):
    runs = []
    mcases = []
    for case in cases:
        rig = rigs[case.get("rig", "thread")]
        src0, dst0, out, src1, dst1, tr, again = run_tree_impl(rig, case)
        runs.append((src0, dst0, out, src1, dst1, tr, rig.kind, again))
        up = case["dir"] == "upload"
        l, rm = (src0, dst0) if up else (dst0, src0)
        mcases.append(["transfer", gen_guard(), 0 if up else 1, eff_chunk(case), 1 if case["ign"] else 0, sx_filter(case["filter"]),
                       sx_of_canon(l), sx_of_canon(rm)])
    res = model.batch(mcases) if model else None
    for i, case in enumerate(cases):
        src0, dst0, out, src1, dst1, tr, rigkind, again = runs[i]
        if out[0] == "skipped":
            ctx.count("skipped-after-hangs")
            continue
        if out[0] == "harness-timeout":
            ctx.tie_broken("harness:timeout", str(out[1]))
            continue
        up = case["dir"] == "upload"
        chunk, flt = eff_chunk(case), case["filter"]
        kind = case["kind"]
        fname = "upload_package" if kind == "package" else case["dir"]
        topkind = "missing" if src0 is None else {"f": "file", "d": "dir", "s": "special"}[src0[0]]
        ctx.case((kind, case["dir"], case["chunk"], repr(flt), case["ign"], digest(src0), digest(dst0), rigkind),
                 nontrivial=(count_entries(src0) >= 2 or (topkind == "file" and len(src0[1]) >= 1)), sample=small(case))
        ctx.count("%s:%s" % (kind, case["dir"]))
        ctx.count("tree:rig:" + rigkind)
        ctx.count("tree:top:" + topkind)
        ctx.count("tree:filter:" + (flt[0] if flt[0] != "obj" else ("object-truthy:" if flt[1] else "object-falsy:") + flt[2][0]))
        ctx.count("tree:dst:" + ("absent" if dst0 is None else "existing"))
        ctx.count("tree:chunk:" + ("default" if case["chunk"] is None else str(chunk) if chunk in CHUNKS or chunk == 0 else "random"))
        # --- oracle
        in_domain = chunk >= 1 and topkind in ("file", "dir")
        conflict = False
        if in_domain:
            try:
                exp = expected_dst(src0, dst0, flt)
            except Conflict:
                conflict = True
                ctx.count("tree:excluded:file-meets-directory")
        if in_domain and not conflict:
            where = "%s %s filter=%s%s" % (fname, chunk_text(case), flt[0], " (peer in another process and directory)" if rigkind == "process" else "")
            if out[0] != "ok":
                ctx.violation("tree:%s:%s" % (fname, "hang" if out[0] == "hang" else "unexpected-exception:" + str(out[1])), case,
                              observed=out, expected="returns", what=where + " raised/hung on a valid tree")
            else:
                d = first_difference(exp, dst1)
                if d and is_falsy_object(flt) and dst1 == unfiltered_dst(src0, dst0):
                    ctx.violation("falsy-filter-treated-as-no-filter", case, observed={"at": d[1], "destination": brief(dst1)},
                                  expected={"destination": brief(exp)},
                                  what="%s with a callable filter object that is false in a boolean context (e.g. an empty callable set of accepted names) "
                                       "copies the entries the filter rejects: `not filter or filter(fn)` tests the object's truth value instead of `filter is None`"
                                       % case["dir"])
                elif d:
                    ctx.violation("tree:%s:%s" % (fname, d[0]), case, observed={"at": d[1], "destination": brief(dst1)},
                                  expected={"destination": brief(exp)},
                                  what=where + ": destination differs from the filtered source at " + (d[1] or "/"))
            if src1 != src0:
                ctx.violation("tree:%s:source-modified" % fname, case, observed=brief(src1), expected=brief(src0),
                              what=where + ": the source tree changed")
            if again is not None and again[0][0] != "skipped":
                # the statement holds for every transfer, also for the second one of the same source in one process
                ctx.count("tree:again")
                out2, src2, dst2 = again
                exp2 = expected_dst(src0, None, flt)
                if out2[0] == "harness-timeout":
                    ctx.tie_broken("harness:timeout", str(out2[1]))
                elif out2[0] != "ok":
                    ctx.violation("tree:%s:again:%s" % (fname, "hang" if out2[0] == "hang" else "unexpected-exception:" + str(out2[1])), case,
                                  observed=out2, expected="returns", what=where + ": transferring the same source a second time raised/hung")
                else:
                    d2 = first_difference(exp2, dst2)
                    if d2:
                        ctx.violation("tree:%s:again:%s" % (fname, d2[0]), case, observed={"at": d2[1], "second destination": brief(dst2)},
                                      expected={"second destination": brief(exp2)},
                                      what=where + ": transferring the SAME source a second time (same process and connection, new destination path) "
                                                   "does not reproduce it at " + (d2[1] or "/"))
                    if src2 != src0:
                        ctx.violation("tree:%s:source-modified" % fname, case, observed=brief(src2), expected=brief(src0),
                                      what=where + ": the source tree changed (second transfer)")
        else:
            ctx.count("tree:outside-domain")
        # --- correspondence
        if res is not None:
            ctx.model_traces += 1
            m = res[i]
            mk = m[0].decode()
            if mk == "ok":
                ml, mr = canon_of_sx(m[1][0]), canon_of_sx(m[1][1])
                il, ir = (src1, dst1) if up else (dst1, src1)
                if out[0] != "ok" or ml != il or mr != ir:
                    dd = first_difference(mr if up else ml, dst1)
                    ctx.tie_broken("correspondence:transfer", "%s: impl %r, model ok; first difference %r" % (small(case), out, dd))
                else:
                    iargs = {e[2] for e in tr.log if e[0] == "r"}
                    wrong = [e for e in tr.log if (e[0] == "w" and e[1] != "dst") or (e[0] == "r" and e[1] != "src")]
                    if (iargs - {chunk}) or wrong:
                        ctx.tie_broken("correspondence:transfer", "%s: read arguments %r (expected only %d), wrong-direction file calls %r"
                                       % (small(case), sorted(iargs)[:4], chunk, wrong[:3]))
                    check_sides(ctx, table, case, tr)
            elif mk == "exc":
                want = {"OtherError": "OSError"}.get(m[1].decode(), m[1].decode())
                if out != ("exc", want):
                    ctx.tie_broken("correspondence:transfer", "%s: impl %r, model raises %s" % (small(case), out, want))
            else:
                ctx.tie_broken("correspondence:transfer", "%s: model %s" % (small(case), mk))


def check_prune(ctx, model, r, n):
    """the Coq [prune] (the spec function of the theorems) against the harness's own reading of the property"""
    if not model:
        return
    cases, exps = [], []
    for _ in range(n):
        t = gen_tree(r, r.choice([1, 2, 3]), r.choice([1, 2, 3, 4]), [0])
        flt = gen_filter(r, t)
        c = canon_of_case(t)
        cases.append(["prune", sx_filter(flt), _sx_node(c)])
        exps.append(expected_dst(c, None, flt))
    res = model.batch(cases)
    for m, e, c in zip(res, exps, cases):
        ctx.model_traces += 1
        if not m[0] or _canon_node(m[1]) != e:
            ctx.tie_broken("correspondence:prune", "model prune differs from the oracle's filtered tree")
            break


def sides_table(model):
    """the model's skeleton: which side each filesystem call of upload* / download* runs on"""
    if not model:
        return None
    g = gen_guard()
    res = model.batch([["sides", g, 0], ["sides", g, 1]])
    out = {}
    for nm, rows in zip(("upload", "download"), res):
        if not isinstance(rows, list) or not rows or not isinstance(rows[0], list) or len(rows[0]) != 2:
            return None
        out[nm] = {k.decode(): ("R" if v else "L") for k, v in rows}
    return out


def gen_package_case(r, i):
    chunk = r.choice(CHUNKS) if r.random() < 0.7 else r.randint(1, 300)
    tree = gen_tree(r, chunk, r.choice([0, 1, 2]), [1], specials=False)
    ents = [e for e in tree[1] if e[0] != "__init__.py"]
    ents.insert(r.randint(0, len(ents)), ["__init__.py", ["f", r.getrandbits(32), gen_size(r, chunk, False), 4]])
    return {"kind": "package", "dir": "upload", "chunk": None if i % 4 == 0 else chunk, "ign": False, "filter": ["none"],
            "src": ["d", ents], "dst": None, "rig": "process" if i % 2 else "thread", "again": i % 3 == 0}


def stalled_read_phase(ctx):
    """oracle only: a source that stalls in the middle (a fifo whose writer pauses for longer than the connection's request timeout).
    The copy may FAIL (the timeout error reaches the caller) - what it must not do is return normally with a file that differs from
    what the source delivered: a request that timed out is not cancelled, the peer still performs the read and the file position
    moves on, so anything that carries on after the timeout loses that chunk silently."""
    import threading, time
    root = tempfile.mkdtemp(prefix="c20-stall-")
    conn = None
    chunks = [bytes([65 + k]) * 16 for k in range(5)]
    case = {"stalled_read": {"chunk": 16, "chunks": 5, "stall_after": 2, "stall_s": 1.6, "sync_request_timeout": 1}}
    try:
        fifo = os.path.join(root, "src.fifo")
        os.mkfifo(fifo)
        conn = rpyc.classic.connect_thread()
        conn._config["sync_request_timeout"] = 1

        def writer():
            try:
                with open(fifo, "wb", buffering=0) as w:
                    w.write(b"".join(chunks[:2]))
                    time.sleep(1.6)
                    w.write(b"".join(chunks[2:]))
            except OSError:
                pass            # the reader gave up and closed its end
        th = threading.Thread(target=writer, daemon=True)
        th.start()
        dst = os.path.join(root, "dst.bin")
        try:
            with C.time_limit(60):
                rpyc.classic.download_file(conn, fifo, dst, chunk_size=16)
            outcome = "returned"
        except C.Hang:
            raise
        except BaseException as e:
            outcome = "raised " + type(e).__name__
        got = open(dst, "rb").read() if os.path.exists(dst) else None
        ctx.case(("stalled-read", outcome), nontrivial=True, sample={"case": case, "outcome": outcome, "received_bytes": None if got is None else len(got)})
        ctx.count("stalled-read:" + outcome.split()[0])
        if outcome == "returned" and got != b"".join(chunks):
            ctx.violation("download-returned-normally-with-different-content:stalled-source", case,
                          observed={"bytes": None if got is None else len(got), "head": None if got is None else got[:48].decode("latin1")},
                          expected="the 80 bytes the source delivered, or an exception",
                          what="download_file returned normally although one of its reads had run into the request timeout: the local copy "
                               "misses the chunk the abandoned request consumed")
        th.join(5)
    finally:
        try:
            if conn is not None:
                conn.close()
        except Exception:
            pass
        shutil.rmtree(root, ignore_errors=True)


def run(ctx):
    r = ctx.rng
    model = C.Model("files")
    model = model if model.available() else None
    n_file, n_tree, n_prune, n_pkg = (420, 700, 300, 24) if ctx.quick else (6000, 9000, 4000, 400)
    ctx.coverage_extra["rule"] = ("file cases: every chunk in {1,2,3,7,64,4096,64000}, random chunks and the omitted chunk_size (default) x sizes {0,1,c-1,c,c+1,2c-1,2c,2c+1,3c,random}, "
                                  "upload_file/download_file with instrumented file objects; tree cases: random trees (depth <= 4, fan-out <= 5, empty dirs and files, "
                                  "fifos/dangling links, unicode/space/dot names, sizes around multiples of the chunk), filters None / functions reject/only/suffix/maxlen / "
                                  "callable objects with a truth value (true or false), chunk_size given or omitted, "
                                  "35% into an overlapping existing destination, every sixth source transferred twice within the run (second time to a new path), malformed: missing/special top, chunk 0, file-vs-directory conflicts; "
                                  "upload_package of generated packages with an explicit remotepath; "
                                  "two rigs: peer on a thread of this process (every filesystem call's side observed by thread and compared with the model's skeleton) and "
                                  "peer in another process with another working directory and relative paths (a call on the wrong side lands in the wrong tree: ~20% of cases); "
                                  "non-trivial = file of >= 1 byte, or tree with >= 2 entries; distinct by (direction, chunk, filter, content digests, rig)")
    rigs = {"thread": Rig(), "process": None}
    try:
        rigs["process"] = ProcRig()
        table = sides_table(model)
        if model and table is None:
            ctx.tie_broken("correspondence:side", "the model did not return its sides table")
        deep = ["d", []]
        for _ in range(4):
            deep = ["d", [["e", deep]]]
        base = [
            {"kind": "tree", "dir": "upload", "chunk": 3, "ign": False, "filter": ["suffix", ".pyc"], "dst": None,
             "src": ["d", [["a", ["d", [["empty", ["f", 1, 0, 0]], ["one", ["f", 2, 1, 0]], ["b", ["d", [["exact", ["f", 3, 9, 0]]]]],
                                         ["fifo", ["s", "fifo"]], ["skip.pyc", ["f", 4, 7, 0]]]]],
                           ["emptydir", ["d", []]], ["skip.pyc", ["d", [["inner", ["f", 5, 7, 0]]]]], ["f", ["f", 6, 7, 2]]]]},
            {"kind": "tree", "dir": "download", "chunk": 64000, "ign": False, "filter": ["none"], "dst": None,
             "src": ["d", [["big", ["f", 7, 128001, 0]], ["e", deep]]]},
            {"kind": "tree", "dir": "upload", "chunk": None, "ign": False, "filter": ["none"], "dst": None,
             "src": ["d", [["big", ["f", 13, 2 * DEFAULT_CHUNK + 1, 0]], ["exact", ["f", 14, DEFAULT_CHUNK, 0]], ["sub", ["d", [["x", ["f", 15, DEFAULT_CHUNK - 1, 2]]]]]]]},
            {"kind": "tree", "dir": "upload", "chunk": 1, "ign": False, "filter": ["only", []], "dst": None, "src": ["d", [["a", ["f", 8, 3, 0]]]]},
            {"kind": "tree", "dir": "download", "chunk": 2, "ign": False, "filter": ["none"], "src": ["f", 9, 5, 0], "dst": ["f", 10, 50, 1]},
            {"kind": "tree", "dir": "upload", "chunk": 5, "ign": False, "filter": ["obj", False, ["only", []]], "dst": None,
             "src": ["d", [["secret.key", ["f", 11, 6, 0]], ["sub", ["d", [["x", ["f", 12, 1, 0]]]]]]]},
        ]
        fixed = [dict(c, rig=k, again=True) for c in base for k in ("thread", "process")]
        check_trees(ctx, model, rigs, fixed, table)
        check_trees(ctx, model, rigs, [gen_package_case(r, i) for i in range(n_pkg)], table)
        check_files(ctx, model, rigs, [gen_file_case(r, i) for i in range(n_file)], table)
        step = 500
        done = 0
        while done < n_tree:
            k = min(step, n_tree - done)
            check_trees(ctx, model, rigs, [gen_case(r, done + j) for j in range(k)], table)
            done += k
        check_prune(ctx, model, r, n_prune)
        stalled_read_phase(ctx)
    finally:
        for g in rigs.values():
            if g is not None:
                g.close()


def replay(ctx, rep):
    case = rep.get("case")
    if not case:
        return
    model = C.Model("files")
    model = model if model.available() else None
    rigs = {"thread": Rig(), "process": None}
    try:
        rigs["process"] = ProcRig()
        table = sides_table(model)
        if case.get("kind") == "file":
            check_files(ctx, model, rigs, [case], table)
        else:
            check_trees(ctx, model, rigs, [case], table)
    finally:
        for g in rigs.values():
            if g is not None:
                g.close()
