"""C20 — uploading and downloading files reproduces them byte for byte.

Real rpyc.utils.classic.upload*/download* over a real classic connection pair (rpyc.classic.connect_thread, both
ends in this process, two disjoint temp directories play "local" and "remote"), compared
  * with the property's own statement evaluated in Python (oracle: the destination is the filtered source,
    byte for byte, under the same relative names; everything else at the destination and the whole source untouched),
  * with the extracted Coq model model/Files.v (correspondence: resulting trees on both sides, raised exception class,
    and -- for single files -- the exact sequence of read results and write sizes seen by the file objects)."""
import builtins, hashlib, os, random, shutil, signal, tempfile
from harness import common as C

META = {
    "level": "proof",
    "level_text": "Theorems for all file contents, all chunk sizes >= 1, all directory trees with unique names per directory (any depth/fan-out, "
                  "empty directories, special entries), all filters and all pre-existing destinations (props/C20.v): the chunk loop is the identity with "
                  "ceil(len/chunk) writes; copying into nothing yields exactly the pruned tree; copying into existing content overlays it and touches nothing else; "
                  "prune removes exactly the rejected names; upload and download are one function up to the side swap; the loop guard equals the caller's filter for every "
                  "filter that is true in a boolean context (for all filters once the code tests `filter is None`; refuted for falsy filter objects while it tests "
                  "`not filter`). The loop statements, open modes, the filter guard and the side "
                  "of every filesystem call are regenerated from classic.py on every run and tied by computation; the extracted model is compared with the real "
                  "functions over a real connection pair. Proof is the right level: the property quantifies over all trees, contents, chunk sizes and filters.",
    "level_note": "Trusted: Coq kernel, pygen, extraction + driver, harness. The OS file API (read returns up to n bytes and b'' only at EOF, 'wb' truncates, "
                  "listdir names are unique, makedirs/isdir/isfile) is modelled structurally and validated differentially; remote file objects are reached "
                  "through proxies (C02); permissions, symlinks to existing targets, concurrent modification and chunk_size <= 0 are outside.",
    "technique": "Coq proof (interpreted chunk loop, nested induction over trees); regenerated skeletons tied by reflexivity; differential correspondence of the extracted model "
                 "against real upload/download over a live classic connection",
    "gen": ["consts", "classic"],
    "shapes": ["classic.*"],
    "models": ["files"],
    "model_files": ["Files"],
    "assumptions": [
        "OS/CPython file API: BufferedReader.read(n) returns min(n, remaining) bytes, open(..., 'wb') truncates, os.listdir returns each name once "
        "(validated differentially on every run, not proved)",
        "excluded by the property text: chunk_size <= 0; outside the model: permissions, symlinks to live targets, special files as destination, concurrent writers",
    ],
}

import rpyc
from rpyc.utils import classic

CHUNKS = [1, 2, 3, 7, 64, 4096, 64000]
NAMES = ["a", "b", "c", "d", "f.txt", "x.pyc", "y.pyc", ".hidden", "d d", " sp", "ünï", "data.bin", "__pycache__", "A", "a.b.c",
         "z" * 100, "-", "~", "a.pyc.txt", "pyc", "中"]
CASE_TIMEOUT = 15
MAX_HANGS = 3


# ------------------------------------------------------------------ case description (JSON-able)
# node  := ["f", seed, size, pattern] | ["d", [[name, node], ...]] | ["s", "fifo"|"link"]
# pred  := ["reject", [names]] | ["only", [names]] | ["suffix", s] | ["maxlen", n]
# filter:= ["none"]  (filter=None)  |  pred  (a plain function)  |  ["obj", truthy, pred]  (a callable object with a truth value)

def file_bytes(nd):
    _, seed, size, pat = nd
    if pat == 0:
        return random.Random(seed).randbytes(size)
    if pat == 1:
        return bytes(size)
    if pat == 2:
        return (b"line\r\nnext\n\x1a\r" * (size // 13 + 1))[:size]
    return bytes((seed + i) & 0xff for i in range(size))


def enc(name):
    return name.encode("utf-8")


class Pred:
    """a callable filter object with an explicit truth value (think: a callable collection of accepted names, empty = falsy)"""

    def __init__(self, fn, truth):
        self.fn, self.truth = fn, truth

    def __call__(self, name):
        return self.fn(name)

    def __bool__(self):
        return self.truth


def py_filter(flt):
    k = flt[0]
    if k == "none":
        return None
    if k == "obj":
        return Pred(py_filter(flt[2]), bool(flt[1]))
    if k == "reject":
        s = set(flt[1])
        return lambda n: n not in s
    if k == "only":
        s = set(flt[1])
        return lambda n: n in s
    if k == "suffix":
        suf = enc(flt[1])
        return lambda n: not enc(n).endswith(suf)
    if k == "maxlen":
        return lambda n: len(enc(n)) <= flt[1]
    raise ValueError(flt)


def accepts(flt, name):
    """what the caller asked for: None accepts everything, anything else accepts what it returns true for"""
    f = py_filter(flt)
    return True if f is None else bool(f(name))


def is_falsy_object(flt):
    return flt[0] == "obj" and not flt[1]


def sx_filter(flt):
    """() = None, (truthy pred) = callable"""
    if flt[0] == "none":
        return []
    if flt[0] == "obj":
        return [1 if flt[1] else 0, sx_pred(flt[2])]
    return [1, sx_pred(flt)]


def sx_pred(flt):
    k = flt[0]
    if k == "reject":
        return [1, [enc(n) for n in flt[1]]]
    if k == "only":
        return [2, [enc(n) for n in flt[1]]]
    if k == "suffix":
        return [3, enc(flt[1])]
    return [4, flt[1]]


# ------------------------------------------------------------------ on-disk trees <-> canonical values
# canonical: None | ("f", bytes) | ("d", {name: canonical}) | ("s",)

def build(path, nd):
    if nd[0] == "f":
        with open(path, "wb") as f:
            f.write(file_bytes(nd))
    elif nd[0] == "d":
        os.mkdir(path)
        for name, c in nd[1]:
            build(os.path.join(path, name), c)
    elif nd[1] == "fifo":
        os.mkfifo(path)
    else:
        os.symlink(os.path.join(path, "does", "not", "exist"), path)


def canon_of_case(nd):
    if nd is None:
        return None
    if nd[0] == "f":
        return ("f", file_bytes(nd))
    if nd[0] == "d":
        return ("d", {name: canon_of_case(c) for name, c in nd[1]})
    return ("s",)


def snap(path):
    try:
        st = os.lstat(path)
    except FileNotFoundError:
        return None
    import stat
    if stat.S_ISREG(st.st_mode):
        with open(path, "rb") as f:
            return ("f", f.read())
    if stat.S_ISDIR(st.st_mode):
        return ("d", {n: snap(os.path.join(path, n)) for n in os.listdir(path)})
    return ("s",)


def sx_of_canon(c, order=None):
    """option node for the model"""
    if c is None:
        return []
    return [_sx_node(c)]


def _sx_node(c):
    if c[0] == "f":
        return [0, c[1]]
    if c[0] == "d":
        return [1, [[enc(n), _sx_node(v)] for n, v in c[1].items()]]
    return [2]


def canon_of_sx(o):
    if not o:
        return None
    return _canon_node(o[0])


def _canon_node(x):
    if x[0] == 0:
        return ("f", x[1])
    if x[0] == 1:
        return ("d", {k.decode("utf-8"): _canon_node(v) for k, v in x[1]})
    return ("s",)


def digest(c):
    h = hashlib.sha1()

    def go(c):
        if c is None:
            h.update(b"N")
        elif c[0] == "f":
            h.update(b"F" + hashlib.sha1(c[1]).digest())
        elif c[0] == "d":
            h.update(b"D(")
            for n in sorted(c[1]):
                h.update(enc(n) + b"\0")
                go(c[1][n])
            h.update(b")")
        else:
            h.update(b"S")
    go(c)
    return h.hexdigest()[:16]


def count_entries(c):
    if c is None or c[0] != "d":
        return 0
    return sum(1 + count_entries(v) for v in c[1].values())


def brief(c, depth=0):
    if c is None:
        return None
    if c[0] == "f":
        return "file[%d]" % len(c[1])
    if c[0] == "s":
        return "special"
    if depth > 2:
        return "dir{%d}" % len(c[1])
    return {n: brief(v, depth + 1) for n, v in sorted(c[1].items())}


# ------------------------------------------------------------------ the property's statement, in Python (oracle)
class Conflict(Exception):
    pass


def expected_dst(src, dst, flt, top=True):
    """what must be at the destination path afterwards; Conflict when a file meets a directory or the reverse
    (the property does not say what happens then)"""
    if src is None or src[0] == "s":
        return dst
    if src[0] == "f":
        if dst is not None and dst[0] != "f":
            raise Conflict()
        return ("f", src[1])
    if dst is not None and dst[0] != "d":
        raise Conflict()
    out = dict(dst[1]) if dst is not None else {}
    for n, c in src[1].items():
        if accepts(flt, n):
            r = expected_dst(c, out.get(n), flt, False)
            if r is not None:
                out[n] = r
    return ("d", out)


def unfiltered_dst(src, dst):
    try:
        return expected_dst(src, dst, ["none"])
    except Conflict:
        return ("conflict",)


def first_difference(exp, got, path=""):
    """(signature-kind, path) of the first difference between two canonical trees, or None"""
    if exp == got:
        return None
    if exp is None:
        return ("extra-entry", path)
    if got is None:
        return ("missing-entry", path)
    if exp[0] != got[0]:
        return ("kind-mismatch", path)
    if exp[0] == "f":
        return ("content-mismatch", path)
    if exp[0] == "d":
        for n in sorted(set(exp[1]) | set(got[1])):
            d = first_difference(exp[1].get(n), got[1].get(n), path + "/" + n)
            if d:
                return d
    return ("kind-mismatch", path)


# ------------------------------------------------------------------ generators
def gen_size(r, chunk, big_ok):
    c = r.random()
    if chunk >= 4096 and not big_ok:
        return r.choice([0, 1, 2, 5, 17])
    if c < 0.75:
        k = r.choice([0, 1, 1, 2, 2, 3])
        return max(0, k * chunk + r.choice([-1, 0, 0, 1]))
    if c < 0.85:
        return r.choice([0, 1])
    return r.randint(0, 3 * chunk + 2) if chunk < 4096 else r.randint(0, chunk + 100)


def gen_file(r, chunk, big_ok=True):
    return ["f", r.getrandbits(32), gen_size(r, chunk, big_ok), r.choice([0, 0, 0, 1, 2, 3])]


def gen_tree(r, chunk, depth, budget, specials=True):
    """a directory node; budget = [remaining big files]"""
    n = r.choice([0, 1, 2, 2, 3, 3, 4, 5])
    names = r.sample(NAMES, n)
    out = []
    for nm in names:
        c = r.random()
        if c < 0.30 and depth > 0:
            out.append([nm, gen_tree(r, chunk, depth - 1, budget, specials)])
        elif c < 0.36 and specials:
            out.append([nm, ["s", r.choice(["fifo", "link"])]])
        elif c < 0.42:
            out.append([nm, ["d", []]])
        else:
            big = budget[0] > 0
            f = gen_file(r, chunk, big)
            if chunk >= 4096 and f[2] >= chunk - 1:
                budget[0] -= 1
            out.append([nm, f])
    return ["d", out]


def names_in(nd, acc):
    if nd and nd[0] == "d":
        for n, c in nd[1]:
            acc.append(n)
            names_in(c, acc)
    return acc


def gen_filter(r, src):
    f = gen_pred(r, src)
    if f[0] != "none" and r.random() < 0.12:
        return ["obj", r.random() < 0.4, f]       # a callable object; 60% of them false in a boolean context
    return f


def gen_pred(r, src):
    present = names_in(src, []) or ["a"]
    c = r.random()
    if c < 0.25:
        return ["none"]
    if c < 0.50:
        return ["reject", sorted(set(r.sample(present, min(len(present), r.choice([1, 1, 2, 3]))) + r.sample(NAMES, 1)))]
    if c < 0.65:
        return ["suffix", r.choice([".pyc", ".pyc", "c", ".txt", "", "a"])]
    if c < 0.80:
        keep = sorted(set(r.sample(present, max(1, len(present) * 2 // 3))))
        return ["only", keep]
    if c < 0.90:
        return ["maxlen", r.choice([0, 1, 3, 5, 50])]
    return ["only", []] if r.random() < 0.5 else ["reject", sorted(set(present))]


def gen_existing(r, src, chunk, allow_conflict):
    """a destination that overlaps the source: some same names (file over file, dir over dir), some others"""
    if src[0] == "f":
        return gen_file(r, chunk, False)
    out = []
    for n, c in src[1]:
        k = r.random()
        if k < 0.45:
            continue
        if c[0] == "d":
            if allow_conflict and k > 0.97:
                out.append([n, gen_file(r, chunk, False)])
            else:
                out.append([n, gen_existing(r, c, chunk, allow_conflict)])
        elif c[0] == "f":
            if allow_conflict and k > 0.97:
                out.append([n, ["d", []]])
            else:
                out.append([n, gen_file(r, chunk, False)])
        else:
            out.append([n, gen_file(r, chunk, False) if k < 0.8 else ["d", []]])
    have = {n for n, _ in out} | {n for n, _ in src[1]}
    for n in r.sample(NAMES, r.choice([0, 1, 2])):
        if n not in have:
            out.append([n, gen_file(r, chunk, False) if r.random() < 0.6 else ["d", [["kept", gen_file(r, chunk, False)]]]])
    r.shuffle(out)
    return ["d", out]


def gen_case(r, i):
    chunk = r.choice(CHUNKS) if r.random() < 0.8 else r.randint(1, 300)
    if i % 9 == 0:
        chunk = r.choice([4096, 64000])
    c = r.random()
    case = {"kind": "tree", "dir": r.choice(["upload", "download"]), "chunk": chunk, "ign": r.random() < 0.15, "dst": None}
    if c < 0.06:
        case["src"] = gen_file(r, chunk)                       # a single file as the top
    elif c < 0.09:
        case["src"] = r.choice([None, ["s", "fifo"], ["s", "link"]])    # malformed top: nothing / neither file nor directory
    else:
        case["src"] = gen_tree(r, chunk, r.choice([0, 1, 2, 3, 4]), [2])
    case["filter"] = gen_filter(r, case["src"])
    e = r.random()
    if case["src"] is not None and case["src"][0] != "s" and e < 0.35:
        case["dst"] = gen_existing(r, case["src"], chunk, allow_conflict=(e < 0.08 and not is_falsy_object(case["filter"])))
    elif e > 0.97:
        case["dst"] = ["d", []]
    if r.random() < 0.02:
        case["chunk"] = 0                                       # outside the property; correspondence only
    return case


def gen_file_case(r, i):
    chunk = CHUNKS[i % len(CHUNKS)] if i % 3 else r.randint(1, 1000)
    sizes = [0, 1, chunk - 1, chunk, chunk + 1, 2 * chunk - 1, 2 * chunk, 2 * chunk + 1, 3 * chunk, r.randint(0, 4 * chunk)]
    if chunk >= 4096:
        sizes = [0, 1, chunk - 1, chunk, chunk + 1, 2 * chunk, 2 * chunk + 1, r.randint(0, 2 * chunk)]
    size = sizes[(i // len(CHUNKS)) % len(sizes)] if r.random() < 0.85 else r.choice(sizes)
    return {"kind": "file", "dir": r.choice(["upload", "download"]), "chunk": chunk,
            "src": ["f", r.getrandbits(32), max(0, size), r.choice([0, 0, 1, 2, 3])],
            "dst": r.choice([None, None, ["f", r.getrandbits(32), r.choice([0, 1, size + 5, 3 * chunk + 1]), 3]])}


# ------------------------------------------------------------------ running the implementation
class Hang(BaseException):
    pass


def _alarm(*a):
    raise Hang()


class Rig:
    """one classic connection pair + a scratch directory"""

    def __init__(self):
        self.root = tempfile.mkdtemp(prefix="c20-")
        self.conn = None
        self.n = 0
        self.hangs = 0
        self.connect()

    def connect(self):
        if self.conn is not None:
            try:
                self.conn.close()
            except Exception:
                pass
        self.conn = rpyc.classic.connect_thread()

    def close(self):
        try:
            self.conn.close()
        except Exception:
            pass
        shutil.rmtree(self.root, ignore_errors=True)

    def fresh(self):
        self.n += 1
        d = os.path.join(self.root, "k%d" % self.n)
        os.makedirs(os.path.join(d, "L"))
        os.makedirs(os.path.join(d, "R"))
        return d

    def guarded(self, fn):
        """(outcome, exception-name) with a watchdog"""
        if self.hangs >= MAX_HANGS:          # already reported; do not spend the budget on more of the same
            return ("skipped", None)
        old = signal.signal(signal.SIGALRM, _alarm)
        signal.setitimer(signal.ITIMER_REAL, CASE_TIMEOUT, 0.5)     # re-fires in case library code swallows the first one
        try:
            fn()
            return ("ok", None)
        except Hang:
            signal.setitimer(signal.ITIMER_REAL, 0)
            self.hangs += 1
            self.connect()
            return ("hang", None)
        except OSError as e:
            return ("exc", "OSError")
        except Exception as e:
            return ("exc", C.exc_enum(e))
        finally:
            signal.setitimer(signal.ITIMER_REAL, 0)
            signal.signal(signal.SIGALRM, old)


class RecFile:
    def __init__(self, f, tag, log):
        self.f, self.tag, self.log = f, tag, log

    def read(self, n=-1):
        b = self.f.read(n)
        self.log.append(("r", self.tag, n, len(b)))
        return b

    def write(self, b):
        self.log.append(("w", self.tag, len(b)))
        return self.f.write(b)

    def close(self):
        self.f.close()

    def __enter__(self):
        return self

    def __exit__(self, *a):
        self.f.close()


def gen_guard():
    """which filter guard the current tree has (follows the generated skeleton; falls back to the truthiness test)"""
    try:
        txt = open(C.COQ + "/gen/Gen_classic.v").read()
        return 1 if txt.count("dk_guard := GIsNone") == 2 else 0
    except OSError:
        return 0


def run_tree_impl(rig, case):
    d = rig.fresh()
    up = case["dir"] == "upload"
    sp = os.path.join(d, "L" if up else "R", "src")
    dp = os.path.join(d, "R" if up else "L", "dst")
    if case["src"] is not None:
        build(sp, case["src"])
    if case["dst"] is not None:
        build(dp, case["dst"])
    src0, dst0 = snap(sp), snap(dp)
    fn = classic.upload if up else classic.download
    out = rig.guarded(lambda: fn(rig.conn, sp, dp, filter=py_filter(case["filter"]), ignore_invalid=case["ign"],
                                 chunk_size=case["chunk"]))
    src1, dst1 = snap(sp), snap(dp)
    shutil.rmtree(d, ignore_errors=True)
    return src0, dst0, out, src1, dst1


def run_file_impl(rig, case):
    d = rig.fresh()
    up = case["dir"] == "upload"
    sp = os.path.join(d, "L" if up else "R", "src.bin")
    dp = os.path.join(d, "R" if up else "L", "dst.bin")
    build(sp, case["src"])
    if case["dst"] is not None:
        build(dp, case["dst"])
    log = []
    real_open = builtins.open

    def rec_open(path, mode="r", *a, **k):
        f = real_open(path, mode, *a, **k)
        if path == sp or path == dp:
            return RecFile(f, "src" if path == sp else "dst", log)
        return f
    fn = classic.upload_file if up else classic.download_file
    builtins.open = rec_open
    try:
        out = rig.guarded(lambda: fn(rig.conn, sp, dp, chunk_size=case["chunk"]))
    finally:
        builtins.open = real_open
    src1, dst1 = snap(sp), snap(dp)
    shutil.rmtree(d, ignore_errors=True)
    return out, src1, dst1, log


# ------------------------------------------------------------------ checking
def small(case):
    return {k: (v if k not in ("src", "dst") else brief(canon_of_case(v))) for k, v in case.items()}


def check_files(ctx, model, rig, cases):
    res = model.batch([["copyfile", c["chunk"], file_bytes(c["src"])] for c in cases]) if model else None
    for i, case in enumerate(cases):
        data = file_bytes(case["src"])
        chunk = case["chunk"]
        out, src1, dst1, log = run_file_impl(rig, case)
        if out[0] == "skipped":
            ctx.count("skipped-after-hangs")
            continue
        key = ("file", case["dir"], chunk, hashlib.sha1(data).hexdigest(), case["dst"] is not None)
        ctx.case(key, nontrivial=len(data) >= 1, sample=small(case))
        rel = "empty" if not data else ("<chunk" if len(data) < chunk else ("multiple" if len(data) % chunk == 0 else
                                                                              ("multiple+1" if len(data) % chunk == 1 else
                                                                               ("multiple-1" if len(data) % chunk == chunk - 1 else "between"))))
        ctx.count("file:size:" + rel)
        ctx.count("file:" + case["dir"])
        # --- oracle: the destination file is the source file, byte for byte; the source is untouched
        if out[0] != "ok":
            ctx.violation("file:%s:%s" % (case["dir"], "hang" if out[0] == "hang" else "unexpected-exception:" + str(out[1])), case,
                          observed=out, expected="returns", what="%s_file raised/hung on a regular file" % case["dir"])
        elif dst1 != ("f", data):
            got = dst1[1] if dst1 and dst1[0] == "f" else None
            ctx.violation("file:%s:content-mismatch" % case["dir"], case,
                          observed={"len": None if got is None else len(got), "sha1": None if got is None else hashlib.sha1(got).hexdigest()},
                          expected={"len": len(data), "sha1": hashlib.sha1(data).hexdigest()},
                          what="%s_file with chunk_size=%d of a %d-byte file does not reproduce it" % (case["dir"], chunk, len(data)))
        if src1 != ("f", data):
            ctx.violation("file:%s:source-modified" % case["dir"], case, observed=brief(src1), expected="file[%d]" % len(data),
                          what="the source file changed")
        # --- correspondence: bytes, write sizes, read results
        if res is not None:
            ctx.model_traces += 1
            m = res[i]
            if m[0] != b"ok":
                ctx.tie_broken("correspondence:copyfile", "model says %r for chunk %d size %d" % (m[0], chunk, len(data)))
                continue
            mout, mws, mrs = m[1]
            iws = [e[2] for e in log if e[0] == "w" and e[1] == "dst"]
            irs = [e[3] for e in log if e[0] == "r" and e[1] == "src"]
            iargs = {e[2] for e in log if e[0] == "r"}
            bad_side = [e for e in log if (e[0] == "w" and e[1] != "dst") or (e[0] == "r" and e[1] != "src")]
            igot = dst1[1] if dst1 and dst1[0] == "f" else None
            if out[0] != "ok" or igot != mout or iws != mws or irs != mrs or bad_side or (iargs - {chunk}):
                ctx.tie_broken("correspondence:copyfile", "%s chunk %d size %d: impl outcome %r writes %r reads %r read-args %r; model writes %r reads %r; bytes equal: %r"
                               % (case["dir"], chunk, len(data), out, iws[:6], irs[:6], sorted(iargs)[:4], mws[:6], mrs[:6], igot == mout))


def check_trees(ctx, model, rig, cases):
    runs = []
    mcases = []
    for case in cases:
        src0, dst0, out, src1, dst1 = run_tree_impl(rig, case)
        runs.append((src0, dst0, out, src1, dst1))
        up = case["dir"] == "upload"
        l, rm = (src0, dst0) if up else (dst0, src0)
        mcases.append(["transfer", gen_guard(), 0 if up else 1, case["chunk"], 1 if case["ign"] else 0, sx_filter(case["filter"]),
                       sx_of_canon(l), sx_of_canon(rm)])
    res = model.batch(mcases) if model else None
    for i, case in enumerate(cases):
        src0, dst0, out, src1, dst1 = runs[i]
        if out[0] == "skipped":
            ctx.count("skipped-after-hangs")
            continue
        up = case["dir"] == "upload"
        chunk, flt = case["chunk"], case["filter"]
        topkind = "missing" if src0 is None else {"f": "file", "d": "dir", "s": "special"}[src0[0]]
        ctx.case(("tree", case["dir"], chunk, repr(flt), case["ign"], digest(src0), digest(dst0)),
                 nontrivial=(count_entries(src0) >= 2 or (topkind == "file" and len(src0[1]) >= 1)), sample=small(case))
        ctx.count("tree:" + case["dir"])
        ctx.count("tree:top:" + topkind)
        ctx.count("tree:filter:" + (flt[0] if flt[0] != "obj" else ("object-truthy:" if flt[1] else "object-falsy:") + flt[2][0]))
        ctx.count("tree:dst:" + ("absent" if dst0 is None else "existing"))
        ctx.count("tree:chunk:" + (str(chunk) if chunk in CHUNKS or chunk == 0 else "random"))
        # --- oracle
        in_domain = chunk >= 1 and topkind in ("file", "dir")
        conflict = False
        if in_domain:
            try:
                exp = expected_dst(src0, dst0, flt)
            except Conflict:
                conflict = True
                ctx.count("tree:excluded:file-meets-directory")
        if in_domain and not conflict:
            where = "%s chunk_size=%d filter=%s" % (case["dir"], chunk, flt[0])
            if out[0] != "ok":
                ctx.violation("tree:%s:%s" % (case["dir"], "hang" if out[0] == "hang" else "unexpected-exception:" + str(out[1])), case,
                              observed=out, expected="returns", what=where + " raised/hung on a valid tree")
            else:
                d = first_difference(exp, dst1)
                if d and is_falsy_object(flt) and dst1 == unfiltered_dst(src0, dst0):
                    ctx.violation("falsy-filter-treated-as-no-filter", case, observed={"at": d[1], "destination": brief(dst1)},
                                  expected={"destination": brief(exp)},
                                  what="%s with a callable filter object that is false in a boolean context (e.g. an empty callable set of accepted names) "
                                       "copies the entries the filter rejects: `not filter or filter(fn)` tests the object's truth value instead of `filter is None`"
                                       % case["dir"])
                elif d:
                    ctx.violation("tree:%s:%s" % (case["dir"], d[0]), case, observed={"at": d[1], "destination": brief(dst1)},
                                  expected={"destination": brief(exp)},
                                  what=where + ": destination differs from the filtered source at " + (d[1] or "/"))
            if src1 != src0:
                ctx.violation("tree:%s:source-modified" % case["dir"], case, observed=brief(src1), expected=brief(src0),
                              what=where + ": the source tree changed")
        else:
            ctx.count("tree:outside-domain")
        # --- correspondence
        if res is not None:
            ctx.model_traces += 1
            m = res[i]
            mk = m[0].decode()
            if mk == "ok":
                ml, mr = canon_of_sx(m[1][0]), canon_of_sx(m[1][1])
                il, ir = (src1, dst1) if up else (dst1, src1)
                if out[0] != "ok" or ml != il or mr != ir:
                    dd = first_difference(mr if up else ml, dst1)
                    ctx.tie_broken("correspondence:transfer", "%s: impl %r, model ok; first difference %r" % (small(case), out, dd))
            elif mk == "exc":
                want = {"OtherError": "OSError"}.get(m[1].decode(), m[1].decode())
                if out != ("exc", want):
                    ctx.tie_broken("correspondence:transfer", "%s: impl %r, model raises %s" % (small(case), out, want))
            else:
                ctx.tie_broken("correspondence:transfer", "%s: model %s" % (small(case), mk))


def check_prune(ctx, model, r, n):
    """the Coq [prune] (the spec function of the theorems) against the harness's own reading of the property"""
    if not model:
        return
    cases, exps = [], []
    for _ in range(n):
        t = gen_tree(r, r.choice([1, 2, 3]), r.choice([1, 2, 3, 4]), [0])
        flt = gen_filter(r, t)
        c = canon_of_case(t)
        cases.append(["prune", sx_filter(flt), _sx_node(c)])
        exps.append(expected_dst(c, None, flt))
    res = model.batch(cases)
    for m, e, c in zip(res, exps, cases):
        ctx.model_traces += 1
        if not m[0] or _canon_node(m[1]) != e:
            ctx.tie_broken("correspondence:prune", "model prune differs from the oracle's filtered tree")
            break


def run(ctx):
    r = ctx.rng
    model = C.Model("files")
    model = model if model.available() else None
    n_file, n_tree, n_prune = (420, 700, 300) if ctx.quick else (6000, 9000, 4000)
    ctx.coverage_extra["rule"] = ("file cases: every chunk in {1,2,3,7,64,4096,64000} and random chunks x sizes {0,1,c-1,c,c+1,2c-1,2c,2c+1,3c,random}, "
                                  "upload_file/download_file with instrumented file objects; tree cases: random trees (depth <= 4, fan-out <= 5, empty dirs and files, "
                                  "fifos/dangling links, unicode/space/dot names, sizes around multiples of the chunk), filters None / functions reject/only/suffix/maxlen / "
                                  "callable objects with a truth value (true or false), "
                                  "35% into an overlapping existing destination, malformed: missing/special top, chunk 0, file-vs-directory conflicts; "
                                  "non-trivial = file of >= 1 byte, or tree with >= 2 entries; distinct by (direction, chunk, filter, content digests)")
    rig = Rig()
    deep = ["d", []]
    for _ in range(4):
        deep = ["d", [["e", deep]]]
    try:
        fixed = [
            {"kind": "tree", "dir": "upload", "chunk": 3, "ign": False, "filter": ["suffix", ".pyc"], "dst": None,
             "src": ["d", [["a", ["d", [["empty", ["f", 1, 0, 0]], ["one", ["f", 2, 1, 0]], ["b", ["d", [["exact", ["f", 3, 9, 0]]]]],
                                         ["fifo", ["s", "fifo"]], ["skip.pyc", ["f", 4, 7, 0]]]]],
                           ["emptydir", ["d", []]], ["skip.pyc", ["d", [["inner", ["f", 5, 7, 0]]]]], ["f", ["f", 6, 7, 2]]]]},
            {"kind": "tree", "dir": "download", "chunk": 64000, "ign": False, "filter": ["none"], "dst": None,
             "src": ["d", [["big", ["f", 7, 128001, 0]], ["e", deep]]]},
            {"kind": "tree", "dir": "upload", "chunk": 1, "ign": False, "filter": ["only", []], "dst": None, "src": ["d", [["a", ["f", 8, 3, 0]]]]},
            {"kind": "tree", "dir": "download", "chunk": 2, "ign": False, "filter": ["none"], "src": ["f", 9, 5, 0], "dst": ["f", 10, 50, 1]},
            {"kind": "tree", "dir": "upload", "chunk": 5, "ign": False, "filter": ["obj", False, ["only", []]], "dst": None,
             "src": ["d", [["secret.key", ["f", 11, 6, 0]], ["sub", ["d", [["x", ["f", 12, 1, 0]]]]]]]},
        ]
        check_trees(ctx, model, rig, fixed)
        check_files(ctx, model, rig, [gen_file_case(r, i) for i in range(n_file)])
        step = 500
        done = 0
        while done < n_tree:
            k = min(step, n_tree - done)
            check_trees(ctx, model, rig, [gen_case(r, done + j) for j in range(k)])
            done += k
        check_prune(ctx, model, r, n_prune)
    finally:
        rig.close()


def replay(ctx, rep):
    case = rep.get("case")
    if not case:
        return
    model = C.Model("files")
    model = model if model.available() else None
    rig = Rig()
    try:
        if case.get("kind") == "file":
            check_files(ctx, model, rig, [case])
        else:
            check_trees(ctx, model, rig, [case])
    finally:
        rig.close()
