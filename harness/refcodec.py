"""Independent reference implementation of the published rpyc 5.x wire format (values, frames, messages).
Written from the format description only; imports nothing from rpyc.  `form` selects among the encodings the
format admits for the same value: "short" (canonical), "l1" (one-byte count wherever legal), "l4" (four-byte count); a callable
is asked afresh at every node (the form then varies inside one value, as any conforming encoder is free to do)."""
import struct, zlib

IMM = {i: bytes([i + 0x50]) for i in range(-0x30, 0xa0)}
MSG_REQUEST, MSG_REPLY, MSG_EXCEPTION = 1, 2, 3
LABEL_VALUE, LABEL_TUPLE, LABEL_LOCAL_REF, LABEL_REMOTE_REF = 1, 2, 3, 4
H = dict(PING=1, CLOSE=2, GETROOT=3, GETATTR=4, DELATTR=5, SETATTR=6, CALL=7, CALLATTR=8, REPR=9, STR=10, CMP=11, HASH=12,
         DIR=13, PICKLE=14, DEL=15, INSPECT=16, BUFFITER=17, OLDSLICING=18, CTXEXIT=19, INSTANCECHECK=20)
THRESHOLD = 3000


def _count(n, form, tags):
    """tags = (t0, t1, t2, t3, t4, tL1, tL4)"""
    if form == "short" and n <= 4:
        return bytes([tags[n]])
    if form in ("short", "l1") and n < 256:
        return bytes([tags[5], n])
    return bytes([tags[6]]) + struct.pack(">I", n)


STR_TAGS = (0x01, 0x0a, 0x0b, 0x0c, 0x0d, 0x0e, 0x0f)
TUP_TAGS = (0x02, 0x10, 0x11, 0x12, 0x13, 0x14, 0x15)


def enc(v, form="short", ext_surrogates=True):
    if callable(form):
        every, form = form, form()
    else:
        every = form
    t = type(v)
    if v is None: return b"\x00"
    if v is NotImplemented: return b"\x05"
    if v is Ellipsis: return b"\x06"
    if t is bool: return b"\x03" if v else b"\x04"
    if t is int:
        if v in IMM and form == "short": return IMM[v]
        s = str(v).encode("ascii")
        return (b"\x16" + bytes([len(s)]) if (len(s) < 256 and form != "l4") else b"\x17" + struct.pack(">I", len(s))) + s
    if t is float: return b"\x18" + struct.pack(">d", v)
    if t is complex: return b"\x1b" + struct.pack(">dd", v.real, v.imag)
    if t is bytes: return _count(len(v), form, STR_TAGS) + v
    # published: text is UTF-8 (strict; pass ext_surrogates=False to insist, as C19's value phase does for the published value domain).
    # ext_surrogates=True (default, for harnesses that build hostile or arbitrary messages) is the repaired tree's extension for text that UTF-8 cannot express
    # (lone surrogates, finding F1): such text is outside the published value domain and is never emitted by a conforming peer
    if t is str: return b"\x08" + enc(v.encode("utf-8", "surrogatepass" if ext_surrogates else "strict"), every)
    if t is tuple: return _count(len(v), form, TUP_TAGS) + b"".join(enc(x, every, ext_surrogates) for x in v)
    if t is frozenset: return b"\x1a" + enc(tuple(v), every, ext_surrogates)
    if t is slice: return b"\x19" + enc((v.start, v.stop, v.step), every, ext_surrogates)
    raise TypeError(t)


def dec(bs, pos=0):
    tag = bs[pos]; pos += 1
    if 0x20 <= tag < 0xf0: return tag - 0x50, pos
    if tag == 0x00: return None, pos
    if tag == 0x05: return NotImplemented, pos
    if tag == 0x06: return Ellipsis, pos
    if tag == 0x03: return True, pos
    if tag == 0x04: return False, pos
    if tag == 0x01: return b"", pos
    if tag == 0x02: return (), pos
    if 0x0a <= tag <= 0x0d:
        n = tag - 0x09; return bs[pos:pos + n], pos + n
    if tag == 0x0e:
        n = bs[pos]; return bs[pos + 1:pos + 1 + n], pos + 1 + n
    if tag == 0x0f:
        n = struct.unpack(">I", bs[pos:pos + 4])[0]; return bs[pos + 4:pos + 4 + n], pos + 4 + n
    if tag == 0x08:
        b, pos = dec(bs, pos); return b.decode("utf-8", "surrogatepass"), pos
    if 0x10 <= tag <= 0x15:
        if tag <= 0x13: n = tag - 0x0f
        elif tag == 0x14: n = bs[pos]; pos += 1
        else: n = struct.unpack(">I", bs[pos:pos + 4])[0]; pos += 4
        out = []
        for _ in range(n):
            x, pos = dec(bs, pos); out.append(x)
        return tuple(out), pos
    if tag == 0x16:
        n = bs[pos]; return int(bs[pos + 1:pos + 1 + n]), pos + 1 + n
    if tag == 0x17:
        n = struct.unpack(">I", bs[pos:pos + 4])[0]; return int(bs[pos + 4:pos + 4 + n]), pos + 4 + n
    if tag == 0x18: return struct.unpack(">d", bs[pos:pos + 8])[0], pos + 8
    if tag == 0x1b: return complex(*struct.unpack(">dd", bs[pos:pos + 16])), pos + 16
    if tag == 0x19:
        t, pos = dec(bs, pos); return slice(*t), pos
    if tag == 0x1a:
        t, pos = dec(bs, pos); return frozenset(t), pos
    raise ValueError("unknown tag %#x" % tag)


def frame(payload, compress):
    body = zlib.compress(payload, 1) if compress else payload
    return struct.pack(">IB", len(body), 1 if compress else 0) + body + b"\n"


def canonical_frame_flag(payload, compress_enabled=True):
    return compress_enabled and len(payload) > THRESHOLD


def unframe(buf):
    """-> (payload, rest) or None if incomplete"""
    if len(buf) < 5: return None
    n, flag = struct.unpack(">IB", buf[:5])
    if len(buf) < 5 + n + 1: return None
    body = bytes(buf[5:5 + n])
    return (zlib.decompress(body) if flag else body), flag, buf[5 + n + 1:], buf[5 + n:5 + n + 1]


def msg(kind, seq, args, form="short"):
    return enc((kind, seq, args), form)
