"""C05 — packets arrive whole, in order and unaltered however the transport fragments.
Real Channel over SocketStream(FakeSock) and PipeStream(fake os.read/os.write) driven by a scripted
transport oracle; same cases through model/Channel.v; oracle = the property's own statement."""
import errno, socket, sys, types, zlib, os as real_os
from harness import common as C

META = {
    "level": "proof",
    "level_text": "Theorems in props/C05.v over the model of Channel.send/recv and the stream read/write loops: for every packet sequence, either compression "
                  "setting on either side, every split of writes and reads and every interleaving of timeouts/would-blocks the receiver gets exactly the packets sent; "
                  "for every cut point or transport error it gets an exact prefix of whole packets; the CLOSED state is model/ChannelS.v (sessions: any sequence of sends and receives on "
                  "one stream, both directions): an operation on an open stream reports EOFError exactly when it leaves the stream closed, after the first EOFError every later operation "
                  "fails with EOFError and the transport is exactly as it was (c05_closed_stream_is_final, c05_eof_iff_closed, c05_open_until_eof: these three are properties of the session "
                  "wrapper, which closes exactly where it reports EOFError - what links 'closed' to stream.py is the differential run of sessions, including zlib errors that leave the stream open), an undescribable packet is refused "
                  "without touching anything; generated sessions run on the real classes and through the model (outcome of every operation, closed flag, bytes on the wire, transport "
                  "events and bytes left must coincide); under ANY write behaviour (partial sends, "
                  "failure after any byte) the wire holds a prefix of the frame - all of it exactly when send returned - and a reader of that wire gets whole leading "
                  "packets only (c05_writer_any_transport, c05_writer_fault_seen_by_reader). zlib is a section variable with "
                  "decompress(compress x) = x. Threshold/chunk/header/flusher, the comparison operators and the pipe-tolerance fact are regenerated from channel.py/stream.py/consts.py; the read/write/send/recv loops themselves are hand-written in the model and pinned to the source by text snapshots of every method of both stream classes, Stream, Channel and compat.get_exc_errno (any edit breaks the tie) plus the differential run; the "
                  "extracted model is compared with the real classes over scripted fake sockets and pipes.",
    "level_note": "Trusted: Coq kernel, pygen, extraction+driver, harness fakes (FakeSock, fake os.read/os.write); zlib round-trip is an explicit hypothesis; kernel "
                  "buffering/select/poll and Win32 pipes are outside the model; so are ASYNCHRONOUS exceptions raised inside a read (KeyboardInterrupt / a signal handler's "
                  "exception after part of a frame was consumed leaves the stream open and desynchronised: not a transport event of the quantifier); a write timeout is fatal by design (property only promises tolerance while reading); tolerance of would-block on PIPES is the generated fact PipeStream_read_tolerates_wouldblock (F45: fixed).",
    "technique": "Coq proof by induction over packets and transport-oracle events; regenerated parameters; differential correspondence over fake transports",
    "gen": ["consts", "channel", "stream"],
    "shapes": ["channel.*", "stream.*"],
    "models": ["channel"],
    "model_files": ["Channel", "ChannelS"],
    "assumptions": ["zlib.decompress(zlib.compress(x, level)) == x (Section hypothesis in the theorems; exercised on every compressed case)",
                    "socket oracle: recv returns 1..requested bytes or b'' only at end of stream; send accepts >= 1 byte or raises"],
}

from rpyc.core import channel as chmod, stream as stmod
from rpyc.core.channel import Channel
from rpyc.core.stream import SocketStream, PipeStream

SIZES = [0, 1, 2, 5, 6, 100, 2999, 3000, 3001, 3002, 5000, 63990, 63993, 63994, 63995, 63996, 64000, 64001, 64005, 64006, 70000, 127999, 128000, 128001]


class FakeSock:
    def __init__(self, revs=(), wevs=(), avail=b""):
        self.revs, self.wevs, self.avail = list(revs), list(wevs), bytearray(avail)
        self.wire = bytearray()
        self.sent_lens = []
        self.closed_ = False

    def recv(self, n):
        if self.closed_:
            raise OSError(errno.EBADF, "closed")
        if not self.revs:
            out = bytes(self.avail[:n]); del self.avail[:n]; return out
        ev = self.revs.pop(0)
        if ev[0] == 0:
            if not self.avail:
                return b""
            k = max(1, min(ev[1], n, len(self.avail)))
            out = bytes(self.avail[:k]); del self.avail[:k]; return out
        if ev[0] == 1:
            raise socket.timeout("timed out")
        if ev[0] == 2:
            raise socket.error(errno.EAGAIN, "would block")
        if ev[0] == 3:
            raise socket.error(errno.ECONNRESET, "reset")
        return b""

    def send(self, data):
        if self.closed_:
            raise OSError(errno.EBADF, "closed")
        self.sent_lens.append(len(data))
        if not self.wevs:
            self.wire += data; return len(data)
        ev = self.wevs.pop(0)
        if ev[0] == 0:
            k = max(1, min(ev[1], len(data)))
            self.wire += data[:k]; return k
        # a failing write: EPIPE by default, or the errno the event names (EIO, ENOSPC, EAGAIN on a full non-blocking pipe, ...): every
        # one of them ends the stream (EOFError) - the property promises tolerance while READING only
        code = ev[1] if len(ev) > 1 else errno.EPIPE
        if code == errno.EAGAIN:
            raise BlockingIOError(code, real_os.strerror(code))
        raise OSError(code, real_os.strerror(code))

    def shutdown(self, how): pass
    def close(self): self.closed_ = True
    def fileno(self): return 99


class FakeFile:
    def __init__(self, fd): self.fd, self.c = fd, False
    def fileno(self): return self.fd
    def flush(self): pass
    def close(self): self.c = True


class FakeOS:
    """stands in for the `os` module inside rpyc.core.stream while a pipe case runs"""

    def __init__(self, sock): self.sock = sock
    def __getattr__(self, n): return getattr(real_os, n)

    def read(self, fd, n):
        try:
            return self.sock.recv(n)
        except socket.timeout:
            raise BlockingIOError(errno.EAGAIN, "would block")

    def write(self, fd, data): return self.sock.send(bytes(data))


def PIPE_TOLERANT():
    """generated fact: does PipeStream.read of the tree under test retry on EAGAIN/EWOULDBLOCK?"""
    return C.gen_fact("stream", "PipeStream_read_tolerates_wouldblock")


def make_stream(kind, fs):
    if kind == "sock":
        return SocketStream(fs)
    return PipeStream(FakeFile(10), FakeFile(11))


def payload(r, n):
    c = r.random()
    if c < 0.4:
        return bytes([r.randrange(256)]) * n          # compressible
    if c < 0.7:
        return r.randbytes(n)                          # incompressible
    blk = r.randbytes(37)
    return (blk * (n // 37 + 1))[:n]


def gen_revs(r, total):
    c = r.random()
    if c < 0.15:
        return []
    n = r.choice([3, 10, 40, 200])
    out = []
    for _ in range(n):
        d = r.random()
        if d < 0.6:
            out.append([0, r.choice([1, 1, 2, 3, 4, 5, 6, 7, 100, 1000, 63999, 64000, 10**6])])
        elif d < 0.8:
            out.append([1])
        else:
            out.append([2])
    return out


def gen_wevs(r):
    if r.random() < 0.3:
        return []
    return [[0, r.choice([1, 2, 3, 5, 6, 100, 1000, 63994, 63999, 64000, 10**6])] for _ in range(r.choice([2, 8, 30]))]


def params():
    return [Channel.COMPRESSION_THRESHOLD, SocketStream.MAX_IO_CHUNK, Channel.FRAME_HEADER.size, Channel.FLUSHER]


class ZSpy:
    """records every zlib call made by rpyc.core.channel so the model gets exactly the same oracle"""

    def __init__(self): self.c, self.d = {}, {}

    def compress(self, data, level=-1):
        out = zlib.compress(data, level); self.c[bytes(data)] = out; self.d[out] = bytes(data); return out

    def decompress(self, data):
        try:
            out = zlib.decompress(data)
        except zlib.error:
            raise
        self.d[bytes(data)] = out; return out
    error = zlib.error


def impl_send(kind, cmp, wevs, pkts):
    fs = FakeSock(wevs=wevs)
    st = make_stream(kind, fs)
    ch = Channel(st, compress=cmp)
    spy = ZSpy()
    old_z, old_os = chmod.zlib, stmod.os
    chmod.zlib = spy
    if kind == "pipe":
        stmod.os = FakeOS(fs)
    res = []
    bounds = []
    try:
        for p in pkts:
            try:
                ch.send(p); res.append("ok"); bounds.append(len(fs.wire))
            except EOFError:
                res.append("EOFError"); break
            except Exception as e:
                res.append(C.exc_enum(e)); break
    finally:
        chmod.zlib, stmod.os = old_z, old_os
    spy.bounds = bounds
    return res, bytes(fs.wire), st.closed, fs.sent_lens, spy


def impl_recvall(kind, revs, wire, limit=10**6, cmp_r=True):
    fs = FakeSock(revs=revs, avail=wire)
    st = make_stream(kind, fs)
    ch = Channel(st, compress=cmp_r)
    spy = ZSpy()
    old_z, old_os = chmod.zlib, stmod.os
    chmod.zlib = spy
    if kind == "pipe":
        stmod.os = FakeOS(fs)
    got, end = [], None
    try:
        while len(got) < limit:
            try:
                got.append(ch.recv())
            except EOFError:
                end = "EOFError"; break
            except zlib.error:
                end = "ZlibError"; break
            except Exception as e:
                end = C.exc_enum(e); break
        # after the end: the channel reports closed, and every further recv / send fails with EOFError at once, touching nothing
        if end == "EOFError":
            consumed = len(fs.avail) if hasattr(fs, "avail") else None
            again = []
            for op in (lambda: ch.recv(), lambda: ch.send(b"late"), lambda: ch.recv()):
                try:
                    op(); again.append("returned")
                except EOFError:
                    again.append("EOFError")
                except Exception as e:
                    again.append(C.exc_enum(e))
            AFTER_END.append((again, bool(ch.closed), consumed == (len(fs.avail) if hasattr(fs, "avail") else None)))
    finally:
        chmod.zlib, stmod.os = old_z, old_os
    return got, end, st.closed, spy


AFTER_END = []


def tbl(d):
    return [[k, v] for k, v in d.items()]


def run_cases(ctx, model, cases):
    """case = dict(kind, cmp_s, wevs, revs, pkts, cut, corrupt)"""
    P = params()
    mcases, plan = [], []
    for cs in cases:
        kind, pkts = cs["kind"], cs["pkts"]
        sres, wire, sclosed, lens, spy = impl_send(kind, cs["cmp_s"], [list(e) for e in cs["wevs"]], pkts)
        nsent_ok = sres.count("ok")
        fault_w = any(e[0] != 0 for e in cs["wevs"])
        # -------- sender-side oracle
        if not fault_w:
            if sres != ["ok"] * len(pkts) or sclosed:
                ctx.violation("send-fails-without-fault:" + kind, cs, observed=sres, expected="all ok", what="send raised although the transport accepted every write")
            else:
                # what is on the wire, read by the independent reference framing: exactly one whole frame per packet (header, body, trailer), nothing else
                from harness import refcodec as R
                buf, got_frames = bytes(wire), []
                try:
                    while buf:
                        u = R.unframe(buf)
                        if u is None:
                            got_frames.append("incomplete:%d bytes left" % len(buf)); break
                        got_frames.append((u[0], u[3]))
                        buf = u[2]
                except Exception as e:
                    got_frames.append("unreadable:" + type(e).__name__)
                if got_frames != [(p_, b"\n") for p_ in pkts]:
                    bad = next((i for i, (g, p_) in enumerate(zip(got_frames + [None] * len(pkts), pkts)) if g != (p_, b"\n")), len(pkts))
                    ctx.violation("wire-is-not-one-frame-per-packet:" + kind, cs, observed={"frames_read": len(got_frames), "first_bad": bad, "what": str(got_frames[bad])[:60] if bad < len(got_frames) else "missing"},
                                  expected="%d frames, each length + flag + body + newline" % len(pkts), what="the bytes sent do not parse as one published frame per packet (a reader is mis-framed from there on)")
        else:
            if "EOFError" in sres and not sclosed:
                ctx.violation("send-eof-but-stream-open:" + kind, cs, observed=sres, expected="closed stream", what="write failure raised EOFError but left the stream open")
            if any(x not in ("ok", "EOFError") for x in sres):
                ctx.violation("send-wrong-exception:" + kind, cs, observed=sres, expected="EOFError", what="write failure surfaced as something other than EOFError")
        # model: per-packet send with threaded events is checked packet by packet on fresh event lists (first packet only carries events)
        for i, p in enumerate(pkts[:nsent_ok + 1] if i_ok(sres) else pkts):
            pass
        # receiver
        w = wire
        if cs.get("cut") is not None:
            w = w[:cs["cut"]]
        if cs.get("corrupt") is not None and w:
            i, v = cs["corrupt"]; i %= len(w); w = w[:i] + bytes([v]) + w[i + 1:]
        got, end, rclosed, rspy = impl_recvall(kind if not cs.get("rkind") else cs["rkind"], [list(e) for e in cs["revs"]], w, cmp_r=cs.get("cmp_r", True))
        rk = cs.get("rkind") or kind
        # the property: transient would-block / timeout conditions while reading are tolerated on sockets AND pipes
        tolerant = True if rk == "sock" else PIPE_TOLERANT()          # what the model is told about this tree (generated fact)
        fault_r = any(e[0] in (3, 4) for e in cs["revs"])             # what the oracle counts as a fault: hard errors and end of stream only
        sent_ok = pkts[:nsent_ok]
        # -------- receiver-side oracle (the property's statement)
        if cs.get("corrupt") is None:
            if end not in ("EOFError",):
                ctx.violation("recv-ends-with-%s:%s" % (end, rk), cs, observed=end, expected="EOFError at end of stream", what="stream end/failure did not surface as EOFError")
            if not rclosed:
                ctx.violation("recv-eof-but-stream-open:" + rk, cs, observed="open", expected="closed", what="EOFError raised but stream left open")
            if AFTER_END:
                again, chclosed, untouched = AFTER_END.pop()
                del AFTER_END[:]
                if again != ["EOFError"] * 3 or not chclosed or not untouched:
                    ctx.violation("use-after-end-not-EOFError:" + rk, cs, observed={"recv/send/recv": again, "channel.closed": chclosed, "transport untouched": untouched},
                                  expected="EOFError three times, closed, nothing read or written", what="after the stream ended a further recv/send did not fail with EOFError at once")
            if got != pkts[:len(got)]:
                ctx.violation("recv-altered-packet:" + rk, cs, observed=[len(g) for g in got], expected=[len(p) for p in pkts],
                              what="a received packet differs from the one sent at that position (shortened, padded, merged or corrupted)")
            elif not fault_r and not fault_w and cs.get("cut") is None and got != pkts:
                ctx.violation("recv-lost-packets:" + rk, cs, observed=len(got), expected=len(pkts), what="not every packet was received although nothing failed")
            elif cs.get("cut") is not None and not fault_r and not fault_w:
                # exactly the packets wholly before the cut
                want = sum(1 for b in spy.bounds if b <= cs["cut"])
                if len(got) != want:
                    ctx.violation("recv-cut-wrong-count:" + rk, cs, observed=len(got), expected=want, what="a cut stream did not deliver exactly the packets wholly before the cut")
        key = (kind, rk, cs["cmp_s"], cs.get("cmp_r", True), tuple(len(p) for p in pkts), len(cs["wevs"]), len(cs["revs"]), cs.get("cut"), cs.get("corrupt"))
        ctx.case(key + (tuple(map(tuple, cs["revs"][:6])),), nontrivial=bool(pkts) and (bool(cs["revs"]) or bool(cs["wevs"]) or cs.get("cut") is not None),
                 sample={"kind": kind, "sizes": [len(p) for p in pkts], "compress": cs["cmp_s"], "wevs": cs["wevs"][:4], "revs": cs["revs"][:4],
                         "cut": cs.get("cut"), "received": len(got), "end": end})
        ctx.count("kind:" + kind); ctx.count("end:" + str(end))
        ctx.count("fault:" + ("w" if fault_w else "") + ("r" if fault_r else "") + ("cut" if cs.get("cut") is not None else "") or "none")
        for p in pkts:
            ctx.count("size:" + ("0" if not p else "<=thr" if len(p) <= P[0] else "<=chunk" if len(p) + 6 <= P[1] else ">chunk"))
        if model is None:
            continue
        # -------- model cases: (a) first packet's writes and wire under the write oracle, (b) receive-all of the wire
        if pkts:
            mcases.append(["writes", P, tbl(spy.c), [], cs["cmp_s"], [], pkts[0]])
            mcases.append(["send", P, tbl(spy.c), [], cs["cmp_s"], cs["wevs"], pkts[0]])
            plan.append(("send", cs, (sres, wire, lens, len(pkts))))
        mcases.append(["recvall", P, [], tbl(rspy.d), tolerant, cs["revs"], w])
        plan.append(("recv", cs, (got, end)))
    if model is None:
        return
    outs = model.batch(mcases)
    j = 0
    for what, cs, exp in plan:
        if what == "send":
            mw, ms = outs[j], outs[j + 1]; j += 2
            ctx.model_traces += 1
            sres, wire, lens, npk = exp
            if mw[0] == b"ok":
                mlens = [len(x) for x in mw[1] if len(x) > 0] if False else [len(x) for x in mw[1]]
                # the implementation's send() calls for packet 0 under a quiet transport: each write is offered in <= chunk slices
                if not cs["wevs"] and npk >= 1:
                    exp_lens = []
                    for x in mw[1]:
                        n = len(x)
                        while n > 0:
                            exp_lens.append(min(n, params()[1])); n -= min(n, params()[1])
                    # compare only the first packet's calls
                    if lens[:len(exp_lens)] != exp_lens:
                        ctx.tie_broken("correspondence:write-split", "sizes %s model %s impl %s" % ([len(p) for p in cs["pkts"]], exp_lens, lens[:len(exp_lens) + 2]))
            if ms[0] == b"ok":
                ok, mwire = bool(ms[1]), ms[2]
                impl_ok = sres[0] == "ok"
                if ok != impl_ok:
                    ctx.tie_broken("correspondence:send-outcome", "model ok=%s impl %s case %s" % (ok, sres[:2], short_case(cs)))
                elif npk == 1 and mwire != wire:
                    ctx.tie_broken("correspondence:wire-bytes", "model %d bytes impl %d bytes case %s" % (len(mwire), len(wire), short_case(cs)))
                elif npk > 1 and ok and wire[:len(mwire)] != mwire:
                    ctx.tie_broken("correspondence:wire-bytes", "first frame differs, case %s" % short_case(cs))
            else:
                ctx.tie_broken("correspondence:send", "model answered %r" % (ms[:2],))
        else:
            m = outs[j]; j += 1
            ctx.model_traces += 1
            got, end = exp
            if m[0] != b"ok":
                ctx.tie_broken("correspondence:recvall", "model answered %r" % (m[:1],)); continue
            mg, mz = m[1], bool(m[2])
            if mg != got or mz != (end == "ZlibError"):
                ctx.tie_broken("correspondence:recvall", "model %s zlib=%s impl %s end=%s case %s" % ([len(x) for x in mg], mz, [len(x) for x in got], end, short_case(cs)))


def i_ok(sres):
    return True


def short_case(cs):
    return {k: (v if k != "pkts" else [len(p) for p in v]) for k, v in cs.items() if k != "revs" and k != "wevs"} | {"revs": cs["revs"][:5], "wevs": cs["wevs"][:5]}


def gen_case(r, big):
    kind = r.choice(["sock", "sock", "pipe"])
    n = r.choice([0, 1, 1, 2, 3, 5])
    sizes = [r.choice(SIZES if big else SIZES[:11]) if r.random() < 0.8 else r.randint(0, 9000) for _ in range(n)]
    if sizes and big and r.random() < 0.7:
        sizes.append(r.choice([1, 5, 100]))         # something always follows: a frame that loses or gains a byte shows on the next one
    pkts = [payload(r, s) for s in sizes]
    cs = {"kind": kind, "cmp_s": r.random() < 0.6, "pkts": pkts, "wevs": gen_wevs(r), "revs": gen_revs(r, sum(sizes)), "cut": None, "corrupt": None,
          "rkind": r.choice(["sock", "sock", "pipe"]), "cmp_r": r.random() < 0.6}
    c = r.random()
    if c < 0.25:
        cs["cut"] = r.randint(0, sum(sizes) + 6 * n + 2)
    elif c < 0.35:
        cs["revs"].insert(r.randint(0, len(cs["revs"])), [r.choice([3, 4])])
    elif c < 0.42:
        cs["wevs"].insert(r.randint(0, len(cs["wevs"])), [1, r.choice([errno.EPIPE, errno.EIO, errno.ENOSPC, errno.EAGAIN, errno.ECONNRESET])])
    elif c < 0.47:
        cs["corrupt"] = [r.randrange(10**6), r.randrange(256)]
    if cs["rkind"] == "pipe" and r.random() < 0.7:
        cs["revs"] = [e for e in cs["revs"] if e[0] == 0]
    return cs


def enc_case(cs):
    d = dict(cs); d["pkts"] = [p.hex() for p in cs["pkts"]]; return d


def impl_session(kind, cmp, revs, avail, wevs, ops):
    """one real Channel over one fake transport used in both directions; returns (outcomes, closed, wire, events/bytes left, zlib spy,
    what the transport looked like right after the first EOFError)"""
    fs = FakeSock(revs=[list(e) for e in revs], wevs=[list(e) for e in wevs], avail=avail)
    st = make_stream(kind, fs)
    ch = Channel(st, compress=cmp)
    spy = ZSpy()
    old_z, old_os = chmod.zlib, stmod.os
    chmod.zlib = spy
    if kind == "pipe":
        stmod.os = FakeOS(fs)
    outs, at_eof = [], None
    snap = lambda: (bytes(fs.wire), len(fs.revs), len(fs.wevs), len(fs.avail))
    try:
        for op in ops:
            try:
                if op[0] == 0:
                    ch.send(op[1]); outs.append(["sent"])
                else:
                    outs.append(["got", ch.recv()])
            except EOFError:
                outs.append(["eof"])
                if at_eof is None:
                    at_eof = snap()
            except zlib.error:
                outs.append(["zlib"])
            except Exception as e:
                outs.append(["exc", C.exc_enum(e)])
    finally:
        chmod.zlib, stmod.os = old_z, old_os
    return outs, bool(st.closed), snap(), spy, at_eof


def gen_session(r):
    kind = r.choice(["sock", "pipe"])
    cmp = r.random() < 0.5
    # what the peer's side holds for us: whole frames of a few packets, possibly cut, possibly with a corrupted flag byte
    pk = [payload(r, r.choice([0, 1, 5, 100, 2999, 3001, 5000] + ([63994, 64001] if r.random() < 0.15 else []))) for _ in range(r.choice([0, 1, 2, 3]))]
    _, wire, _, _, _ = impl_send("sock", r.random() < 0.5, [], pk)
    if r.random() < 0.3 and len(wire) > 5:
        # a corrupted flag byte in the first frame: an uncompressed body is taken for compressed (zlib error: the stream stays open and the
        # next operation goes on behind the frame) or a compressed one for plain (delivered as it is)
        wire = wire[:4] + bytes([wire[4] ^ 1]) + wire[5:]
    if r.random() < 0.6 and wire:
        wire = wire[:r.randrange(len(wire) + 1)]
    revs = gen_revs(r, len(wire))
    if revs and r.random() < 0.35:
        revs.insert(r.randrange(len(revs) + 1), [r.choice([3, 4])])       # a read error / end of stream event
    wevs = gen_wevs(r)
    if r.random() < 0.35:
        wevs.insert(r.randrange(len(wevs) + 1), [1, r.choice([errno.EPIPE, errno.EIO, errno.ENOSPC, errno.EAGAIN, errno.ECONNRESET])])   # a write error, of any kind
    ops = []
    for _ in range(r.choice([2, 4, 6, 9])):
        ops.append([0, payload(r, r.choice([0, 1, 7, 100, 3001] + ([64000] if r.random() < 0.1 else [])))] if r.random() < 0.45 else [1])
    return {"session": True, "kind": kind, "cmp": cmp, "revs": revs, "avail": wire, "wevs": wevs, "ops": ops}


def enc_session(cs):
    return dict(cs, avail=cs["avail"].hex(), ops=[[0, o[1].hex()] if o[0] == 0 else [1] for o in cs["ops"]])


def dec_session(cs):
    return dict(cs, avail=bytes.fromhex(cs["avail"]), ops=[[0, bytes.fromhex(o[1])] if o[0] == 0 else [1] for o in cs["ops"]])


def session_phase(ctx, model, cases):
    P = params()
    mcases, plan = [], []
    for cs in cases:
        outs, closed, left, spy, at_eof = impl_session(cs["kind"], cs["cmp"], cs["revs"], cs["avail"], cs["wevs"], cs["ops"])
        kinds = [o[0] for o in outs]
        ctx.case(("session", cs["kind"], cs["cmp"], tuple(kinds), len(cs["avail"]), tuple(map(tuple, cs["revs"][:5])), tuple(map(tuple, cs["wevs"][:5]))),
                 nontrivial=len(set(kinds)) > 1, sample={"session": cs["kind"], "ops": ["send %d" % len(o[1]) if o[0] == 0 else "recv" for o in cs["ops"]], "outcomes": kinds, "closed": closed})
        ctx.count("session:" + ("ends-in-eof" if "eof" in kinds else "stays-open")); ctx.count("session-kind:" + cs["kind"])
        if "zlib" in kinds:
            ctx.count("session:with-zlib-error" + (":followed-by-more" if kinds.index("zlib") < len(kinds) - 1 and kinds[kinds.index("zlib") + 1] != "eof" else ""))
        # -------- the statement, on the real classes
        if "eof" in kinds:
            i = kinds.index("eof")
            if any(k != "eof" for k in kinds[i:]) or not closed or at_eof != left:
                ctx.violation("use-after-end-not-EOFError:session:" + cs["kind"], enc_session(cs), observed={"outcomes": kinds, "closed": closed, "transport at first EOFError": repr(at_eof)[:120], "at the end": repr(left)[:120]},
                              expected="EOFError from the first one on, stream closed, transport untouched afterwards", what="after the stream ended a later operation did not fail with EOFError at once, or touched the transport")
        elif closed:
            ctx.violation("closed-without-EOFError:session:" + cs["kind"], enc_session(cs), observed=kinds, expected="open", what="the stream is closed although no operation reported EOFError")
        if model is not None:
            tol = True if cs["kind"] == "sock" else PIPE_TOLERANT()
            mcases.append(["session", P, tbl(spy.c), tbl(spy.d), tol, cs["cmp"], cs["revs"], cs["avail"], cs["wevs"], cs["ops"]])
            plan.append((cs, outs, closed, left))
    if model is not None and mcases:
        for (cs, outs, closed, left), m in zip(plan, model.batch(mcases)):
            ctx.model_traces += 1
            mo = [[x.decode() if i == 0 or o[0] == b"exc" else x for i, x in enumerate(o)] for o in m[1]] if m[0] == b"ok" else m
            want = [[o[0]] + [bytes(x) if isinstance(x, (bytes, bytearray)) else x for x in o[1:]] for o in outs]
            if m[0] != b"ok" or mo != want or bool(m[2]) != closed or (bytes(m[3]), m[4], m[5], m[6]) != left:
                ctx.tie_broken("correspondence:session", "case %s model %s closed %s left %s impl %s closed %s left %s" % (
                    repr(enc_session(cs))[:600], repr(mo)[:200], m[2] if m[0] == b"ok" else "-", repr(m[3:])[:80] if m[0] == b"ok" else "-", repr(want)[:200], closed, repr(left)[:80]))


def run(ctx):
    r = ctx.rng
    model = C.Model("channel"); model = model if model.available() else None
    ctx.coverage_extra["rule"] = ("cases = (stream kind for each side, sender compress flag, 0-5 packets with sizes from the boundary table around threshold/chunk, "
                                  "write oracle, read oracle with partial lengths/timeouts/would-blocks, optional fault: cut at byte k, read error/EOF event, write error, corrupted byte); "
                                  "non-trivial = at least one packet and a non-empty oracle or a cut; distinct by (kinds, sizes, oracle prefix, fault)")
    n = 500 if ctx.quick else 12000
    cases = []
    # corpus: every cut offset of a small two-packet stream, sizes at each boundary alone
    for k in range(0, 30):
        cases.append({"kind": "sock", "rkind": "sock", "cmp_s": False, "pkts": [b"abcdefgh", b"0123456789"], "wevs": [], "revs": [[0, 3]] * 20, "cut": k, "corrupt": None})
    for s in SIZES:
        cases.append({"kind": "sock", "rkind": "pipe", "cmp_s": True, "cmp_r": s % 2 == 0, "pkts": [payload(r, s)], "wevs": [], "revs": [], "cut": None, "corrupt": None})
    for i in range(n):
        cases.append(gen_case(r, big=(i % 6 == 0)))
    # JSON-able cases for replay: keep bytes as hex
    for cs in cases:
        cs["pkts"] = list(cs["pkts"])
    _run(ctx, model, cases)
    # sessions: one stream, both directions, over its whole life (the closed state)
    fixed = [{"session": True, "kind": k, "cmp": True, "revs": [[0, 4], [1]], "avail": impl_send("sock", True, [], [b"a"])[1] + impl_send("sock", True, [], [b"bc"])[1][:3],
              "wevs": [[0, 4], [0, 100], [0, 1]], "ops": [[0, b"z"], [1], [1], [0, b"z"], [1]]} for k in ("sock", "pipe")]
    session_phase(ctx, model, fixed + [gen_session(r) for _ in range(300 if ctx.quick else 8000)])


class _Enc(dict):
    pass


def _run(ctx, model, cases):
    # ctx.violation needs JSON-able cases: wrap
    orig = ctx.violation

    def v(sig, case, **kw):
        return orig(sig, enc_case(case) if isinstance(case, dict) and "pkts" in case else case, **kw)
    ctx.violation = v
    try:
        run_cases(ctx, model, cases)
    finally:
        ctx.violation = orig


def replay(ctx, rep):
    cs = rep["case"]
    if cs.get("session"):
        model = C.Model("channel"); model = model if model.available() else None
        return session_phase(ctx, model, [dec_session(cs)])
    cs["pkts"] = [bytes.fromhex(p) for p in cs["pkts"]]
    model = C.Model("channel"); model = model if model.available() else None
    _run(ctx, model, [cs])
