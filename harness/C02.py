"""C02 — operating on a proxy is indistinguishable from operating on the target.

Every case is a target specification plus a finite sequence of operations.  The sequence is applied
  * through a real netref obtained over a real pair of Connections (harness.memstream.connect_pair) under one of three
    configurations (classic / public-attribute / default), and
  * directly to a twin built from the same specification;
after every step the result (canonical value, or class of the exception) and a deep snapshot of every object reached so far
on the target's side are compared.  The requests the proxy actually put on the wire are decoded with the independent
reference codec and compared with what the extracted Coq model (model/ProxyOps.v: generated routing table, handler
denotations, buffered-iteration schedule) predicts for the same operation."""
import collections, io, itertools, os, re, shutil, sys, tempfile, json
from harness import common as C
from harness import C04 as V
from harness import refcodec as R
from harness.memstream import connect_pair

META = {
    "level": "proof",
    "level_text": "props/C02.v proves, for all operation kinds, names, operand lists and class shapes, that the request a netref builds (routing table "
                  "regenerated from netref.py) is answered by a handler (bodies regenerated from protocol.py) that applies exactly the operation Python "
                  "would apply to the target, with the same operands, under every configuration that permits the names involved; that whole operation "
                  "sequences run through proxies and run on a twin give the same results, exception classes and final heap for any semantics of the "
                  "objects themselves -- an operator with a value operand being the whole binary-operator protocol (own method, NotImplemented, the "
                  "operand's reflected method, identity/TypeError); and that buffered iteration returns exactly the target's sequence for every "
                  "chunk/factor/max_chunk >= 1. Three clauses are conditional on facts regenerated from the tree (failing reads asked once, __exit__ told "
                  "the exception, reflected methods given the target), each with a refutation theorem for a tree without the fact. Class queries: the "
                  "forwarded case (class unknown to the caller) and the by-name case (right iff a name means one class on both sides; refuted for "
                  "namesakes) are theorems, __instancecheck__'s locally decided cases are a _partial theorem. Python's own object semantics is a "
                  "Section parameter, so the distinguishing power for concrete types comes from the differential run: generated operation sequences "
                  "on lists, dicts, sets, bytearrays, deques, iterators, generators, files, user classes, subclasses of int/float/str/tuple/frozenset, "
                  "IntEnum members, families of same-named classes and class objects, proxy versus twin, result and deep state compared after every "
                  "step, wire requests compared with the model.",
    "level_note": "Trusted: Coq kernel, pygen, extraction + driver, harness (target builders, canonicaliser, Python data-model table used to predict "
                  "which special method an operation needs). CPython's object model is the oracle, not modelled. NOT covered by a theorem (harness only): "
                  "the body of _handle_instancecheck (isinstance(x, p) for a proxy x of another class), the interpreter's multi-step fallbacks "
                  "(iteration through __getitem__, x += a through __add__, reflected methods of proxy operands: each step is an operation of its own in "
                  "the model), operations answered by the proxy itself (names in LOCAL_ATTRS: shown never to reach the target), C-level protocols "
                  "(buffer, sq_concat of str/tuple, in-place slots), identity of classes across the connection (names only).",
    "technique": "Coq proof (finite case analysis over generated routing/handler tables, induction over operation sequences with an abstract object "
                 "semantics, induction on remaining items for the chunk schedule) + differential proxy/twin execution with wire-trace validation",
    "gen": ["netref", "consts", "protocol", "attrpolicy"],
    "shapes": ["netref.*"],
    "models": ["proxyops"],
    "model_files": ["ProxyOps"],
    "assumptions": [
        "CPython dispatches an operation on an instance to the special method found on its type (data model); the netref class has a synthesized "
        "method for exactly the callables get_methods() finds on the target's type outside LOCAL_ATTRS",
        "operands are immutable values or objects on the target's side (property text); identity of immutable values is not observable",
        "values and exceptions cross the connection unchanged (C03/C04/C09 are separate properties; here they are hypotheses of the sequence theorem "
        "and are exercised for real by the differential run)",
    ],
}

from rpyc.core import brine, consts, netref, vinegar
from rpyc.core.service import VoidService
from rpyc.utils.helpers import buffiter

HNAME = {v: k for k, v in vars(consts).items() if k.startswith("HANDLE_")}

# ------------------------------------------------------------------------------------------------ configurations

CLASSIC = dict(allow_all_attrs=True, allow_pickle=True, allow_getattr=True, allow_setattr=True, allow_delattr=True,
               allow_exposed_attrs=False, import_custom_exceptions=True, instantiate_custom_exceptions=True,
               instantiate_oldstyle_exceptions=True)
CONFIGS = {"classic": CLASSIC, "public": dict(allow_public_attrs=True), "default": {}}
CFG_IDS = {"classic": 0, "public": 1, "default": 2}


def default_safe_attrs():
    from rpyc.core import protocol
    return protocol.DEFAULT_CONFIG["safe_attrs"]


def name_permitted(cfg, name):
    """the property's reading of the three configurations (independent of _check_attr)"""
    if cfg == "classic":
        return True
    if name in default_safe_attrs() or name.startswith("exposed_"):
        return True
    return cfg == "public" and not name.startswith("_")


def perm_permitted(cfg, perm):
    return perm == "get" or cfg == "classic"


# ------------------------------------------------------------------------------------------------ user classes

class Boom(Exception):
    pass


def _small(b):
    if isinstance(b, (int, float)) and not (abs(b) <= 64):
        raise OverflowError("exponent or shift too large")
    return b


def _cap(v):
    if isinstance(v, int) and abs(v) > 10**50:
        raise OverflowError("number too large for a Vec")
    return v


class Vec(object):
    """operator overloads, properties, methods returning references and values"""

    def __init__(self, xs):
        self.xs = list(xs)
        self.calls = 0
        self._priv = "p"
        self.tag = "t"

    def __repr__(self): return "Vec(%r)" % (self.xs,)
    def __str__(self): return "<" + ",".join(map(str, self.xs)) + ">"
    def __len__(self): return len(self.xs)
    def __iter__(self): return iter(self.xs)
    def __contains__(self, x): return x in self.xs
    def __bool__(self): return any(self.xs)
    def __hash__(self): return hash(tuple(self.xs))
    def __int__(self): return int(sum(self.xs))
    def __float__(self): return float(sum(self.xs))
    def __index__(self): return len(self.xs)

    def __getitem__(self, i):
        r = self.xs[i]
        return Vec(r) if isinstance(i, slice) else r

    def __setitem__(self, i, v):
        if isinstance(v, str):
            raise TypeError("no text in a Vec")
        self.xs[i] = v

    def __delitem__(self, i): del self.xs[i]

    def _lift(self, o, f):
        if isinstance(o, Vec):
            if len(o.xs) != len(self.xs):
                raise ValueError("length mismatch")
            return Vec([_cap(f(a, b)) for a, b in zip(self.xs, o.xs)])
        if isinstance(o, (int, float)) and not isinstance(o, bool):
            return Vec([_cap(f(a, o)) for a in self.xs])
        return NotImplemented

    def __add__(self, o): return self._lift(o, lambda a, b: a + b)
    def __radd__(self, o): return self._lift(o, lambda a, b: b + a)
    def __sub__(self, o): return self._lift(o, lambda a, b: a - b)
    def __rsub__(self, o): return self._lift(o, lambda a, b: b - a)
    def __mul__(self, o): return self._lift(o, lambda a, b: a * b)
    def __rmul__(self, o): return self._lift(o, lambda a, b: b * a)
    def __truediv__(self, o): return self._lift(o, lambda a, b: a / b)
    def __floordiv__(self, o): return self._lift(o, lambda a, b: a // b)
    def __mod__(self, o): return self._lift(o, lambda a, b: a % b)
    def __pow__(self, o): return self._lift(o, lambda a, b: a ** _small(b))
    def __matmul__(self, o):
        if isinstance(o, Vec):
            return sum(a * b for a, b in zip(self.xs, o.xs))
        return NotImplemented

    def __and__(self, o): return self._lift(o, lambda a, b: a & b)
    def __or__(self, o): return self._lift(o, lambda a, b: a | b)
    def __xor__(self, o): return self._lift(o, lambda a, b: a ^ b)
    def __lshift__(self, o): return self._lift(o, lambda a, b: a << _small(b))
    def __rshift__(self, o): return self._lift(o, lambda a, b: a >> b)
    def __neg__(self): return Vec([-a for a in self.xs])
    def __pos__(self): return Vec([+a for a in self.xs])
    def __abs__(self): return Vec([abs(a) for a in self.xs])
    def __invert__(self): return Vec([~a for a in self.xs])

    def __iadd__(self, o):
        r = self._lift(o, lambda a, b: a + b)
        if r is NotImplemented:
            return r
        self.xs = r.xs
        return self

    def __imul__(self, o):
        r = self._lift(o, lambda a, b: a * b)
        if r is NotImplemented:
            return r
        self.xs = r.xs
        return self

    def _key(self, o):
        if isinstance(o, Vec): return o.xs
        if isinstance(o, tuple): return list(o)
        return None

    def __eq__(self, o):
        k = self._key(o)
        return NotImplemented if k is None else self.xs == k

    def __ne__(self, o):
        k = self._key(o)
        return NotImplemented if k is None else self.xs != k

    def __lt__(self, o):
        k = self._key(o)
        return NotImplemented if k is None else self.xs < k

    def __le__(self, o):
        k = self._key(o)
        return NotImplemented if k is None else self.xs <= k

    def __gt__(self, o):
        k = self._key(o)
        return NotImplemented if k is None else self.xs > k

    def __ge__(self, o):
        k = self._key(o)
        return NotImplemented if k is None else self.xs >= k

    def __call__(self, *a, **k):
        self.calls += 1
        return (len(a), a[:2], tuple(sorted(k)))

    # plain methods
    def scale(self, k, offset=0):
        self.xs = [a * k + offset for a in self.xs]
        return len(self.xs)

    def items_ref(self): return self.xs            # a reference to a mutable object on the target's side
    def items_val(self): return tuple(self.xs)     # a value
    def pair(self): return (self.tag, self.xs)     # a tuple holding a reference
    def clone(self): return Vec(self.xs)

    def boom(self, name, partial=False):
        if partial:
            self.xs.append(0)
        raise EXC[name]("boom " + name)

    def _hidden(self): return "hidden"

    @property
    def norm(self): return sum(abs(a) for a in self.xs)

    @property
    def flaky(self):
        """a getter with an effect that then fails the way a missing attribute does"""
        self.calls += 1
        raise AttributeError("flaky is not available")

    @property
    def top(self):
        if not self.xs:
            raise IndexError("empty Vec")
        return self.xs[-1]

    @top.setter
    def top(self, v):
        if not isinstance(v, (int, float)):
            raise TypeError("top must be a number")
        if not self.xs:
            raise ValueError("empty Vec")
        self.xs[-1] = v

    @top.deleter
    def top(self):
        self.xs.pop()


def class_id(t):
    """an exception class up to the stand-ins vinegar makes for classes it may not instantiate (C09's business)"""
    if t is None:
        return None
    if issubclass(t, vinegar.GenericException):
        return t.__name__
    return "%s.%s" % (t.__module__, t.__name__)


class CM(object):
    """context manager that records what it is told and swallows one class of exception"""

    def __init__(self, swallow, fail_enter=False, fail_exit=False):
        self.swallow, self.fail_enter, self.fail_exit = swallow, fail_enter, fail_exit
        self.log = []
        self.depth = 0

    def __enter__(self):
        if self.fail_enter:
            self.log.append("enter-failed")
            raise RuntimeError("cannot enter")
        self.depth += 1
        self.log.append("enter")
        return self

    def __exit__(self, typ, val, tb):
        self.depth -= 1
        self.log.append(("exit", class_id(typ), None if val is None else class_id(type(val)), tb is not None))
        if self.fail_exit:
            raise KeyError("exit failed")
        return typ is not None and class_id(typ).split(".")[-1] == self.swallow

    def value(self): return len(self.log)


class Seq(object):
    """iterable only through the old __getitem__ protocol"""

    def __init__(self, n):
        self.n = n
        self.reads = 0

    def __getitem__(self, i):
        self.reads += 1
        if not isinstance(i, int):
            raise TypeError("index must be int")
        if 0 <= i < self.n:
            return i * i
        raise IndexError(i)


class Plain(object):
    """no special methods at all: attributes only"""

    def __init__(self, a, b):
        self.a, self.b = a, b
        self._c = 0

    def bump(self, by=1):
        self._c += by
        return self._c

    def get_b(self): return self.b


# targets that inherit from an immutable built-in type: not values for the serializer (exact types only), so they are lent by
# reference; their operators mostly come from the base type and decline (NotImplemented) operands of another numeric type
import enum


class MyInt(int):
    pass


class MyFloat(float):
    pass


class MyStr(str):
    pass


class MyTuple(tuple):
    pass


class MyFset(frozenset):
    pass


class Color(enum.IntEnum):
    RED = 1
    GREEN = 2
    BLUE = 7


class Money(object):
    """a number-like user class whose operators decline what they do not know (NotImplemented), as the numeric tower asks"""

    def __init__(self, cents): self.cents = cents
    def __repr__(self): return "Money(%r)" % (self.cents,)
    def __hash__(self): return hash(self.cents)
    def __add__(self, o): return Money(self.cents + o.cents) if isinstance(o, Money) else NotImplemented
    def __mul__(self, o): return Money(self.cents * o) if type(o) is int else NotImplemented
    __rmul__ = __mul__
    def __eq__(self, o): return self.cents == o.cents if isinstance(o, Money) else NotImplemented
    def __lt__(self, o): return self.cents < o.cents if isinstance(o, Money) else NotImplemented


class Odd(object):
    """objects whose == and != are not the identity-respecting, bool-returning, effect-free ones:
       nan: equal to nothing, not even itself;  sym: == builds an expression object (like symbolic algebra, array libraries);
       audit: every comparison is counted on the object"""

    def __init__(self, kind, label="x"):
        self.kind, self.label, self.compared = kind, label, 0

    def __repr__(self): return "Odd(%s,%s)" % (self.kind, self.label)
    def __hash__(self): return 7

    def _cmp(self, op, other, same, differ):
        if self.kind == "nan":
            return differ
        if self.kind == "sym":
            return Odd("sym", "(%s %s %s)" % (self.label, op, getattr(other, "label", repr(other))))
        self.compared += 1
        return same if other is self else differ

    def __eq__(self, other): return self._cmp("==", other, True, False)
    def __ne__(self, other): return self._cmp("!=", other, False, True)
    def __lt__(self, other): return self._cmp("<", other, False, False)


class Recorder(object):
    """keeps the keyword arguments it is given in the order it is given them"""

    def __init__(self): self.rows = []

    def record(self, *args, **fields):
        self.rows.append((len(args), list(fields.items())))
        return tuple(fields)

    def __call__(self, **fields):
        self.rows.append(list(fields))
        return len(self.rows)


SUBCLASSED = {"myint": MyInt, "myfloat": MyFloat, "mystr": MyStr, "mytuple": MyTuple, "myfset": MyFset}

SHAPE_VARIANTS = ("bag", "row", "gate", "tally", "bare")


def make_shape(variant):
    """a new class on every call, always named harness.C02.Shape, whose set of special methods depends on the variant:
       bag: __len__ __iter__ __contains__      row: __getitem__ __len__      gate: __enter__ __exit__
       tally: __bool__ __call__ __iter__ (as a generator)     bare: none
    Distinct classes with one module-qualified name: what a class factory, type(name, ...) or a re-definition produces."""
    def __init__(self, items):
        self.items = list(items)
        self.log = []

    def describe(self, prefix="", suffix=""):
        self.log.append("describe")
        return "%s%s:%d%s" % (prefix, self.kind, len(self.items), suffix)

    def make(cls, *items):
        cls.made += 1
        return cls(items)
    ns = {"__init__": __init__, "describe": describe, "make": classmethod(make), "kind": variant, "made": 0, "_c02_shape": True,
          "__module__": __name__, "__qualname__": "Shape"}
    if variant == "bag":
        ns["__len__"] = lambda self: len(self.items)
        ns["__iter__"] = lambda self: iter(self.items)
        ns["__contains__"] = lambda self, x: x in self.items
    elif variant == "row":
        def __getitem__(self, i):
            self.log.append("getitem")
            return self.items[i]
        ns["__getitem__"] = __getitem__
        ns["__len__"] = lambda self: len(self.items) + 100
    elif variant == "gate":
        def __enter__(self):
            self.log.append("entered")
            return self

        def __exit__(self, typ, val, tb):
            self.log.append(("exited", class_id(typ)))
            return False
        ns["__enter__"], ns["__exit__"] = __enter__, __exit__
    elif variant == "tally":
        def __bool__(self):
            self.log.append("bool")
            return len(self.items) % 2 == 1

        def __call__(self, *a, **k):
            self.items.append(len(a) + len(k))
            return len(self.items)

        def __iter__(self):
            for x in self.items:
                yield x * 2
        ns["__bool__"], ns["__call__"], ns["__iter__"] = __bool__, __call__, __iter__
    elif variant != "bare":
        raise ValueError(variant)
    for f in ns.values():
        if callable(f) and hasattr(f, "__qualname__"):
            f.__qualname__ = "Shape." + f.__name__
    return type("Shape", (object,), ns)


def shape_class(env, variant, fresh=False):
    cache = env.setdefault("shape_classes", {})
    if fresh or variant not in cache:
        cls = make_shape(variant)
        if fresh:
            return cls
        cache[variant] = cls
    return cache[variant]


def importable(cls):
    """is cls what a caller finds under cls's own module-qualified name?"""
    found = sys.modules.get(cls.__module__)
    for part in cls.__qualname__.split("."):
        found = getattr(found, part, None)
    return found is cls


def namesake_importable(cls):
    """the caller finds ANOTHER class under cls's module-qualified name"""
    found = sys.modules.get(cls.__module__)
    for part in cls.__qualname__.split("."):
        found = getattr(found, part, None)
    return isinstance(found, type) and found is not cls


def is_shape(o):
    return getattr(type(o), "_c02_shape", False) is True


def is_shape_class(o):
    return isinstance(o, type) and o.__dict__.get("_c02_shape", False) is True


def gen_fn(items, raise_at, exc):
    i = -1
    for i, x in enumerate(items):
        if i == raise_at:
            raise exc("generator failed at %d" % i)
        yield x


EXC = {"ValueError": ValueError, "KeyError": KeyError, "IndexError": IndexError, "TypeError": TypeError, "ZeroDivisionError": ZeroDivisionError,
       "RuntimeError": RuntimeError, "AttributeError": AttributeError, "StopIteration": StopIteration, "OSError": OSError,
       "LookupError": LookupError, "ArithmeticError": ArithmeticError, "AssertionError": AssertionError,
       "NotImplementedError": NotImplementedError, "Boom": Boom, "UnicodeDecodeError": lambda m: UnicodeDecodeError("utf8", b"x", 0, 1, m)}
CLASSES = {"MyInt": MyInt, "MyStr": MyStr, "Color": Color, "float": float, "frozenset": frozenset, "Number": __import__("numbers").Number, "list": list, "dict": dict, "set": set, "bytearray": bytearray, "deque": collections.deque, "Vec": Vec, "CM": CM, "Seq": Seq,
           "Plain": Plain, "object": object, "int": int, "tuple": tuple, "Sequence": collections.abc.Sequence, "Iterable": collections.abc.Iterable,
           "Iterator": collections.abc.Iterator, "Sized": collections.abc.Sized, "Hashable": collections.abc.Hashable,
           "Callable": collections.abc.Callable, "Mapping": collections.abc.Mapping, "IOBase": io.IOBase, "str": str}

# ------------------------------------------------------------------------------------------------ values and targets


def imm(v):
    if not brine.dumpable(v):
        raise ValueError("not an immutable value: %r" % (v,))
    return {"imm": C.sx_dumps(V.to_sx(v))}


def mk_value(spec, env):
    """spec: {"imm": sx-text} | {"mk": target-spec} ; a fresh object on every call"""
    if "imm" in spec:
        return V.from_sx(C.sx_loads(spec["imm"]))
    return build(spec["mk"], env)


def build(spec, env):
    k = spec[0]
    if k == "list":
        return [mk_value(x, env) for x in spec[1]]
    if k == "dict":
        return {mk_value(a, env): mk_value(b, env) for a, b in spec[1]}
    if k == "odict":
        return collections.OrderedDict((mk_value(a, env), mk_value(b, env)) for a, b in spec[1])
    if k == "odd":
        return Odd(spec[1], spec[2])
    if k == "recorder":
        return Recorder()
    if k == "set":
        return {mk_value(x, env) for x in spec[1]}
    if k == "bytearray":
        return bytearray(bytes.fromhex(spec[1]))
    if k == "deque":
        return collections.deque([mk_value(x, env) for x in spec[1]], spec[2])
    if k == "listiter":
        return iter([mk_value(x, env) for x in spec[1]])
    if k == "dictiter":
        return iter({mk_value(a, env): mk_value(b, env) for a, b in spec[1]}.items())
    if k == "gen":
        return gen_fn([mk_value(x, env) for x in spec[1]], spec[2], EXC[spec[3]])
    if k == "file":
        env["nfiles"] = env.get("nfiles", 0) + 1
        path = os.path.join(env["dir"], "f%d" % env["nfiles"])
        with open(path, "wb") as f:
            f.write(bytes.fromhex(spec[2]))
        f = open(path, spec[1], **({"newline": ""} if "b" not in spec[1] else {}))
        env.setdefault("files", []).append(f)
        return f
    if k == "vec":
        return Vec(spec[1])
    if k == "cm":
        return CM(spec[1], spec[2], spec[3])
    if k == "seq":
        return Seq(spec[1])
    if k == "plain":
        return Plain(mk_value(spec[1], env), mk_value(spec[2], env))
    if k in SUBCLASSED:       # ["myint", imm]: an instance of a subclass of the immutable type, built from a value of that type
        return SUBCLASSED[k](mk_value(spec[1], env))
    if k == "color":      # a fresh IntEnum per world side: members are singletons, twin and target must not be one object
        if "color_class" not in env:
            env["color_class"] = enum.IntEnum("Color", [("RED", 1), ("GREEN", 2), ("BLUE", 7)], module=__name__)
        return env["color_class"](spec[1])
    if k == "money":
        return Money(spec[1])
    if k == "shape":          # ["shape", variant, items, fresh-class?]
        return shape_class(env, spec[1], spec[3])([mk_value(x, env) for x in spec[2]])
    if k == "shapeclass":     # the class object itself
        return shape_class(env, spec[1], spec[2])
    raise ValueError("target spec %r" % (spec,))


def build_roots(spec, env):
    """the objects a world starts with: one, or (["multi", [spec, ...]]) several lent one after the other over the same connection"""
    if spec[0] == "multi":
        return [build(x, env) for x in spec[1]]
    return [build(spec, env)]


# ------------------------------------------------------------------------------------------------ canonical forms

_ADDR = re.compile(r"0x[0-9a-fA-F]{6,}")


def norm_text(s, env):
    s = _ADDR.sub("0xADDR", s)
    for d in env.get("dirs", ()):
        s = s.replace(d, "<DIR>")
    return s


def is_netref(x):
    return isinstance(x, netref.BaseNetref)


def snap(o, env, memo=None, depth=0):
    """deep, address-free picture of an object living on one side"""
    memo = {} if memo is None else memo
    t = type(o)
    if t in (type(None), type(NotImplemented), type(Ellipsis), bool, int, float, complex, bytes):
        return V.canon(o)
    if t is str:
        return ("str", norm_text(o, env))
    if t is slice:
        return ("slice", snap(o.start, env, memo, depth + 1), snap(o.stop, env, memo, depth + 1), snap(o.step, env, memo, depth + 1))
    if id(o) in memo:                       # an ancestor: a real cycle; named by how far up it is (independent of traversal order)
        return ("cycle", depth - memo[id(o)])
    if depth > 12:
        return ("deep",)
    memo[id(o)] = depth
    try:
        rec = lambda x: snap(x, env, memo, depth + 1)
        if t in (tuple, list, collections.deque):
            extra = (o.maxlen,) if t is collections.deque else ()
            return (t.__name__,) + extra + tuple(rec(x) for x in o)
        if t in (set, frozenset):
            return (t.__name__,) + tuple(sorted((rec(x) for x in o), key=repr))
        if t in (dict, collections.OrderedDict):
            return (t.__name__,) + tuple((rec(a), rec(b)) for a, b in o.items())       # insertion order is part of the state
        if t is bytearray:
            return ("bytearray", bytes(o))
        if t is type(gen_fn((), None, None)):
            fr = o.gi_frame
            return ("generator", fr is None, None if fr is None else fr.f_locals.get("i"))
        if isinstance(o, io.IOBase):
            if o.closed:
                st = ("closed",)
            else:
                try:
                    st = ("open", o.tell())
                except (OSError, ValueError) as e:
                    st = ("open", type(e).__name__)
            try:
                with open(o.name, "rb") as f:
                    disk = f.read()
            except (OSError, TypeError):
                disk = None
            return ("file", type(o).__name__, st, disk)
        if isinstance(o, (Vec, CM, Seq, Plain, Odd, Recorder)):
            return (t.__name__,) + tuple(sorted(((rec(k), rec(v)) for k, v in vars(o).items()), key=repr))
        if t in SUBCLASSED.values():
            base = [b for b in (int, float, str, tuple, frozenset) if isinstance(o, b)][0]
            return (t.__name__, rec(base(o)))
        if isinstance(o, enum.IntEnum):
            return ("Color", o.name) + tuple(sorted(((rec(k), rec(v)) for k, v in vars(o).items() if not k.startswith("_")), key=repr))
        if t is Money:
            return ("Money",) + tuple(sorted(((rec(k), rec(v)) for k, v in vars(o).items()), key=repr))
        if is_shape(o):
            return ("Shape", t.kind, ("made", t.made)) + tuple(sorted(((rec(k), rec(v)) for k, v in vars(o).items()), key=repr))
        if is_shape_class(o):
            return ("class", o.__module__, o.__qualname__, o.kind, ("made", o.made))
        if isinstance(o, BaseException):
            return ("exception", t.__name__, rec(o.args))
        if isinstance(o, type):
            return ("class", o.__module__, o.__qualname__, "the-importable-one" if importable(o) else "a-namesake-or-unimportable")
        if t.__name__ in ("builtin_function_or_method", "method", "method-wrapper", "method_descriptor", "wrapper_descriptor"):
            s = getattr(o, "__self__", None)
            return (t.__name__, getattr(o, "__name__", "?"), None if s is None or isinstance(s, type(sys)) else type(s).__name__)
        if t.__name__ in ITERATOR_TYPES:
            try:
                import copy
                return (t.__name__,) + tuple(rec(x) for x in copy.copy(o))
            except Exception:
                try:
                    return (t.__name__, "hint", o.__length_hint__())
                except Exception:
                    return (t.__name__,)
        if t.__name__ in ("dict_keys", "dict_values", "dict_items"):
            return (t.__name__,) + tuple(rec(x) for x in o)
        if t is memoryview:
            return ("memoryview", bytes(o))
        return ("object", t.__module__, t.__qualname__)
    finally:
        del memo[id(o)]


ITERATOR_TYPES = {"list_iterator", "list_reverseiterator", "tuple_iterator", "set_iterator", "dict_keyiterator", "dict_valueiterator",
                  "dict_itemiterator", "dict_reversekeyiterator", "bytearray_iterator", "_collections._deque_iterator", "_deque_iterator",
                  "_deque_reverse_iterator", "range_iterator", "bytes_iterator", "str_ascii_iterator", "enumerate", "reversed", "zip", "map"}


def exc_name(e):
    t = type(e)
    if isinstance(e, vinegar.GenericException):
        return t.__name__                       # "module.Class" of the remote exception
    return "%s.%s" % (t.__module__, t.__name__)


class Side(object):
    """one world: the slots (objects reached so far), and how to look at them"""

    def __init__(self, name, env):
        self.name, self.env, self.slots = name, env, []

    def real(self, x):                 # the object itself, on the side where it lives
        return x


class ProxySide(Side):
    def __init__(self, name, env, server_conn):
        Side.__init__(self, name, env)
        self.server = server_conn

    def real(self, x):
        if is_netref(x):
            return self.server._local_objects[object.__getattribute__(x, "____id_pack__")]
        return x


def canon_result(side, v, depth=0):
    """canonical form of an operation's result as the caller sees it: values by content, references by the picture of what
    they refer to (and by which already-known object they are, when they are one)"""
    t = type(v)
    if is_netref(v) or not (brine.dumpable(v) or t is tuple):
        obj = side.real(v)
        for i, s in enumerate(side.slots):
            if side.real(s) is obj:
                return ("ref", "slot", i)
        return ("ref", "new", snap(obj, side.env))
    if t is tuple:
        return ("tuple",) + tuple(canon_result(side, x, depth + 1) for x in v)
    return ("val", snap(v, side.env))


def canon_local(side, v, depth=0):
    """results that are built on the caller's side (list(x), sorted(x), dict(x) ...): the outer container is the caller's own,
    what it holds are results like any other (values, or references to objects on the target's side)"""
    t = type(v)
    if t in (list, tuple):
        return (t.__name__,) + tuple(canon_result(side, x) for x in v)
    if t in (set, frozenset):
        return (t.__name__,) + tuple(sorted((canon_result(side, x) for x in v), key=repr))
    if t is dict:
        return ("dict",) + tuple((canon_result(side, a), canon_result(side, b)) for a, b in v.items())
    return canon_result(side, v)


# ------------------------------------------------------------------------------------------------ operations
import operator

BINOPS = {"add": operator.add, "sub": operator.sub, "mul": operator.mul, "truediv": operator.truediv, "floordiv": operator.floordiv,
          "mod": operator.mod, "pow": operator.pow, "matmul": operator.matmul, "and": operator.and_, "or": operator.or_,
          "xor": operator.xor, "lshift": operator.lshift, "rshift": operator.rshift}
IBINOPS = {"iadd": operator.iadd, "isub": operator.isub, "imul": operator.imul, "iand": operator.iand, "ior": operator.ior,
           "ixor": operator.ixor, "itruediv": operator.itruediv}
UNOPS = {"neg": operator.neg, "pos": operator.pos, "abs": abs, "invert": operator.invert}
CMPS = {"eq": operator.eq, "ne": operator.ne, "lt": operator.lt, "le": operator.le, "gt": operator.gt, "ge": operator.ge}
FUNCS = {"list": list, "tuple": tuple, "sorted": sorted, "sum": sum, "min": min, "max": max, "any": any, "all": all, "set": set,
         "reversed": lambda x: list(reversed(x)), "bytes": bytes, "int": int, "float": float, "index": operator.index,
         "enumerate": lambda x: list(enumerate(x)), "dict": dict, "format": lambda x: format(x, ""), "zip": lambda x: list(zip(x, x)),
         "frozenset": frozenset, "next_default": lambda x: next(x, "dflt"), "unpack2": lambda x: (lambda a, b: (b, a))(*x),
         "star": lambda x: (lambda *a: len(a))(*x), "join": lambda x: ",".join(x), "bjoin": lambda x: b"".join(x)}
ITERATING_FUNCS = ("list", "tuple", "sorted", "sum", "min", "max", "any", "all", "set", "frozenset", "enumerate", "zip", "unpack2", "star", "join", "bjoin")
ELEMENT_FUNCS = ("sum", "min", "max", "any", "all", "int", "float", "index", "format", "next_default", "star", "join", "bjoin", "bytes")   # the rest build a container on the caller's side
# which special method of the operand's type the interpreter uses for a primitive operation (Python data model)
UNARY_SPECIAL = {"len": ["__len__"], "iter": ["__iter__"], "next": ["__next__"], "neg": ["__neg__"], "pos": ["__pos__"], "abs": ["__abs__"],
                 "invert": ["__invert__"], "bool": ["__bool__", "__len__"]}
ITEM_SPECIAL = {"getitem": "__getitem__", "setitem": "__setitem__", "delitem": "__delitem__", "contains": "__contains__"}


def has_special(T, d):
    for k in T.__mro__:
        if d in k.__dict__:
            return k.__dict__[d] is not None
    return False


def needs(op, twin_obj):
    """names a primitive operation makes the peer look up, as [(perm, name)], or None when the interpreter's fallback chains
    make the set depend on intermediate results (then the refusal is recognised by its text)"""
    k = op[0]
    T = type(twin_obj)
    if k == "getattr":
        return None if op[2] in netref.LOCAL_ATTRS else [("get", op[2])]      # local names fall back to a remote read when the proxy lacks them
    if k == "setattr":
        return [("set", op[2])]
    if k == "delattr":
        return [("del", op[2])]
    if k == "callm":
        return None if op[2] in netref.LOCAL_ATTRS else [("get", op[2])]
    if k == "tcallm":
        d = getattr(T, op[2], None)
        if op[2] in netref.LOCAL_ATTRS or isinstance(d, property):
            return None
        return [("get", op[2])] if callable(d) else []
    if k in ("call", "hash", "repr", "str", "dir", "isinstance", "classof", "fetch"):
        return []
    if k == "isinst":
        return None
    if k == "cmp":
        return [("get", "__%s__" % op[2])]
    if k in UNARY_SPECIAL:
        for d in UNARY_SPECIAL[k]:
            if has_special(T, d):
                return [("get", d)]
        return []
    if k == "unop":
        return needs([op[2]], twin_obj)
    if k in ITEM_SPECIAL:
        if has_special(T, ITEM_SPECIAL[k]):
            return [("get", ITEM_SPECIAL[k])]
        return None if k == "contains" else []
    if k == "binop" and "imm" in op[3]:
        d = "__%s__" % op[2]
        return [("get", d)] if has_special(T, d) else []
    if k == "with":
        if has_special(T, "__enter__") and has_special(T, "__exit__"):
            return [("get", "__enter__"), ("get", "__exit__")]
        return []
    if k == "buffiter":
        return [("get", "__iter__")] if has_special(T, "__iter__") else []
    if k == "func":
        f = op[2]
        if f in ITERATING_FUNCS:
            return [("get", "__iter__")] if has_special(T, "__iter__") else ([("get", "__getitem__")] if has_special(T, "__getitem__") else [])
        if f == "reversed":
            if has_special(T, "__reversed__"):
                return [("get", "__reversed__")]
            return [("get", "__len__"), ("get", "__getitem__")] if has_special(T, "__len__") and has_special(T, "__getitem__") else []
        if f == "dict":
            if hasattr(T, "keys"):
                return [("get", "keys"), ("get", "__getitem__")]
            return [("get", "__iter__")] if has_special(T, "__iter__") else ([("get", "__getitem__")] if has_special(T, "__getitem__") else [])
        if f in ("int", "float", "index", "format"):
            d = "__%s__" % f
            return [("get", d)] if has_special(T, d) else (None if f == "int" else [])
        if f == "next_default":
            return [("get", "__next__")] if has_special(T, "__next__") else []
    return None


def slot_refs(op):
    out = [op[1]]

    def go(x):
        if isinstance(x, dict):
            if "slot" in x:
                out.append(x["slot"])
        elif isinstance(x, list):
            for y in x:
                go(y)
    go(op[2:])
    return out


def permitted(cfg, nd):
    return all(perm_permitted(cfg, p) and name_permitted(cfg, n) for p, n in nd)


def operand(side, spec):
    if "slot" in spec:
        return side.slots[spec["slot"]]
    v = mk_value(spec, side.env)
    if not isinstance(side, ProxySide):
        # what the target receives is the value rebuilt by the serializer: equal (C04), but a frozenset rebuilt from its own
        # iteration order may iterate (and print) in another order than the original; the twin gets the same rebuilt value
        v = brine.load(brine.dump(v))
    return v


def perform(side, op, proxy):
    """-> (raw result, how to look at it: 'remote' | 'local')"""
    k = op[0]
    x = side.slots[op[1]]
    A = lambda s: operand(side, s)
    if k == "getattr": return getattr(x, op[2]), "remote"
    if k == "setattr":
        setattr(x, op[2], A(op[3]))
        return None, "remote"
    if k == "delattr":
        delattr(x, op[2])
        return None, "remote"
    if k == "callm": return getattr(x, op[2])(*[A(a) for a in op[3]], **{n: A(v) for n, v in op[4]}), "remote"
    if k == "tcallm":     # the method found on the type, applied to the object: type(x).name(x, ...)
        return getattr(type(x), op[2])(x, *[A(a) for a in op[3]], **{n: A(v) for n, v in op[4]}), "remote"
    if k == "call": return x(*[A(a) for a in op[2]], **{n: A(v) for n, v in op[3]}), "remote"
    if k == "cmp": return CMPS[op[2]](x, A(op[3])), "remote"
    if k == "hash": return hash(x), "remote"
    if k == "repr": return repr(x), "remote"
    if k == "str": return str(x), "remote"
    if k == "dir": return dir(x), "local"
    if k == "len": return len(x), "remote"
    if k == "bool": return bool(x), "remote"
    if k == "iter": return iter(x), "remote"
    if k == "next": return next(x), "remote"
    if k == "getitem": return x[A(op[2])], "remote"
    if k == "setitem":
        x[A(op[2])] = A(op[3])
        return None, "remote"
    if k == "delitem":
        del x[A(op[2])]
        return None, "remote"
    if k == "contains": return A(op[2]) in x, "remote"
    if k == "binop": return BINOPS[op[2]](x, A(op[3])), "remote"
    if k == "rbinop": return BINOPS[op[2]](A(op[3]), x), "remote"
    if k == "ibinop": return IBINOPS[op[2]](x, A(op[3])), "rebind"
    if k == "unop": return UNOPS[op[2]](x), "remote"
    if k == "with":
        with x as y:
            if op[2]:
                raise EXC[op[2]]("raised inside the with block")
        return y, "remote"
    if k == "isinstance": return isinstance(x, CLASSES[op[2]]), "remote"
    if k == "isinst": return isinstance(A(op[2]), x), "remote"        # the object in the slot as the second argument: isinstance(other, x)
    if k == "classof": return x.__class__, "local"
    if k == "func": return FUNCS[op[2]](x), ("remote" if op[2] in ELEMENT_FUNCS else "local")
    if k == "buffiter":
        if proxy:
            return list(buffiter(x, op[2], op[4], op[3])), "local"
        return list(x), "local"
    raise ValueError("op %r" % (op,))


def outcome(side, op, proxy):
    try:
        with C.time_limit(60):       # (wall clock, returns early) an operation that no longer returns is an observation ("Hang"), not a stuck check
            v, how = perform(side, op, proxy)
    except RecursionError as e:      # depth of the interpreter stack is not part of the property (a remote hop costs frames)
        return ("exc", "RecursionError"), None, None, e
    except BaseException as e:       # noqa: the class of whatever the operation raises is the observation
        if isinstance(e, (KeyboardInterrupt, SystemExit, MemoryError)):
            raise
        return ("exc", exc_name(e)), None, None, e
    c = canon_local(side, v) if how == "local" else canon_result(side, v)
    return ("ok", c), v, how, None


# ------------------------------------------------------------------------------------------------ the wire, as seen by the reference codec

class Tap(object):
    def __init__(self):
        self.buf = {"A": bytearray(), "B": bytearray()}
        self.reqs = []          # requests the proxy side sent: (handler name, unboxed canonical args)
        self.back = []          # requests the target's side sent to the proxy side
        self.refusals = 0       # replies that are AttributeError("cannot access ...")

    def __call__(self, name, data):
        b = self.buf[name]
        b += data
        while True:
            u = R.unframe(b)
            if u is None:
                return
            payload, flag, rest, _ = u
            del b[:len(b) - len(rest)]
            m, _pos = R.dec(payload)
            if m[0] == R.MSG_REQUEST:
                (self.reqs if name == "A" else self.back).append((HNAME.get(m[2][0], m[2][0]), m[2][1]))
            elif m[0] == R.MSG_EXCEPTION and name == "B" and type(m[2]) is tuple and len(m[2]) == 4:
                (mod, cls), args = m[2][0], m[2][1]
                if cls == "AttributeError" and args and type(args[0]) is str and args[0].startswith("cannot access "):
                    self.refusals += 1


def fetch_counts(raw_reqs):
    """the count argument of each HANDLE_BUFFITER request: args = (LABEL_TUPLE, ((LOCAL_REF, id), (LABEL_VALUE, count)))"""
    return [a[1][1][1] for h, a in raw_reqs if h == "HANDLE_BUFFITER"]


def unbox_canon(pkg, idmap):
    """what a boxed package denotes: values by content (tuples opened), references by slot"""
    label, v = pkg
    if label == R.LABEL_VALUE:
        return open_tuples(v)
    if label == R.LABEL_TUPLE:
        return ("tuple",) + tuple(unbox_canon(x, idmap) for x in v)
    if label == R.LABEL_LOCAL_REF:
        return ("slot", idmap.get(tuple(v), "?"))
    return ("callers-object",)


def open_tuples(v):
    if type(v) is tuple:
        return ("tuple",) + tuple(open_tuples(x) for x in v)
    return ("val", V.canon(v))


# ------------------------------------------------------------------------------------------------ one case = target spec + operation sequence

class World(object):
    """a pair of real connections with the target on one side, and a twin"""

    def __init__(self, cfg, spec):
        self.cfg = cfg
        self.dir = tempfile.mkdtemp(prefix="c02-")
        d1, d2 = os.path.join(self.dir, "target"), os.path.join(self.dir, "twin")
        os.mkdir(d1)
        os.mkdir(d2)
        self.env_t = {"dir": d1, "dirs": (d1, d2)}
        self.env_w = {"dir": d2, "dirs": (d1, d2)}
        conf = dict(CONFIGS[cfg])
        self.ca, self.cb, self.sa, self.sb = connect_pair(VoidService(), VoidService(), config_a=dict(conf), config_b=dict(conf))
        self.tap = Tap()
        self.sa.tap = self.tap
        self.sb.tap = self.tap
        self.P = ProxySide("proxy", self.env_t, self.cb)
        self.T = Side("twin", self.env_w)
        # every reference crosses exactly as any result does: boxed by the owner, unboxed by the peer -- in the order given,
        # over the one connection (what the peer learns about the first object's class must not leak into the next one's)
        for target in build_roots(spec, self.env_t):
            self.P.slots.append(self.ca._unbox(self.cb._box(target)))
        self.T.slots.extend(build_roots(spec, self.env_w))

    def idmap(self):
        return {tuple(object.__getattribute__(p, "____id_pack__")): i for i, p in enumerate(self.P.slots) if is_netref(p)}

    def state(self, side):
        out = []
        for s in side.slots:
            try:
                out.append(snap(side.real(s), side.env))
            except KeyError:
                out.append(("gone",))
        return out

    def close(self):
        self.P.slots[:] = []
        self.T.slots[:] = []
        for env in (self.env_t, self.env_w):
            for f in env.get("files", ()):
                try:
                    f.close()
                except Exception:
                    pass
        try:
            self.ca.close()
        except Exception:
            pass
        try:
            self.cb.close()
        except Exception:
            pass
        shutil.rmtree(self.dir, ignore_errors=True)


def short(x, n=300):
    s = repr(x)
    return s if len(s) <= n else s[:n] + "...(%d)" % len(s)


def is_refusal(e):
    return isinstance(e, AttributeError) and "cannot access" in str(e)


def address_hashed(e):
    t = type(e)
    if t in (tuple, frozenset):
        return any(address_hashed(x) for x in e)
    if t in (float, complex):
        return e != e
    return not brine.dumpable(e) and not isinstance(e, Vec)


def address_ordered(o):
    """a set (or an iterator over one) holding elements hashed by address: its iteration order on the target and on the twin are
    unrelated, so nothing order-dependent can be compared"""
    try:
        if isinstance(o, (set, frozenset)):
            elems = list(o)
        elif type(o).__name__ == "set_iterator":
            import copy
            elems = list(copy.copy(o))
        else:
            return False
    except Exception:
        return False
    return any(address_hashed(e) for e in elems)


def hash_is_address_based(twin_obj):
    """hash() of the twin and of the target are unrelated numbers when the type hashes by address (the twin is another object)"""
    return not isinstance(twin_obj, Vec)


ABCS = ("Sequence", "Iterable", "Iterator", "Sized", "Hashable", "Callable", "Mapping")


def run_case(ctx, case, collect=None):
    """applies case["ops"] to proxy and twin and reports differences (first of each shape); stops when the states have diverged.
    collect: list receiving per-step records for the model correspondence.  Returns the list of signatures seen."""
    cfg, spec, ops = case["cfg"], case["target"], case["ops"]
    w = World(cfg, spec)
    sigs = []

    def report(sig, step, observed, expected, what):
        sigs.append(sig)
        ctx.violation(sig, dict(case, failing_step=step), observed=observed, expected=expected, what=what)
    try:
        st_p, st_t = w.state(w.P), w.state(w.T)
        if st_p != st_t:
            ctx.tie_broken("harness:initial-state", "%s vs %s" % (short(st_p), short(st_t)))
            return sigs
        for step, op in enumerate(ops):
            if max(slot_refs(op)) >= len(w.T.slots):
                continue
            twin_obj = w.T.slots[op[1]]
            if address_ordered(twin_obj):
                ctx.count("stopped:set-ordered-by-addresses")
                return sigs
            nd = needs(op, twin_obj)
            if op[0] in ("isinstance", "classof") and cfg != "classic":
                nd = None        # the class of an object whose type the caller cannot import is fetched as the attribute __class__
            pred = None if nd is None else permitted(cfg, nd)
            del w.tap.reqs[:]
            del w.tap.back[:]
            w.tap.refusals = 0
            idmap = w.idmap()
            methods = proxy_methods(w.P.slots[op[1]])
            own = None if methods is None else type_methods(twin_obj)
            borrowed = False
            if own is not None and sorted(m for m in methods if m not in netref.LOCAL_ATTRS) != own:
                # the proxy's class must offer exactly the callables of the target's type (outside LOCAL_ATTRS); the model is given
                # the table of the object itself, so a table borrowed from another class shows up in the requests as well
                ctx.tie_broken("correspondence:class-methods", "%s under %s: proxy class offers %s, the target's type %s"
                               % (type(twin_obj).__name__, cfg, short(sorted(set(methods) ^ set(own)), 200), "differs by these"))
                borrowed = sorted(set(m for m in methods if m not in netref.LOCAL_ATTRS) ^ set(own))
                methods = own
            rp, vp, how, ep = outcome(w.P, op, True)
            reqs = [(h, a) for h, a in w.tap.reqs if h not in ("HANDLE_DEL", "HANDLE_INSPECT")]
            if collect is not None:
                fetches = fetch_counts(reqs) if op[0] == "buffiter" else None
                collect.append({"cfg": cfg, "op": op, "fetches": fetches, "reqs": [(h, unbox_canon(a, idmap)) for h, a in reqs], "methods": methods,
                                "twin_type": type(twin_obj), "result": rp, "pred": pred, "back": len(w.tap.back)})
            ctx.count("op:" + op[0])
            where = "step %d %s on %s under %s" % (step, op[0], type(twin_obj).__name__, cfg)
            refused = cfg != "classic" and ep is not None and is_refusal(ep)
            if pred is False or (pred is None and refused):
                ctx.count("not-permitted:" + cfg)
                if pred is False and op[0] != "func" and not (ep is not None and isinstance(ep, AttributeError)):   # built-in functions may swallow the refusal and fall back
                    report("refusal-expected:%s:%s" % (op[0], cfg), step, short(rp), "AttributeError (name not permitted under %s)" % cfg,
                           where + ": needs a name the configuration does not permit, but was not refused")
                    return sigs
            else:
                if pred is True and refused:
                    report("permitted-op-refused:%s:%s" % (op[0], cfg), step, short(rp), "performed", where + ": permitted operation refused: " + str(ep).split("\n")[0])
                    return sigs
                rt, vt, how_t, et = outcome(w.T, op, False)
                if ("exc", "RecursionError") in (rp, rt):
                    ctx.count("recursion-limit-reached")
                    return sigs
                ctx.count("outcome:" + (rt[0] if rt[0] == "ok" else rt[1]))
                same = rp == rt
                if not same and op[0] == "hash" and rp[0] == rt[0] == "ok" and hash_is_address_based(twin_obj) \
                        and rp[1][0] == rt[1][0] == "val" and rp[1][1][0] == rt[1][1][0] == "int":
                    same = True
                if not same and borrowed and set(borrowed) & set(specials_of(op) + ["__call__"]):
                    report("netref-class:method-table-of-another-class", step, short(rp), short(rt),
                           where + ": proxy gives %s, target gives %s; the proxy's class and the target's type differ in %s" % (short(rp, 100), short(rt, 100), borrowed))
                elif not same:
                    report(classify(op, rp, rt, twin_obj, methods), step, short(rp), short(rt), where + ": proxy gives %s, target gives %s" % (short(rp, 120), short(rt, 120)))
                elif rt[0] == "ok" and how in ("remote", "rebind"):
                    if how == "rebind" and rt[1][0] == "ref":
                        w.P.slots[op[1]], w.T.slots[op[1]] = vp, vt
                    elif rt[1][:2] == ("ref", "new") and is_netref(vp):
                        w.P.slots.append(vp)
                        w.T.slots.append(vt)
            st_p, st_t = w.state(w.P), w.state(w.T)
            if st_p != st_t:
                bad = [i for i, (a, b) in enumerate(zip(st_p, st_t)) if a != b]
                sg = classify(op, ("state",), ("state",), twin_obj, methods)
                if borrowed and set(borrowed) & set(specials_of(op) + ["__call__"]):
                    sg = "netref-class:method-table-of-another-class"
                report(sg if sg in FAMILIES or sg == "netref-class:method-table-of-another-class" else "state:" + sg, step, short([st_p[i] for i in bad]), short([st_t[i] for i in bad]),
                       "after " + where + " the target's state differs from the twin's (result was %s)" % short(rp, 80))
                return sigs
        return sigs
    finally:
        w.close()


def proxy_methods(p):
    if not is_netref(p):
        return None
    # class_factory's namespace: __slots__, __class__ and one synthesized method per name (type() wraps __init_subclass__ and
    # __class_getitem__ into classmethods, so "callable" is not the test)
    return sorted(k for k, v in type(p).__dict__.items() if k not in ("__slots__", "__class__", "__module__", "__doc__", "__dict__", "__weakref__"))


def builtin_cached(T):
    return "%s.%s" % (T.__module__, T.__name__) in netref.builtin_classes_cache


def class_table(cls_obj):
    """the callables on the metaclass's MRO and then on the class's own, outside LOCAL_ATTRS: the proxy class of a class lent as a class"""
    attrs = {}
    for k in list(reversed(type(cls_obj).__mro__)) + list(reversed(cls_obj.__mro__)):
        attrs.update(k.__dict__)
    return sorted(n for n, a in attrs.items() if n not in netref.LOCAL_ATTRS and hasattr(a, "__call__"))


def type_methods(obj):
    """what the proxy's class has to offer: the callables found on the MRO of the object's type (for a class object: of its
    metaclass, then its own), outside LOCAL_ATTRS.  The types in netref._builtin_types share one pre-generated proxy class between
    the type and its instances: theirs is the table of the type lent as a class (so `type`'s methods are included: known finding
    netref-class:methods-the-target-type-lacks)"""
    if isinstance(obj, type):
        return class_table(obj)
    if builtin_cached(type(obj)):
        return class_table(type(obj))
    attrs = {}
    for k in reversed(type(obj).__mro__):
        attrs.update(k.__dict__)
    return sorted(n for n, a in attrs.items() if n not in netref.LOCAL_ATTRS and hasattr(a, "__call__"))


import types as _types
EXPECTED_BUILTIN_TYPES = [
    type, object, bool, complex, dict, float, int, list, slice, str, tuple, set, frozenset, BaseException, Exception, type(None),
    _types.BuiltinFunctionType, _types.GeneratorType, _types.MethodType, _types.CodeType, _types.FrameType, _types.TracebackType,
    _types.ModuleType, _types.FunctionType, type(int.__add__), type((1).__add__), type(iter([])), type(iter(())), type(iter(set())),
    bytes, bytearray, type(iter(range(10))), memoryview]


def check_builtin_classes(ctx):
    """the proxy classes generated at import time (module level of netref.py): exactly the expected types, each with exactly the
    table of that type lent as a class"""
    # names as rpyc.lib.get_id_pack forms them for class objects; it files a class called "module" (types.ModuleType) under the name
    # of ITS class, "builtins.type", so that entry -- written after the one for `type` itself -- is generated from ModuleType
    want = {}
    for T in EXPECTED_BUILTIN_TYPES:
        want["builtins.type" if T.__name__ == "module" else "%s.%s" % (T.__module__, T.__name__)] = T
    have = netref.builtin_classes_cache
    ctx.model_traces += 1
    if set(have) != set(want):
        ctx.tie_broken("correspondence:builtin-classes", "pre-generated proxy classes differ from the expected list by %s" % sorted(set(have) ^ set(want)))
    for name, T in want.items():
        cls = have.get(name)
        if cls is None:
            continue
        got = sorted(k for k in cls.__dict__ if k not in ("__slots__", "__class__", "__module__", "__doc__", "__dict__", "__weakref__") and k not in netref.LOCAL_ATTRS)
        exp = class_table(T)
        ctx.count("builtin-class-table-checked")
        if got != exp:
            ctx.tie_broken("correspondence:builtin-classes", "%s: proxy class offers %s beyond/short of the table of the type" % (name, short(sorted(set(got) ^ set(exp)), 200)))
        desc = cls.__dict__.get("__class__")
        if desc is None or getattr(desc, "instance", None) is not T:
            ctx.tie_broken("correspondence:builtin-classes", "%s: the class descriptor does not name the type" % name)


def type_tag(twin_obj):
    tn = type(twin_obj).__name__
    if tn in ("Odd", "Recorder", "OrderedDict"):
        return tn
    if tn in ("list", "dict", "set", "bytearray", "deque", "Vec", "CM", "Seq", "Plain", "generator", "MyInt", "MyFloat", "MyStr", "MyTuple", "MyFset", "Color", "Money"):
        return tn
    if is_shape(twin_obj):
        return "Shape-" + type(twin_obj).kind
    if is_shape_class(twin_obj):
        return "class-Shape-" + twin_obj.kind
    if isinstance(twin_obj, io.IOBase):
        return "file"
    if hasattr(twin_obj, "__next__"):
        return "iterator"
    return "callable" if callable(twin_obj) else "other"


def getter_fails_with_attribute_error(o, name):
    d = getattr(type(o), name, None)
    return isinstance(d, property)


def beyond_ssize(v):
    return type(v) is int and not (-2**63 <= v < 2**63)


FAMILIES = {
    "class-query:namesake-on-the-callers-side":
        "p.__class__ / isinstance(p, C): the proxy's class descriptor is whatever class the caller finds under the target's "
        "module-qualified name, so a target whose class is a namesake (class factory, type(name, ...), re-definition, other version of "
        "a module) is reported to be an instance of the caller's class",
    "instancecheck:class-unknown-to-the-caller":
        "isinstance(x, p) for a proxy p of a class the caller cannot find by name and an x of the caller's own: "
        "AttributeError ('NoneType' object has no attribute 'instance') instead of an answer",
    "operator:reflected-method-never-sees-the-target":
        "x OP a with a value operand a: when the target's own special method declines (NotImplemented), the caller's interpreter "
        "gives a's reflected method the proxy instead of the target, so MyInt(3) + 5.0 raises TypeError and MyInt(3) == 3.0 is False",
    "c-level-type-check:value-operand-needs-a-real-instance":
        "'x' + p, (1,) + p, int(p) for a target that is an instance of a str/tuple subclass: the value's C implementation accepts only real "
        "instances of its own type and has no reflected method to fall back on",
    "getattr:failing-read-evaluated-twice":
        "an attribute read that fails with AttributeError on the target is sent twice (__getattribute__, then Python's fallback to "
        "__getattr__), so a getter with an effect runs twice",
    "isinstance:abstract-base-class":
        "isinstance() against an abstract base class inspects type(proxy) and proxy.__class__ structurally (BaseNetref.__hash__, methods of "
        "`type` on cached built-in classes, a class the caller cannot import arrives as a proxy that is not a type)",
    "item-index-beyond-ssize_t:slot-wrapper-raises-OverflowError":
        "x[i] with |i| >= 2**63 on a sequence implemented with sq_item only (deque): the handler calls x.__getitem__(i), whose slot wrapper "
        "raises OverflowError where the subscript operator raises IndexError",
    "ctxexit:exception-class-not-delivered":
        "the target's __exit__ is told about a TypeError instead of the exception raised in the with block",
    "getattr:proxy-local-name":
        "reading a name in netref.LOCAL_ATTRS gives the proxy's own attribute, not the target's",
    "netref-class:methods-the-target-type-lacks":
        "the proxy's class is not shaped like the target's type: it defines special methods the type lacks (methods of `type` on the cached "
        "built-in classes: __call__, __or__, __ror__ ...) and, being written in Python, fills C-level slots the type leaves empty "
        "(a sq_item-only sequence looks like a mapping to `bytes % x`), so operator fallbacks and protocol checks in C answer differently",
    "buffer-protocol:target-memory-not-reachable":
        "an operation that reads the target through the C buffer protocol fails on the proxy",
    "buffiter:getitem-only-iterable":
        "buffiter() of an object iterable only through __getitem__ fails (iter() of the proxy is not a proxy)",
}


def specials_of(op):
    """special methods the interpreter may look for on the operand's type for this operation (including its fallback protocols)"""
    k = op[0]
    if k == "iter": return ["__iter__", "__getitem__"]
    if k in UNARY_SPECIAL: return UNARY_SPECIAL[k]
    if k == "unop": return ["__%s__" % op[2]]
    if k in ("getitem", "setitem", "delitem"): return [ITEM_SPECIAL[k]]
    if k == "contains": return ["__contains__", "__iter__", "__getitem__"]
    if k == "with": return ["__enter__", "__exit__"]
    if k in ("func", "buffiter"): return ["__iter__", "__getitem__", "__len__", "__bool__", "__contains__", "__next__", "__reversed__", "__int__", "__float__", "__index__"]
    return []


def classify(op, rp, rt, twin_obj, methods=()):
    """stable name of the shape of a difference"""
    k = op[0]
    T = type(twin_obj)
    methods = methods or ()
    extra_methods = lambda names: any(d in methods and not has_special(T, d) for d in names)
    # shapes that have been triaged (FAMILIES); one signature each
    if k == "with" and op[2] and has_special(T, "__exit__") and not isinstance(twin_obj, io.IOBase) and "__enter__" in methods \
            and rp != ("exc", "builtins.TypeError"):
        return "ctxexit:exception-class-not-delivered"
    if k in ("getattr", "callm", "tcallm", "setattr", "delattr") and op[2] in netref.LOCAL_ATTRS:
        return "getattr:proxy-local-name"
    if k in ("getattr", "callm") and rp[0] == "state" and getter_fails_with_attribute_error(twin_obj, op[2]):
        return "getattr:failing-read-evaluated-twice"
    if k in ("isinstance", "classof") and namesake_importable(T):
        return "class-query:namesake-on-the-callers-side"
    if k == "getattr" and op[2] == "__class__" and namesake_importable(T):
        return "class-query:namesake-on-the-callers-side"
    if k == "isinst" and isinstance(twin_obj, type) and not importable(twin_obj) and "imm" in op[2] and rp == ("exc", "builtins.AttributeError"):
        return "instancecheck:class-unknown-to-the-caller"
    if k == "isinstance" and type(CLASSES[op[2]]) is not type:
        return "isinstance:abstract-base-class"
    if k in ("getitem", "setitem", "delitem") and "imm" in op[2] and beyond_ssize(mk_value(op[2], {})) and rp[0] == rt[0] == "exc":
        return "item-index-beyond-ssize_t:slot-wrapper-raises-OverflowError"
    if k in ("binop", "rbinop", "ibinop") and extra_methods(["__%s__" % op[2], "__r%s__" % op[2], "__%s__" % op[2][1:], "__i%s__" % op[2]]):
        return "netref-class:methods-the-target-type-lacks"
    if k == "rbinop" and op[2] == "mod" and "imm" in op[3] and type(mk_value(op[3], {})) in (bytes, str) and has_special(T, "__getitem__"):
        return "netref-class:methods-the-target-type-lacks"      # C code takes the proxy for a mapping: its class defines __getitem__ in Python
    if k == "ibinop" and "imm" in op[3] and type(mk_value(op[3], {})) in (str, bytes, tuple) and rt == ("exc", "builtins.TypeError") and rp[0] == "ok":
        return "netref-class:methods-the-target-type-lacks"      # x *= seq: CPython's in-place slots of a heap type reject what x * seq accepts
    if k in ("binop", "rbinop", "ibinop", "cmp") and first_method_declines(twin_obj, op):
        if k == "ibinop" and type(mk_value(op[3], {})) in (str, bytes, tuple):
            return "netref-class:methods-the-target-type-lacks"  # x *= "s": CPython's in-place slots of a heap type reject what x * "s" accepts
        return "operator:reflected-method-never-sees-the-target"
    if isinstance(twin_obj, (MyStr, MyTuple)) and ((k == "rbinop" and op[2] == "add" and "imm" in op[3]) or (k == "func" and op[2] in ("int", "float", "bytes", "bjoin"))):
        return "c-level-type-check:value-operand-needs-a-real-instance"
    if isinstance(twin_obj, type) and extra_methods(specials_of(op)):
        return "netref-class:methods-the-target-type-lacks"      # a class lent as a class: its proxy offers the class's instance-level special methods
    if T is bytearray and ((k == "rbinop" and "imm" in op[3]) or (k == "func" and op[2] in ("bytes", "bjoin", "int", "float"))):
        return "buffer-protocol:target-memory-not-reachable"
    if k == "func" and op[2] == "bjoin" and rp[0] == "exc" and rt[0] == "ok":
        return "buffer-protocol:target-memory-not-reachable"     # b"".join(p): the items are bytearrays on the target's side
    if k == "buffiter" and not has_special(T, "__iter__") and has_special(T, "__getitem__"):
        return "buffiter:getitem-only-iterable"
    extra = ""
    if k in ("getattr", "setattr", "delattr", "callm", "tcallm"):
        extra = ":dunder" if op[2].startswith("__") else ""
    elif k in ("binop", "rbinop", "ibinop", "unop", "cmp", "func"):
        extra = ":" + op[2]
    elif k == "with":
        extra = ":body-raises" if op[2] else ":body-ok"
    return "%s%s:%s:proxy-%s-target-%s" % (k, extra, type_tag(twin_obj), rp[0], rt[0])


# ------------------------------------------------------------------------------------------------ generation

SMALL = [0, 1, -1, 2, 3, 5, 7, 10, -3, 255, 256, 2**31, -2**63, 10**30]
TEXTS = ["", "a", "b", "xy", "key", "é", "€", "a b", "tag", "0"]
BLOBS = [b"", b"a", b"ab", b"\x00\xff", b"line\n", b"xyz"]


def has_nan(v):
    t = type(v)
    if t is float: return v != v
    if t is complex: return v != v
    if t in (tuple, frozenset): return any(has_nan(x) for x in v)
    if t is slice: return has_nan((v.start, v.stop, v.step))
    return False


def gen_imm(r, depth=1, hashable=False, nan_ok=False):
    """an immutable value.  NaN (whose hash is its address since 3.10, so that two equal-by-construction sets/dicts holding one
    iterate in different orders) appears only where the operation does not store the operand: comparisons, membership tests,
    arithmetic, count/index"""
    v = _gen_imm(r, depth, hashable)
    return 0 if not nan_ok and has_nan(v) else v


def _gen_imm(r, depth, hashable):
    c = r.random()
    if c < 0.35:
        return r.choice(SMALL) if r.random() < 0.7 else r.randint(-20, 20)
    if c < 0.5:
        return r.choice(TEXTS)
    if c < 0.58:
        return r.choice(BLOBS)
    if c < 0.64:
        return r.choice([None, True, False, NotImplemented, Ellipsis])
    if c < 0.72:
        return r.choice([0.0, 1.5, -2.25, float("inf"), float("nan"), float("nan"), 1e300, -0.0])
    if c < 0.75:
        return complex(r.choice([0.0, 1.0, -1.5]), r.choice([0.0, 2.0]))
    if c < 0.80:
        return slice(r.choice([None, 0, 1, -1]), r.choice([None, 1, 2, -1, 100]), r.choice([None, 1, 2, -1]))
    if c < 0.86 or depth <= 0:
        v = V.gen_value(r, 1, allow_other=False, big=False, surrogates=False)
        try:
            hash(v)
        except TypeError:
            return 0
        return v if len(repr(v)) < 400 else 1
    n = r.choice([0, 1, 2, 2, 3])
    if c < 0.95:
        return tuple(_gen_imm(r, depth - 1, hashable) for _ in range(n))
    return frozenset(gen_imm(r, 0, True) for _ in range(n))


def gen_elem(r, depth):
    """element of a container target: mostly values, sometimes a nested mutable object"""
    if depth > 0 and r.random() < 0.18:
        return {"mk": gen_target(r, r.choice(["list", "dict", "vec", "set", "bytearray", "plain"]), depth - 1)}
    return imm(gen_imm(r))


KINDS = ["list", "list", "dict", "dict", "set", "bytearray", "deque", "listiter", "dictiter", "gen", "file", "file", "vec", "vec", "vec",
         "cm", "cm", "seq", "plain", "family", "family", "family", "myint", "myint", "myfloat", "mystr", "mytuple", "myfset", "color", "money", "odict", "odd", "odd", "recorder"]


def gen_target(r, kind, depth=1):
    n = r.choice([0, 1, 2, 3, 4, 5, 8])
    if kind == "list":
        return ["list", [gen_elem(r, depth) for _ in range(n)]]
    if kind == "dict":
        return ["dict", [[imm(gen_imm(r, 1, True)), gen_elem(r, depth)] for _ in range(n)]]
    if kind == "set":
        return ["set", [imm(gen_imm(r, 1, True)) for _ in range(n)]]
    if kind == "bytearray":
        return ["bytearray", r.randbytes(n).hex()]
    if kind == "deque":
        return ["deque", [gen_elem(r, 0) for _ in range(n)], r.choice([None, None, 3, 5])]
    if kind == "listiter":
        return ["listiter", [gen_elem(r, depth) for _ in range(r.choice([0, 1, 3, 7, 12, 30]))]]
    if kind == "dictiter":
        return ["dictiter", [[imm(gen_imm(r, 1, True)), gen_elem(r, depth)] for _ in range(n)]]
    if kind == "gen":
        m = r.choice([0, 1, 3, 7, 12, 25])
        return ["gen", [imm(gen_imm(r)) for _ in range(m)], r.choice([None, None, None, 0, m // 2, m - 1]) if m else None,
                r.choice(["ValueError", "KeyError", "Boom", "RuntimeError", "StopIteration"])]
    if kind == "file":
        mode = r.choice(["rb", "r+b", "r", "r+", "w+b", "a+b", "w+"])
        content = b"".join(r.choice([b"alpha\n", b"beta\n", b"\n", b"gamma delta\n", b"x" * r.choice([1, 10, 100]), b"omega"]) for _ in range(r.choice([0, 1, 3, 6])))
        return ["file", mode, content.hex()]
    if kind == "vec":
        return ["vec", [r.choice([0, 1, 2, -3, 5, 10, 1.5, 7]) for _ in range(r.choice([0, 1, 2, 3, 3, 4]))]]
    if kind == "cm":
        return ["cm", r.choice(["ValueError", "KeyError", "Boom", "Nothing"]), r.random() < 0.1, r.random() < 0.1]
    if kind == "seq":
        return ["seq", r.choice([0, 1, 3, 6])]
    if kind == "plain":
        return ["plain", gen_elem(r, depth), imm(gen_imm(r))]
    if kind == "family":
        return gen_family(r)
    if kind == "odict":
        return ["odict", [[imm(gen_imm(r, 1, True)), gen_elem(r, 0)] for _ in range(r.choice([0, 1, 2, 3]))]]
    if kind == "odd":
        return ["multi", [["odd", r.choice(["nan", "sym", "audit"]), r.choice(["a", "b"])] for _ in range(r.choice([1, 2, 2]))]]
    if kind == "recorder":
        return ["recorder"]
    if kind == "myint":
        return ["myint", imm(r.choice([0, 1, 3, -2, 7, 10, 40]))]
    if kind == "myfloat":
        return ["myfloat", imm(r.choice([0.0, 1.5, -2.25, 3.0, 40.0]))]
    if kind == "mystr":
        return ["mystr", imm(r.choice(["", "a", "ab", "hello", "x y", "é"]))]
    if kind == "mytuple":
        return ["mytuple", imm(tuple(r.choice([0, 1, 2, "a", 2.5]) for _ in range(r.choice([0, 1, 2, 3]))))]
    if kind == "myfset":
        return ["myfset", imm(frozenset(r.choice([0, 1, 2, 3, "a"]) for _ in range(r.choice([0, 1, 2, 3]))))]
    if kind == "color":
        return ["color", r.choice([1, 2, 7])]
    if kind == "money":
        return ["money", r.choice([0, 5, 100, -3])]
    raise ValueError(kind)


def gen_shape(r, variant=None, fresh=None):
    items = [imm(r.choice([0, 1, 2, 3, 5, "a", "b", (1, 2), None, 2.5])) for _ in range(r.choice([0, 1, 2, 3, 4]))]
    return ["shape", variant or r.choice(SHAPE_VARIANTS), items, (r.random() < 0.25) if fresh is None else fresh]


def gen_family(r):
    """two to four objects lent one after the other over one connection: instances of different classes that all call themselves
    harness.C02.Shape (in a random order, sometimes two of one class, sometimes of a second class of the same variant), the classes
    themselves, now and then an ordinary object in between"""
    variants = list(SHAPE_VARIANTS)
    r.shuffle(variants)
    roots = []
    for v in variants[:r.choice([2, 2, 3, 3, 4])]:
        c = r.random()
        if c < 0.70:
            roots.append(gen_shape(r, v))
        elif c < 0.88:
            roots.append(["shapeclass", v, r.random() < 0.25])
        else:
            roots.append(gen_target(r, r.choice(["list", "vec", "cm", "seq"]), 0))
    if r.random() < 0.3:
        roots.insert(r.randrange(len(roots) + 1), gen_shape(r, r.choice(variants)))
    return ["multi", roots]


MISSING = ["nope", "_nope", "__nope__", "exposed_nope"]
LOCAL_NAMES = ["__doc__", "__class__", "__module__", "__dict__", "__hash__", "__repr__", "__init__", "__eq__", "__weakref__", "__slots__",
               "__reduce__", "__str__", "__dir__", "__exit__", "__getattribute__", "__setattr__", "__new__", "__del__"]
ANY_CLASS = list(CLASSES)


def idx_for(r, n):
    c = r.random()
    if n and c < 0.6:
        return r.randrange(n)
    if n and c < 0.7:
        return -r.randint(1, n)
    return r.choice([n, n + 1, -n - 1, 100, -100, "a", None, 1.5, (0,), True])


def slice_for(r, n):
    g = lambda: r.choice([None, 0, 1, 2, -1, -2, n, n + 2, -n - 2, n // 2])
    return slice(g(), g(), r.choice([None, None, 1, 2, -1, -2, 0]))


def pick_key(r, o):
    ks = list(o)
    if ks and r.random() < 0.65:
        return r.choice(ks)
    return gen_imm(r, 1, True)


def member(r, o, v):
    vals = [x for x in o if brine.dumpable(x)]
    return r.choice(vals) if vals and r.random() < 0.7 else v()


def slots_of_type(side, T):
    return [i for i, s in enumerate(side.slots) if isinstance(s, T)]


def gen_op(r, side, i):
    """an operation on slot i of the scratch twin, mostly meaningful for what that object is"""
    o = side.slots[i]
    T = type(o)
    I = lambda v: imm(v)
    c = r.random()
    # ---- operations every object can be asked for
    if c < 0.22:
        k = r.choice(["repr", "str", "hash", "dir", "bool", "len", "iter", "classof", "isinstance", "isinstance", "cmp", "cmp", "cmpslot", "missing",
                      "localname", "contains", "func", "func", "with", "call", "binop", "unop", "setmissing", "delmissing", "next", "getitem"])
        if k in ("repr", "str", "hash", "dir", "bool", "len", "iter", "classof", "next"):
            return [k, i]
        if k == "isinstance": return ["isinstance", i, r.choice(ANY_CLASS)] if r.random() < 0.85 else ["isinst", i, r.choice([I(5), {"slot": r.randrange(len(side.slots))}])]
        if k == "cmp": return ["cmp", i, r.choice(list(CMPS)), I(gen_imm(r, nan_ok=True))]
        if k == "cmpslot": return ["cmp", i, r.choice(list(CMPS)), {"slot": r.randrange(len(side.slots))}]
        if k == "missing": return ["getattr", i, r.choice(MISSING)]
        if k == "localname": return ["getattr", i, r.choice(LOCAL_NAMES)]
        if k == "contains": return ["contains", i, I(gen_imm(r, nan_ok=True))]
        if k == "func": return ["func", i, r.choice(list(FUNCS))]
        if k == "with": return ["with", i, r.choice([None, "ValueError"])]
        if k == "call": return ["call", i, [I(gen_imm(r)) for _ in range(r.choice([0, 1, 2]))], []]
        if k == "binop": return [r.choice(["binop", "rbinop"]), i, r.choice(list(BINOPS)), I(gen_imm(r, nan_ok=True))]
        if k == "unop": return ["unop", i, r.choice(list(UNOPS))]
        if k == "setmissing": return ["setattr", i, r.choice(["fresh", "_fresh", "tag"]), I(gen_imm(r))]
        if k == "delmissing": return ["delattr", i, r.choice(MISSING + ["tag", "fresh"])]
        if k == "getitem": return ["getitem", i, I(gen_imm(r))]
    M = lambda name, *a, **kw: ["callm", i, name, [x if isinstance(x, dict) else I(x) for x in a], [[n, I(v)] for n, v in kw.items()]]
    v = lambda: gen_imm(r)
    if T is list:
        n = len(o)
        return r.choice([
            lambda: M("append", v()), lambda: M("append", {"slot": r.randrange(len(side.slots))}), lambda: M("extend", tuple(v() for _ in range(r.choice([0, 1, 3])))),
            lambda: M("insert", idx_for(r, n), v()), lambda: M("pop"), lambda: M("pop", idx_for(r, n)), lambda: M("remove", member(r, o, v)),
            lambda: M("index", gen_imm(r, nan_ok=True)), lambda: M("count", gen_imm(r, nan_ok=True)), lambda: M("sort"), lambda: M("sort", reverse=True), lambda: M("reverse"), lambda: M("clear"), lambda: M("copy"),
            lambda: M("__len__"), lambda: M("extend", 5), lambda: M("append"),
            lambda: ["getitem", i, I(idx_for(r, n))], lambda: ["getitem", i, I(idx_for(r, n))], lambda: ["getitem", i, I(slice_for(r, n))],
            lambda: ["setitem", i, I(idx_for(r, n)), I(v())], lambda: ["setitem", i, I(slice_for(r, n)), I(tuple(v() for _ in range(r.choice([0, 1, 2]))))],
            lambda: ["setitem", i, I(idx_for(r, n)), {"slot": r.randrange(len(side.slots))}],
            lambda: ["delitem", i, I(idx_for(r, n))], lambda: ["delitem", i, I(slice_for(r, n))], lambda: ["contains", i, I(member(r, o, v))],
            lambda: ["binop", i, "mul", I(r.choice([0, 1, 2, -1, "a"]))], lambda: ["rbinop", i, "mul", I(2)], lambda: ["ibinop", i, "imul", I(r.choice([0, 1, 2]))],
            lambda: ["ibinop", i, "iadd", I(tuple(v() for _ in range(2)))], lambda: ["binop", i, "add", I((1, 2))],
            lambda: ["binop", i, "add", {"slot": r.choice(slots_of_type(side, list))}], lambda: ["cmp", i, r.choice(list(CMPS)), {"slot": r.choice(slots_of_type(side, list))}],
            lambda: ["iter", i], lambda: ["len", i], lambda: ["func", i, r.choice(["sorted", "sum", "min", "max", "reversed", "tuple", "set", "enumerate", "join", "bjoin", "unpack2"])],
            lambda: ["buffiter", i, r.choice([1, 2, 3, 10]), r.choice([1, 2, 3]), r.choice([1, 2, 5, 1000])],
        ])()
    if isinstance(o, Odd):
        same, any_slot = {"slot": i}, {"slot": r.randrange(len(side.slots))}
        return r.choice([
            lambda: ["cmp", i, "eq", same], lambda: ["cmp", i, "ne", same], lambda: ["cmp", i, "lt", same], lambda: ["cmp", i, "eq", same], lambda: ["cmp", i, "ne", same],
            lambda: ["cmp", i, r.choice(["eq", "ne", "lt"]), any_slot], lambda: ["cmp", i, r.choice(["eq", "ne"]), I(v())], lambda: ["getattr", i, r.choice(["compared", "label", "kind"])],
            lambda: ["hash", i], lambda: ["repr", i], lambda: ["bool", i], lambda: M("__eq__", same), lambda: M("__ne__", same),
        ])()
    if isinstance(o, Recorder):
        names = ["zeta", "alpha", "mid", "beta", "omega", "b", "a"]
        kws = lambda: [[n, I(v())] for n in r.sample(names, r.choice([2, 2, 3, 4]))]        # as drawn: mostly not in alphabetical order
        return r.choice([
            lambda: ["callm", i, "record", [I(v()) for _ in range(r.choice([0, 1]))], kws()], lambda: ["callm", i, "record", [], kws()], lambda: ["tcallm", i, "record", [], kws()],
            lambda: ["call", i, [], kws()], lambda: ["call", i, [], kws()], lambda: ["getattr", i, "rows"], lambda: ["callm", i, "record", [], []], lambda: ["repr", i],
        ])()
    if T in (dict, collections.OrderedDict):
        if r.random() < 0.2:
            ks = r.sample(["zeta", "alpha", "mid", "beta", "omega", "b", "a"], r.choice([2, 3, 4]))
            return r.choice([lambda: ["callm", i, "update", [], [[n, I(v())] for n in ks]], lambda: ["tcallm", i, "update", [], [[n, I(v())] for n in ks]],
                             lambda: ["callm", i, "update", [I(((1, 2),))], [[n, I(v())] for n in ks]]])()
        return r.choice([
            lambda: M("get", pick_key(r, o)), lambda: M("get", pick_key(r, o), v()), lambda: M("pop", pick_key(r, o)), lambda: M("pop", pick_key(r, o), v()),
            lambda: M("setdefault", pick_key(r, o), v()), lambda: M("update", tuple((gen_imm(r, 1, True), v()) for _ in range(r.choice([0, 1, 2])))),
            lambda: M("update", k1=v(), k2=v()), lambda: M("keys"), lambda: M("values"), lambda: M("items"), lambda: M("popitem"), lambda: M("clear"), lambda: M("copy"),
            lambda: M("get"), lambda: M("update", 3),
            lambda: ["getitem", i, I(pick_key(r, o))], lambda: ["getitem", i, I(pick_key(r, o))], lambda: ["setitem", i, I(pick_key(r, o)), I(v())],
            lambda: ["setitem", i, I(pick_key(r, o)), {"slot": r.randrange(len(side.slots))}],
            lambda: ["delitem", i, I(pick_key(r, o))], lambda: ["contains", i, I(pick_key(r, o))], lambda: ["iter", i], lambda: ["len", i],
            lambda: ["binop", i, "or", {"slot": r.choice(slots_of_type(side, T))}], lambda: ["ibinop", i, "ior", {"slot": r.choice(slots_of_type(side, T))}],
            lambda: ["func", i, r.choice(["list", "sorted", "dict", "tuple", "set", "reversed", "max"])], lambda: ["cmp", i, "eq", {"slot": r.choice(slots_of_type(side, T))}], lambda: M("move_to_end", pick_key(r, o)),
            lambda: ["buffiter", i, r.choice([1, 2, 10]), r.choice([1, 2]), r.choice([1, 3, 1000])],
        ])()
    if T is set:
        fs = lambda: frozenset(gen_imm(r, 0, True) for _ in range(r.choice([0, 1, 2, 3])))
        return r.choice([
            lambda: M("add", pick_key(r, o)), lambda: M("discard", pick_key(r, o)), lambda: M("remove", pick_key(r, o)), lambda: M("pop"), lambda: M("clear"), lambda: M("copy"),
            lambda: M("union", fs()), lambda: M("update", tuple(fs())), lambda: M("issubset", fs()), lambda: M("isdisjoint", fs()), lambda: M("intersection_update", fs()),
            lambda: M("add"), lambda: M("update", 1),
            lambda: ["binop", i, r.choice(["or", "and", "sub", "xor"]), I(fs())], lambda: ["rbinop", i, r.choice(["or", "and", "sub", "xor"]), I(fs())],
            lambda: ["ibinop", i, r.choice(["ior", "iand", "isub", "ixor"]), I(fs())], lambda: ["binop", i, "or", {"slot": r.choice(slots_of_type(side, set))}],
            lambda: ["cmp", i, r.choice(list(CMPS)), I(fs())], lambda: ["contains", i, I(pick_key(r, o))], lambda: ["len", i], lambda: ["iter", i],
            lambda: ["func", i, r.choice(["sorted", "list", "frozenset", "max", "sum"])], lambda: ["buffiter", i, r.choice([1, 2, 10]), r.choice([1, 2]), r.choice([1, 3, 1000])],
        ])()
    if T is bytearray:
        n = len(o)
        return r.choice([
            lambda: M("append", r.choice([0, 65, 255, 256, -1, "a"])), lambda: M("extend", r.choice(BLOBS)), lambda: M("pop"), lambda: M("decode"), lambda: M("decode", "ascii"),
            lambda: M("hex"), lambda: M("find", r.choice(BLOBS)), lambda: M("upper"), lambda: M("clear"), lambda: M("insert", idx_for(r, n), 66), lambda: M("reverse"),
            lambda: M("startswith", r.choice(BLOBS)), lambda: M("split"), lambda: M("count", r.choice(BLOBS)),
            lambda: ["getitem", i, I(idx_for(r, n))], lambda: ["getitem", i, I(slice_for(r, n))], lambda: ["setitem", i, I(idx_for(r, n)), I(r.choice([0, 97, 256, "x"]))],
            lambda: ["setitem", i, I(slice_for(r, n)), I(r.choice(BLOBS))], lambda: ["delitem", i, I(idx_for(r, n))], lambda: ["contains", i, I(r.choice([97, 0, 256, b"a", "a"]))],
            lambda: ["ibinop", i, "iadd", I(r.choice(BLOBS))], lambda: ["binop", i, "add", I(r.choice(BLOBS))], lambda: ["rbinop", i, "add", I(r.choice(BLOBS))],
            lambda: ["binop", i, "mul", I(r.choice([0, 2]))], lambda: ["binop", i, "mod", I((1,))], lambda: ["cmp", i, r.choice(list(CMPS)), I(r.choice(BLOBS))],
            lambda: ["func", i, r.choice(["bytes", "list", "sum", "max", "reversed", "tuple"])], lambda: ["len", i], lambda: ["iter", i],
            lambda: ["buffiter", i, r.choice([1, 2, 10]), r.choice([1, 2]), r.choice([1, 3, 1000])],
        ])()
    if T is collections.deque:
        n = len(o)
        return r.choice([
            lambda: M("append", v()), lambda: M("appendleft", v()), lambda: M("pop"), lambda: M("popleft"), lambda: M("rotate", r.choice([0, 1, -1, 3])), lambda: M("rotate", "a"),
            lambda: M("extend", tuple(v() for _ in range(3))), lambda: M("extendleft", (1, 2)), lambda: M("count", v()), lambda: M("clear"), lambda: M("reverse"), lambda: M("copy"),
            lambda: M("index", v()), lambda: M("insert", idx_for(r, n), v()), lambda: M("remove", v()),
            lambda: ["getattr", i, "maxlen"], lambda: ["setattr", i, "maxlen", I(3)], lambda: ["getitem", i, I(idx_for(r, n))], lambda: ["setitem", i, I(idx_for(r, n)), I(v())],
            lambda: ["delitem", i, I(idx_for(r, n))], lambda: ["getitem", i, I(slice(0, 1))], lambda: ["contains", i, I(v())], lambda: ["len", i], lambda: ["iter", i],
            lambda: ["ibinop", i, "iadd", I((1, 2))], lambda: ["binop", i, "mul", I(2)], lambda: ["func", i, r.choice(["list", "reversed", "tuple", "sorted"])],
            lambda: ["buffiter", i, r.choice([1, 2, 10]), r.choice([1, 2]), r.choice([1, 3, 1000])],
        ])()
    if isinstance(o, io.IOBase):
        text = isinstance(o, io.TextIOBase)
        data = (lambda: r.choice(["", "text\n", "é", "more"])) if text else (lambda: r.choice(BLOBS))
        wrong = (lambda: b"bytes") if text else (lambda: "text")
        return r.choice([
            lambda: M("read"), lambda: M("read", r.choice([0, 1, 3, 100, -1])), lambda: M("readline"), lambda: M("readlines"), lambda: M("write", data()), lambda: M("write", data()),
            lambda: M("write", wrong()), lambda: M("seek", r.choice([0, 0, 1, 3, 1000])), lambda: M("seek", r.choice([0, -1, 2]), r.choice([0, 1, 2, 3])), lambda: M("tell"),
            lambda: M("flush"), lambda: M("close"), lambda: M("truncate"), lambda: M("truncate", r.choice([0, 2])), lambda: M("readable"), lambda: M("writable"), lambda: M("seekable"),
            lambda: M("writelines", (data(), data())), lambda: M("read", "x"), lambda: M("isatty"),
            lambda: ["getattr", i, r.choice(["closed", "mode", "name", "encoding", "newlines", "raw", "buffer"])], lambda: ["next", i], lambda: ["iter", i],
            lambda: ["with", i, r.choice([None, None, "ValueError", "KeyError"])], lambda: ["func", i, r.choice(["list", "tuple", "sorted", "next_default"])],
            lambda: ["buffiter", i, r.choice([1, 2, 10]), r.choice([1, 2]), r.choice([1, 3, 1000])], lambda: ["setattr", i, "mode", I("w")], lambda: ["len", i],
        ])()
    if isinstance(o, Vec):
        n = len(o.xs)
        num = lambda: r.choice([0, 1, 2, -1, 3, 0.5, 10, True, "s", None, (1, 2)])
        other = lambda: {"slot": r.choice(slots_of_type(side, Vec))}
        arith = ["add", "sub", "mul", "truediv", "floordiv", "mod", "pow", "and", "or", "xor", "lshift", "rshift", "matmul"]
        return r.choice([
            lambda: ["binop", i, r.choice(arith), I(num())], lambda: ["binop", i, r.choice(arith), other()], lambda: ["rbinop", i, r.choice(["add", "sub", "mul", "truediv", "pow"]), I(num())],
            lambda: ["ibinop", i, r.choice(["iadd", "imul", "isub", "itruediv"]), I(num())], lambda: ["ibinop", i, r.choice(["iadd", "imul"]), other()], lambda: ["unop", i, r.choice(list(UNOPS))],
            lambda: ["cmp", i, r.choice(list(CMPS)), I(tuple(r.choice([0, 1, 2, -3, 5]) for _ in range(r.choice([n, n, 1]))))], lambda: ["cmp", i, r.choice(list(CMPS)), other()],
            lambda: ["cmp", i, r.choice(list(CMPS)), I(num())], lambda: ["call", i, [I(v()) for _ in range(r.choice([0, 1, 3]))], [[kw, I(v())] for kw in r.sample(["a", "b", "zz"], r.choice([0, 1, 2]))]],
            lambda: M("scale", r.choice([0, 2, -1, 1.5, "x"])), lambda: M("scale", 2, offset=r.choice([1, -1])), lambda: M("scale", 2, bogus=1), lambda: M("items_ref"), lambda: M("items_val"),
            lambda: M("pair"), lambda: M("clone"), lambda: M("boom", r.choice(list(EXC))), lambda: M("boom", r.choice(list(EXC)), True), lambda: M("_hidden"), lambda: M("norm"),
            lambda: ["getattr", i, r.choice(["norm", "top", "xs", "tag", "_priv", "calls", "scale", "fresh", "flaky"])], lambda: ["setattr", i, "top", I(r.choice([1, 2.5, "x", None]))],
            lambda: ["setattr", i, r.choice(["tag", "fresh", "_priv", "norm", "xs"]), I(v())], lambda: ["delattr", i, r.choice(["top", "tag", "norm", "fresh", "_priv"])],
            lambda: ["getitem", i, I(idx_for(r, n))], lambda: ["getitem", i, I(slice_for(r, n))], lambda: ["setitem", i, I(idx_for(r, n)), I(num())], lambda: ["delitem", i, I(idx_for(r, n))],
            lambda: ["contains", i, I(num())], lambda: ["func", i, r.choice(["int", "float", "index", "list", "sum", "sorted", "tuple", "format", "max", "reversed"])],
            lambda: ["len", i], lambda: ["bool", i], lambda: ["hash", i], lambda: ["iter", i], lambda: ["repr", i], lambda: ["str", i],
            lambda: ["buffiter", i, r.choice([1, 2, 10]), r.choice([1, 2]), r.choice([1, 3, 1000])],
        ])()
    if isinstance(o, CM):
        return r.choice([
            lambda: ["with", i, r.choice([None, None, "ValueError", "KeyError", "Boom", "ZeroDivisionError", "StopIteration"])], lambda: M("value"),
            lambda: ["getattr", i, r.choice(["log", "depth", "swallow"])], lambda: ["setattr", i, "swallow", I(r.choice(["KeyError", "ValueError"]))],
        ])()
    if isinstance(o, Seq):
        return r.choice([
            lambda: ["func", i, r.choice(["list", "sorted", "sum", "tuple", "reversed", "max", "set", "enumerate"])], lambda: ["contains", i, I(r.choice([0, 1, 4, 5, 25, "a"]))],
            lambda: ["getitem", i, I(idx_for(r, o.n))], lambda: ["iter", i], lambda: ["getattr", i, r.choice(["n", "reads"])], lambda: ["len", i],
            lambda: ["buffiter", i, 2, 2, 10],
        ])()
    if isinstance(o, Plain):
        return r.choice([
            lambda: ["getattr", i, r.choice(["a", "b", "_c", "bump", "nope"])], lambda: ["setattr", i, r.choice(["a", "b", "_c", "new"]), I(v())],
            lambda: ["setattr", i, "a", {"slot": r.randrange(len(side.slots))}], lambda: ["delattr", i, r.choice(["a", "b", "new", "nope"])],
            lambda: M("bump"), lambda: M("bump", r.choice([2, -1, "x"])), lambda: M("bump", by=3), lambda: M("get_b"), lambda: M("bump", 1, 2),
            lambda: ["cmp", i, r.choice(["eq", "ne", "lt"]), {"slot": i}], lambda: ["cmp", i, "eq", I(v())], lambda: ["bool", i], lambda: ["repr", i],
        ])()
    if hasattr(o, "__next__"):       # iterators, generators
        extra = [lambda: M("send", v()), lambda: M("close")] if hasattr(o, "send") else [lambda: M("__length_hint__")]
        return r.choice(extra + [
            lambda: ["next", i], lambda: ["next", i], lambda: ["next", i], lambda: ["iter", i], lambda: ["func", i, r.choice(["list", "tuple", "sum", "sorted", "next_default", "set", "max"])],
            lambda: ["buffiter", i, r.choice([1, 2, 3, 4, 10, 50]), r.choice([1, 2, 3, 10]), r.choice([1, 2, 7, 1000])], lambda: ["contains", i, I(v())],
        ])()
    if number_like(o):
        num = lambda: r.choice([0, 1, 2, 3, -1, 7, 2.5, 3.0, 0.5, 1.0, 2 + 0j, True, "s", None, (1,), 10**20])
        arith = ["add", "sub", "mul", "truediv", "floordiv", "mod", "pow", "and", "or", "xor", "lshift", "rshift"]
        return r.choice([
            lambda: ["binop", i, r.choice(arith), I(num())], lambda: ["binop", i, r.choice(arith), I(num())], lambda: ["rbinop", i, r.choice(arith), I(num())],
            lambda: ["rbinop", i, r.choice(arith), I(num())], lambda: ["cmp", i, r.choice(list(CMPS)), I(num())], lambda: ["cmp", i, r.choice(list(CMPS)), I(num())],
            lambda: ["binop", i, r.choice(arith), {"slot": r.randrange(len(side.slots))}], lambda: ["cmp", i, r.choice(list(CMPS)), {"slot": r.randrange(len(side.slots))}],
            lambda: ["ibinop", i, r.choice(["iadd", "imul", "isub"]), I(num())], lambda: ["unop", i, r.choice(list(UNOPS))], lambda: ["hash", i], lambda: ["repr", i], lambda: ["str", i],
            lambda: ["bool", i], lambda: ["func", i, r.choice(["int", "float", "index", "format"])], lambda: M("bit_length"), lambda: M("is_integer"), lambda: M("conjugate"),
            lambda: ["getattr", i, r.choice(["real", "imag", "numerator", "name", "value", "cents", "nope"])], lambda: ["isinstance", i, r.choice(["int", "float", "MyInt", "Color", "Number", "str"])],
            lambda: ["classof", i], lambda: ["setattr", i, "tag", I(1)],
        ])()
    if T in (MyStr, MyTuple, MyFset):
        n = len(o)
        other = {MyStr: lambda: r.choice(["", "a", "b", "zz", 3, b"a", None]), MyTuple: lambda: r.choice([(), (1,), (0, 1), "a", 2, [1] and (2, "a")]),
                 MyFset: lambda: r.choice([frozenset(), frozenset([1]), frozenset([1, 2, "a"]), 3, (1,)])}[T]
        ops = {MyStr: ["add", "mul", "mod"], MyTuple: ["add", "mul"], MyFset: ["or", "and", "sub", "xor"]}[T]
        pick = lambda: (r.choice([0, 1, 2, 3, -1]) if r.random() < 0.4 and T is not MyFset else other())
        return r.choice([
            lambda: ["binop", i, r.choice(ops), I(pick())], lambda: ["rbinop", i, r.choice(ops), I(pick())], lambda: ["cmp", i, r.choice(list(CMPS)), I(other())],
            lambda: ["cmp", i, r.choice(list(CMPS)), I(other())], lambda: ["contains", i, I(r.choice(["a", 1, 0, "ab", 2.5]))], lambda: ["len", i], lambda: ["iter", i], lambda: ["hash", i],
            lambda: ["bool", i], lambda: ["repr", i], lambda: ["str", i], lambda: ["getitem", i, I(idx_for(r, n))], lambda: ["getitem", i, I(slice_for(r, n))],
            lambda: ["func", i, r.choice(["list", "sorted", "tuple", "set", "max", "join", "format", "reversed"])], lambda: M("upper"), lambda: M("count", r.choice(["a", 1])),
            lambda: M("index", r.choice(["a", 1, 0])), lambda: M("union", frozenset([9])), lambda: M("startswith", "a"), lambda: ["isinstance", i, r.choice(["str", "tuple", "frozenset", "MyStr", "Sequence"])],
            lambda: ["classof", i], lambda: ["buffiter", i, 2, 2, 4],
        ])()
    if is_shape(o) or is_shape_class(o):
        n = 3 if is_shape_class(o) else len(o.items)
        few = lambda: [I(v()) for _ in range(r.choice([0, 1, 2]))]
        common = [
            lambda: ["len", i], lambda: ["len", i], lambda: ["iter", i], lambda: ["bool", i], lambda: ["bool", i], lambda: ["getitem", i, I(idx_for(r, n))],
            lambda: ["getitem", i, I(r.randrange(n + 1))], lambda: ["contains", i, I(r.choice([0, 1, 2, "a", 9]))], lambda: ["with", i, r.choice([None, None, "ValueError", "KeyError"])],
            lambda: ["call", i, few(), [[kw, I(v())] for kw in r.sample(["a", "b"], r.choice([0, 0, 1]))]],
            lambda: ["func", i, r.choice(["list", "sorted", "tuple", "sum", "max", "set", "enumerate"])], lambda: ["buffiter", i, r.choice([1, 2, 10]), r.choice([1, 2]), r.choice([1, 3, 1000])],
            lambda: ["getattr", i, r.choice(["kind", "made", "items", "log", "describe", "nope"])], lambda: ["repr", i], lambda: ["str", i], lambda: ["hash", i], lambda: ["dir", i],
            lambda: ["classof", i], lambda: ["cmp", i, r.choice(["eq", "ne"]), {"slot": r.randrange(len(side.slots))}], lambda: ["next", i],
            lambda: ["isinst", i, {"slot": r.randrange(len(side.slots))}], lambda: ["isinst", i, {"slot": r.randrange(len(side.slots))}], lambda: ["isinst", i, I(r.choice([5, "a", None, (1,)]))],
            lambda: M("make", *[v() for _ in range(r.choice([0, 1, 3]))]),
        ]
        if is_shape(o):
            common += [lambda: M("describe"), lambda: M("describe", "<", suffix=">"), lambda: M("describe", 1, 2, 3), lambda: ["setattr", i, r.choice(["items", "extra"]), I((1, 2))],
                       lambda: ["delattr", i, r.choice(["extra", "log"])], lambda: ["getattr", i, "__class__"]]
        else:
            common += [lambda: ["call", i, [I(tuple(v() for _ in range(r.choice([0, 1, 3]))))], []], lambda: ["call", i, [I(tuple(v() for _ in range(2)))], []],
                       lambda: ["getattr", i, r.choice(["__name__", "__qualname__", "__module__", "__mro__"])], lambda: ["setattr", i, "made", I(7)]]
        return r.choice(common)()
    if callable(o):                  # bound methods, functions, classes fetched with getattr
        return r.choice([
            lambda: ["call", i, [I(v()) for _ in range(r.choice([0, 1, 1, 2]))], []], lambda: ["call", i, [I(v())], [["bogus", I(1)]]], lambda: ["repr", i],
            lambda: ["getattr", i, r.choice(["__name__", "__self__", "__doc__"])], lambda: ["cmp", i, "eq", {"slot": i}],
        ])()
    # views and anything else that came back as a reference
    return r.choice([
        lambda: ["iter", i], lambda: ["len", i], lambda: ["contains", i, I(v())], lambda: ["func", i, r.choice(["list", "sorted", "tuple", "set"])], lambda: ["repr", i],
        lambda: ["binop", i, "or", I(frozenset([1]))], lambda: ["cmp", i, "eq", I(v())], lambda: ["buffiter", i, 2, 2, 4],
    ])()


def plain_method(T, name):
    """is T.name an ordinary method (a function or a C method descriptor found on the type), so that T.name(x, ...) is x.name(...)?"""
    import types
    for k in T.__mro__:
        if name in k.__dict__:
            return isinstance(k.__dict__[name], (types.FunctionType, types.MethodDescriptorType, types.WrapperDescriptorType))
    return False


def number_like(o):
    return isinstance(o, (MyInt, MyFloat, Money)) or isinstance(o, enum.IntEnum)


def value_like(o):
    """targets whose operators are pure functions of their value (safe to ask the twin twice)"""
    return number_like(o) or isinstance(o, (MyStr, MyTuple, MyFset))


def first_method_declines(twin_obj, op):
    """does the special method Python tries first for this operator on the target return NotImplemented for this operand?"""
    k, T = op[0], type(twin_obj)
    if not value_like(twin_obj) or "imm" not in op[3]:
        return False
    name = op[2]
    if k == "cmp": d = "__%s__" % name
    elif k == "binop": d = "__%s__" % name
    elif k == "rbinop": d = "__r%s__" % name
    elif k == "ibinop": d = "__%s__" % name if has_special(T, "__%s__" % name) else "__%s__" % name[1:]
    else: return False
    if not has_special(T, d):
        return False
    try:
        return getattr(T, d)(twin_obj, mk_value(op[3], {})) is NotImplemented
    except Exception:
        return False


def tame(r, op):
    """operands that would make Python itself run (nearly) forever or allocate gigabytes -- x ** 10**30, [0] * 2**31, 1 << 10**30 --
    are replaced by small ones: cost is not part of the property"""
    if op[0] in ("binop", "rbinop", "ibinop") and op[2] in ("pow", "mul", "lshift", "imul") and "imm" in op[3]:
        v = mk_value(op[3], {})

        def big(x):
            if type(x) is int:
                return abs(x) > 64
            if type(x) is float:
                return x != x or abs(x) > 64
            if type(x) in (tuple, frozenset):
                return any(big(y) for y in x)
            return type(x) is complex
        if big(v):
            op = op[:3] + [imm(r.choice([0, 1, 2, 3, -1, 5]))]
    return op


def gen_case(r, cfg, nops=25, kind=None):
    """generate online against a scratch twin so that indexes, keys and method names are mostly meaningful"""
    spec = gen_target(r, kind or r.choice(KINDS))
    tmp = tempfile.mkdtemp(prefix="c02g-")
    env = {"dir": tmp, "dirs": (tmp,)}
    side = Side("scratch", env)
    ops = []
    try:
        side.slots.extend(build_roots(spec, env))
        for _ in range(r.randint(3, nops)):
            i = 0 if r.random() < 0.55 or len(side.slots) == 1 else r.randrange(len(side.slots))
            if spec[0] == "multi" and r.random() < 0.8:
                i = r.randrange(len(spec[1]))       # the objects that were lent, in any order
            if len(side.slots) > 1 and r.random() < 0.25:
                i = len(side.slots) - 1
            for _try in range(4):
                try:
                    op = gen_op(r, side, i)
                    break
                except Exception:            # r.choice([]) when no slot of the wanted type exists; objects whose fields were overwritten
                    continue
            else:
                op = [r.choice(["repr", "len", "bool", "iter"]), i]
            op = tame(r, op)
            if op[0] == "callm" and r.random() < 0.2 and plain_method(type(side.slots[op[1]]), op[2]):
                op = ["tcallm"] + op[1:]
            ops.append(op)
            nd = needs(op, side.slots[op[1]])
            if nd is not None and not permitted(cfg, nd):
                continue
            res, val, how, exc = outcome(side, op, False)
            if res == ("exc", "RecursionError"):
                ops.pop()
                continue
            if res[0] == "ok" and how in ("remote", "rebind"):
                if how == "rebind" and res[1][0] == "ref":
                    side.slots[op[1]] = val
                elif res[1][:2] == ("ref", "new"):
                    side.slots.append(val)
    finally:
        for f in env.get("files", ()):
            try:
                f.close()
            except Exception:
                pass
        shutil.rmtree(tmp, ignore_errors=True)
    return {"cfg": cfg, "target": spec, "ops": ops}


# ------------------------------------------------------------------------------------------------ correspondence with the model

def tree_facts():
    """the facts of the tree the theorems are conditional on, re-translated from C.REPO (coq/gen is shared)"""
    from tools.pygen import netref as T
    vals = {it.name: it.coq_term for it in T.translate(C.REPO) if it.kind == "typed"}
    return {"getattr_repeats": vals.get("getattr_repeats_request") == "true", "ctxexit_delivers": vals.get("ctxexit_delivers") == "true",
            "reflects": vals.get("reflects") == "true",
            "translated": sorted(vals)}


def model_ops(op, methods, twin_type):
    """the model operations a primitive harness operation consists of, as (model op sx, operand specs, which proxy: 'target' | 'result'),
    or None when the interpreter's own fallback chains decide what is asked (then only results are compared)"""
    k = op[0]
    ms = methods or []
    sp = lambda d, n, kw=(): ["special", d, n, list(kw)]
    if k == "getattr": return [(["getattr", op[2]], [], "target")]
    if k == "setattr": return [(["setattr", op[2]], [op[3]], "target")]
    if k == "delattr": return [(["delattr", op[2]], [], "target")]
    if k == "callm":
        return [(["getattr", op[2]], [], "target"), (sp("__call__", len(op[3]), [n for n, _ in op[4]]), list(op[3]) + [v for _, v in op[4]], "result")]
    if k == "call": return [(sp("__call__", len(op[2]), [n for n, _ in op[3]]), list(op[2]) + [v for _, v in op[3]], "target")]
    if k == "tcallm" and op[2] in ms:
        return [(sp(op[2], len(op[3]), [n for n, _ in op[4]]), list(op[3]) + [v for _, v in op[4]], "target")]
    if k == "cmp": return [(sp("__%s__" % op[2], 1), [op[3]], "target")]
    if k in ("hash", "repr", "str", "dir"): return [(sp("__%s__" % k, 0), [], "target")]
    if k in ("len", "iter", "next"): return [(sp("__%s__" % k, 0), [], "target")]
    if k == "bool":
        for d in ("__bool__", "__len__"):
            if d in ms:
                return [(sp(d, 0), [], "target")]
        return [(sp("__bool__", 0), [], "target")]
    if k == "unop": return [(sp("__%s__" % op[2], 0), [], "target")]
    if k in ("getitem", "delitem"): return [(sp("__%s__" % k, 1), [op[2]], "target")]
    if k == "setitem": return [(sp("__setitem__", 2), [op[2], op[3]], "target")]
    if k == "contains" and "__contains__" in ms: return [(sp("__contains__", 1), [op[2]], "target")]
    if k == "binop" and "imm" in op[3]: return [(sp("__%s__" % op[2], 1), [op[3]], "target")]
    return None


STRICT = ("getattr", "setattr", "delattr", "call", "tcallm", "hash", "repr", "str", "dir", "len", "iter", "next", "bool", "unop", "getitem", "setitem",
          "delitem", "contains")     # exactly the model's requests; for the others the first request must be the model's


def op_operand_canon(spec):
    if "slot" in spec:
        return ("slot", spec["slot"])
    return open_tuples(mk_value(spec, {}))


def inst_request(rq, target_slot, operands):
    """model request [handler, [wargs]] with the operation's operands put in -> what unbox_canon gives for the real request"""
    handler, wargs = rq[0].decode(), rq[1]
    out = [("slot", target_slot)]
    for w in wargs:
        t = w[0].decode()
        if t == "str":
            out.append(("val", V.canon(w[1].decode())))
        elif t == "op":
            out.append(operands[w[1]] if w[1] < len(operands) else ("missing-operand", w[1]))
        elif t == "tuple":
            out.append(("tuple",) + tuple(operands[i] for i in w[1]))
        elif t == "kw":
            out.append(("tuple",) + tuple(("tuple", ("val", V.canon(kv[0].decode())), operands[kv[1]]) for kv in w[1]))
    return handler, ("tuple",) + tuple(out)


def correspond(ctx, model, facts, records):
    """model vs implementation on every recorded step: requests on the wire, permission, and the model's own routing/denotation identity"""
    queries, index = [], []
    for ri, rec in enumerate(records):
        if rec["methods"] is None:
            continue
        mo = model_ops(rec["op"], rec["methods"], rec["twin_type"])
        if mo is None:
            continue
        for j, (msx, operands, which) in enumerate(mo):
            ms = rec["methods"] if which == "target" else ["__call__"]
            byval0 = int(bool(operands) and "imm" in operands[0])
            queries.append(["op", [CFG_IDS[rec["cfg"]], int(facts["getattr_repeats"]), int(facts["ctxexit_delivers"]), int(facts.get("reflects", False))],
                            ms, msx, [1, byval0]])
            index.append((ri, j, operands, which))
    # buffered iteration: the schedule
    bq, bidx = [], []
    for ri, rec in enumerate(records):
        if rec["op"][0] == "buffiter" and rec.get("fetches") is not None and rec["result"][0] == "ok":
            n = len(rec["result"][1]) - 1
            bq.append(["buffiter", rec["op"][2], rec["op"][4], rec["op"][3], n])
            bidx.append((ri, n))
    outs = model.batch(queries + bq)
    per = {}
    for (ri, j, operands, which), out in zip(index, outs[:len(queries)]):
        per.setdefault(ri, []).append((j, operands, which, out))
    for ri, lst in per.items():
        rec = records[ri]
        op, cfg = rec["op"], rec["cfg"]
        ctx.model_traces += 1
        expected, all_perm, unmodelled = [], True, False
        for j, operands, which, out in lst:
            if out == [b"badinput"]:
                ctx.tie_broken("correspondence:model-input", "op %r" % (op,))
                unmodelled = True
                break
            routed, fb, served, direct_act, forwarded, wf, perm_direct, perm_served, spec_reflect = out
            kind = routed[0].decode()
            ops_c = [op_operand_canon(s) for s in operands]
            if forwarded and wf and kind == "send":
                # T1 on this instance: the handler's action is the operation, its checks are the operation's
                if served[0] != b"ok" or (served[1][0] != direct_act and not (op[0] == "with")) or bool(perm_served) != bool(perm_direct) \
                        or (served[0] == b"ok" and served[1][2] != spec_reflect):
                    if not (msx_is_exit(direct_act) and not facts["ctxexit_delivers"]):
                        ctx.tie_broken("correspondence:model-routing-identity", "op %r: served %r direct %r" % (op, served, direct_act))
            if which == "target":
                all_perm = all_perm and bool(perm_direct)
            if kind == "send":
                tslot = op[1] if which == "target" else None
                h, args = inst_request(routed[1], tslot, ops_c)
                expected.append((h, args, which, fb))
            elif kind in ("local", "raise", "nomethod"):
                expected.append((None, kind, which, fb))
                if which == "target":
                    break            # no attribute value to call
            else:
                unmodelled = True
        if unmodelled:
            continue
        # --- permission: the model's reading of the configuration against the harness's own table
        first_kind = expected[0][0] if expected else None
        if rec["pred"] is not None and first_kind is not None and op[0] != "callm":
            if bool(all_perm) != bool(rec["pred"]):
                ctx.tie_broken("correspondence:permitted", "op %r under %s: model %r harness %r" % (op, cfg, all_perm, rec["pred"]))
        # --- the requests actually sent
        obs = rec["reqs"]
        exp_first = expected[0] if expected else None
        if exp_first is None:
            continue
        if exp_first[0] is None:
            # answered by the proxy / no such method: nothing is sent for a non-local name; a local name may fall back to one remote read
            if exp_first[1] == "nomethod" and op[0] in STRICT and obs and not (op[0] == "bool"):
                ctx.tie_broken("correspondence:requests", "op %r: model says the class has no such method, sent %r" % (op, [h for h, _ in obs]))
            continue
        h, args, which, fb = exp_first
        if not obs:
            ctx.tie_broken("correspondence:requests", "op %r under %s: model expects %s, nothing was sent" % (op, cfg, h))
            continue
        o_h, o_args = obs[0]
        if which == "target" and (o_h != h or o_args != args):
            ctx.tie_broken("correspondence:requests", "op %r under %s: model %s %s, sent %s %s" % (op, cfg, h, short(args, 200), o_h, short(o_args, 200)))
            continue
        if op[0] in STRICT:
            want = 1
            failed_attr = rec["result"] == ("exc", "builtins.AttributeError")
            if op[0] == "getattr" and fb and failed_attr:
                want = 2                                  # Python's fallback to __getattr__ repeats the read
            if len(obs) != want or any(x != obs[0] for x in obs[1:]):
                ctx.tie_broken("correspondence:requests", "op %r under %s: model expects %d request(s) %s, sent %r" % (op, cfg, want, h, [x[0] for x in obs]))
        elif op[0] == "callm" and len(expected) > 1 and len(obs) > 1 and expected[1][0] is not None:
            # the call on the attribute's value: handler and layout (the value's proxy is not a slot yet)
            h2, args2, _, _ = expected[1]
            o2h, o2a = obs[-1]
            if o2h == "HANDLE_CALL" and (h2 != o2h or o2a[2:] != args2[2:]):
                ctx.tie_broken("correspondence:requests", "op %r: call of the attribute value: model %s %s, sent %s %s" % (op, h2, short(args2[2:], 200), o2h, short(o2a[2:], 200)))
    for (ri, n), out in zip(bidx, outs[len(queries):]):
        rec = records[ri]
        ctx.model_traces += 1
        if out[0] != b"ok":
            ctx.tie_broken("correspondence:buffiter", "op %r: model %r" % (rec["op"], out))
            continue
        yielded, left, counts = out[1]
        if not hasattr(rec["twin_type"], "__iter__") and list(rec["fetches"]) == []:
            # iterable only through __getitem__: iter() builds a local iterator over the proxy, there is nothing to buffer
            # (the repaired buffiter yields from it directly; the model's chunk schedule is about remote iterators)
            ctx.count("buffiter:local-sequence-iterator")
            continue
        if len(yielded) != n or left != 0 or list(counts) != list(rec["fetches"]):
            ctx.tie_broken("correspondence:buffiter", "op %r on %d items: model counts %r left %r, implementation asked %r" % (rec["op"], n, counts, left, rec["fetches"]))


def msx_is_exit(direct_act):
    return direct_act and direct_act[0] == b"exit"


# ------------------------------------------------------------------------------------------------ buffered iteration with any parameters

def check_buffiter_params(ctx, model, r, n_cases):
    """buffiter over a proxied iterator for valid and invalid (chunk, factor, max_chunk): items, what is left, counts asked"""
    cases, queries = [], []
    for _ in range(n_cases):
        n = r.choice([0, 1, 2, 3, 7, 10, 11, 50, 200, 1000])
        c = r.random()
        if c < 0.7:
            chunk, factor, maxc = r.choice([1, 2, 3, 10, 64, 5000]), r.choice([1, 2, 3, 10]), r.choice([1, 2, 7, 100, 1000, 10**6])
        else:
            chunk, factor, maxc = r.choice([0, -1, 1, 5]), r.choice([0, -2, 1, 2]), r.choice([0, -3, 1, 4])
        cases.append((n, chunk, factor, maxc))
        queries.append(["buffiter", chunk, maxc, factor, n])
    outs = model.batch(queries) if model else [None] * len(cases)
    w = World("classic", ["list", []])
    try:
        for (n, chunk, factor, maxc), out in zip(cases, outs):
            target = iter(list(range(n)))
            p = w.ca._unbox(w.cb._box(target))
            del w.tap.reqs[:]
            try:
                with C.time_limit(60):
                    got = ("ok", list(buffiter(p, chunk, maxc, factor)))
            except C.Hang:
                got = ("hang", len(w.tap.reqs))
            except Exception as e:
                got = ("exc", C.exc_enum(e))
            fetches = fetch_counts(w.tap.reqs)
            left = len(list(target)) if got[0] == "ok" else None
            valid = chunk >= 1 and factor >= 1 and maxc >= 1
            key = ("buffiter", n, chunk, factor, maxc)
            ctx.case(key, nontrivial=n > 0, sample={"buffiter": [n, chunk, factor, maxc], "fetches": fetches[:8], "outcome": got[0]})
            ctx.count("buffiter:" + ("valid" if valid else "invalid"))
            case = {"buffiter_params": [n, chunk, factor, maxc]}
            if valid and (got != ("ok", list(range(n))) or left != 0):
                ctx.violation("buffiter:items-differ", case, observed=short(got), expected="all %d items in order, iterator exhausted" % n,
                              what="buffiter(chunk=%d, factor=%d, max_chunk=%d) over %d items" % (chunk, factor, maxc, n))
            if got[0] == "hang":
                ctx.violation("buffiter:does-not-terminate", case, observed="%d requests sent and still running after 60 s" % got[1], expected="returns or raises",
                              what="buffiter(chunk=%d, factor=%d, max_chunk=%d) over %d items never returns" % (chunk, factor, maxc, n))
                w.close()
                w = World("classic", ["list", []])
                continue
            if factor < 1 and got != ("exc", "ValueError"):
                ctx.violation("buffiter:factor-below-one-accepted", case, observed=short(got), expected="ValueError", what="factor < 1 must be rejected")
            if out is not None:
                ctx.model_traces += 1
                if out[0] == b"ok":
                    m = ("ok", list(out[1][0]), out[1][1], list(out[1][2]))
                    mine = (got[0], got[1] if got[0] == "ok" else None, left, fetches)
                    if m != mine:
                        ctx.tie_broken("correspondence:buffiter", "params %r: model %s, implementation %s" % ((n, chunk, factor, maxc), short(m, 200), short(mine, 200)))
                elif out[0] == b"exc":
                    if got != ("exc", out[1].decode()):
                        ctx.tie_broken("correspondence:buffiter", "params %r: model raises %s, implementation %s" % ((n, chunk, factor, maxc), out[1], short(got)))
                else:
                    ctx.tie_broken("correspondence:buffiter", "params %r: model %r" % ((n, chunk, factor, maxc), out))
    finally:
        w.close()


# ------------------------------------------------------------------------------------------------ entry points

def I_(v):
    return imm(v)


CORPUS = [
    # one clear instance of every shape that has been triaged, then plain sanity
    {"cfg": "classic", "target": ["cm", "ValueError", False, False], "ops": [["with", 0, "ValueError"], ["getattr", 0, "log"]]},
    {"cfg": "default", "target": ["cm", "KeyError", False, False], "ops": [["with", 0, None], ["with", 0, "KeyError"], ["callm", 0, "value", [], []]]},
    {"cfg": "classic", "target": ["vec", [1, 2]], "ops": [["getattr", 0, "__module__"], ["getattr", 0, "__doc__"], ["classof", 0]]},
    {"cfg": "classic", "target": ["vec", [1, 2]], "ops": [["getattr", 0, "flaky"], ["getattr", 0, "calls"]]},
    {"cfg": "classic", "target": ["list", [I_(1)]], "ops": [["isinstance", 0, "Callable"], ["isinstance", 0, "Hashable"], ["isinstance", 0, "list"], ["isinstance", 0, "Sequence"]]},
    {"cfg": "classic", "target": ["listiter", [I_(1)]], "ops": [["binop", 0, "or", I_(3)]]},
    {"cfg": "classic", "target": ["bytearray", "6162"], "ops": [["func", 0, "bytes"], ["rbinop", 0, "add", I_(b"xy")]]},
    {"cfg": "classic", "target": ["seq", 3], "ops": [["func", 0, "list"], ["buffiter", 0, 2, 2, 10]]},
    {"cfg": "classic", "target": ["deque", [I_(1), I_(2)], None], "ops": [["getitem", 0, I_(1)], ["getitem", 0, I_(10**30)]]},
    {"cfg": "classic", "target": ["list", [I_(3), I_(1), I_(2)]],
     "ops": [["callm", 0, "append", [I_(4)], []], ["callm", 0, "sort", [], []], ["getitem", 0, I_(0)], ["getitem", 0, I_(9)], ["getitem", 0, I_(slice(1, 3))],
             ["len", 0], ["iter", 0], ["next", 1], ["func", 0, "list"], ["buffiter", 0, 2, 2, 3], ["contains", 0, I_(4)], ["delitem", 0, I_(0)], ["repr", 0],
             ["cmp", 0, "eq", {"slot": 0}], ["hash", 0], ["bool", 0], ["dir", 0], ["isinstance", 0, "list"], ["classof", 0], ["setattr", 0, "x", I_(1)],
             ["tcallm", 0, "sort", [], [["reverse", I_(True)]]], ["tcallm", 0, "index", [I_(4)], []], ["tcallm", 0, "append", [], []]]},
    {"cfg": "public", "target": ["dict", [[I_("a"), I_(1)], [I_("b"), {"mk": ["list", [I_(2)]]}]]],
     "ops": [["getitem", 0, I_("a")], ["getitem", 0, I_("zz")], ["getitem", 0, I_("b")], ["callm", 1, "append", [I_(5)], []], ["callm", 0, "keys", [], []],
             ["func", 2, "sorted"], ["setitem", 0, I_("c"), I_((1, 2))], ["callm", 0, "pop", [I_("a")], []], ["func", 0, "dict"], ["setattr", 0, "x", I_(1)]]},
    {"cfg": "default", "target": ["vec", [1, 2, 3]],
     "ops": [["binop", 0, "add", I_(1)], ["binop", 0, "matmul", {"slot": 0}], ["rbinop", 0, "mul", I_(2)], ["ibinop", 0, "iadd", I_(1)], ["cmp", 0, "lt", I_((9, 9, 9))],
             ["call", 0, [I_(1)], [["k", I_(2)]]], ["callm", 0, "scale", [I_(2)], []], ["getattr", 0, "norm"], ["len", 0], ["func", 0, "int"], ["hash", 0], ["str", 0]]},
    {"cfg": "classic", "target": ["file", "r+b", b"alpha\nbeta\n".hex()],
     "ops": [["callm", 0, "readline", [], []], ["callm", 0, "write", [I_(b"X")], []], ["callm", 0, "seek", [I_(0)], []], ["func", 0, "list"], ["with", 0, None],
             ["callm", 0, "read", [], []], ["getattr", 0, "closed"]]},
    {"cfg": "classic", "target": ["gen", [I_(1), I_(2), I_(3), I_(4)], 2, "ValueError"], "ops": [["next", 0], ["next", 0], ["next", 0], ["next", 0]]},
    # comparing an object with itself through its proxy: non-reflexive, expression-building, counting ==
    {"cfg": "default", "target": ["multi", [["odd", "nan", "a"], ["odd", "sym", "s"], ["odd", "audit", "c"]]],
     "ops": [["cmp", 0, "eq", {"slot": 0}], ["cmp", 0, "ne", {"slot": 0}], ["cmp", 1, "eq", {"slot": 1}], ["cmp", 1, "ne", {"slot": 1}], ["cmp", 2, "eq", {"slot": 2}],
             ["cmp", 2, "ne", {"slot": 2}], ["getattr", 2, "compared"], ["cmp", 2, "eq", {"slot": 0}], ["cmp", 1, "lt", {"slot": 1}]]},
    # keyword operands arrive in the order written
    {"cfg": "classic", "target": ["multi", [["dict", [[I_("k"), I_(0)]]], ["odict", [[I_("k"), I_(0)]]], ["recorder"]]],
     "ops": [["callm", 0, "update", [], [["zeta", I_(1)], ["alpha", I_(2)]]], ["callm", 1, "update", [], [["zeta", I_(1)], ["alpha", I_(2)], ["mid", I_(3)]]],
             ["tcallm", 0, "update", [], [["z", I_(4)], ["m", I_(5)]]], ["callm", 2, "record", [I_(1)], [["zeta", I_(1)], ["alpha", I_(2)]]], ["call", 2, [], [["b", I_(1)], ["a", I_(2)]]],
             ["tcallm", 2, "record", [], [["y", I_(1)], ["x", I_(2)]]], ["func", 0, "list"], ["func", 1, "list"], ["getattr", 2, "rows"]]},
    {"cfg": "public", "target": ["multi", [["odict", []], ["recorder"]]],
     "ops": [["callm", 0, "update", [], [["zeta", I_(1)], ["alpha", I_(2)]]], ["callm", 1, "record", [], [["zeta", I_(1)], ["alpha", I_(2)]]], ["call", 1, [], [["b", I_(1)], ["a", I_(2)]]]]},
]


def family_corpus():
    """instances of four different classes that are all called harness.C02.Shape (and the classes themselves), lent over one
    connection in both orders, under every configuration; each is then used through the special methods only it has"""
    members = [("bag", [1, 2, 3]), ("row", [4, 5]), ("gate", []), ("tally", [7]), ("bare", [8])]
    use = {"bag": lambda i: [["len", i], ["contains", i, I_(2)], ["func", i, "list"], ["getitem", i, I_(0)], ["buffiter", i, 2, 2, 4]],
           "row": lambda i: [["getitem", i, I_(1)], ["len", i], ["func", i, "list"], ["contains", i, I_(5)], ["getitem", i, I_(7)]],
           "gate": lambda i: [["with", i, None], ["with", i, "KeyError"], ["len", i], ["getattr", i, "log"]],
           "tally": lambda i: [["bool", i], ["call", i, [I_(1)], [["k", I_(2)]]], ["func", i, "list"], ["bool", i], ["len", i]],
           "bare": lambda i: [["bool", i], ["len", i], ["iter", i], ["callm", i, "describe", [I_("<")], [["suffix", I_(">")]]], ["call", i, [], []]]}
    out = []
    for cfg in ("classic", "public", "default"):
        for order in (members, members[::-1], members[2:] + members[:2]):
            roots = [["shape", v, [I_(x) for x in items], False] for v, items in order]
            ops = []
            for i, (v, _) in enumerate(order):
                ops += use[v](i)
            out.append({"cfg": cfg, "target": ["multi", roots], "ops": ops})
        # the classes lent as classes, then instances made through them, then a second class of one of the variants
        roots = [["shapeclass", "bag", False], ["shapeclass", "row", False], ["shape", "gate", [], False], ["shapeclass", "bag", True]]
        ops = [["call", 0, [I_((1, 2))], []], ["call", 1, [I_((3, 4, 5))], []], ["len", 4], ["len", 5], ["getitem", 5, I_(0)], ["contains", 4, I_(1)], ["with", 2, None],
               ["callm", 3, "make", [I_(9)], []], ["len", 6], ["getattr", 0, "made"], ["getattr", 3, "made"], ["getattr", 0, "kind"], ["getattr", 1, "__name__"],
               ["cmp", 0, "eq", {"slot": 3}], ["cmp", 0, "eq", {"slot": 0}], ["repr", 1], ["len", 0], ["bool", 1]]
        out.append({"cfg": cfg, "target": ["multi", roots], "ops": ops})
        out.append({"cfg": cfg, "target": ["multi", [["color", 2], ["shapeclass", "bag", False], ["shape", "bag", [I_(1)], False], ["shape", "row", [], False], ["list", []]]],
                    "ops": [["isinstance", 0, "Color"], ["classof", 0], ["isinstance", 0, "int"], ["isinst", 1, {"slot": 2}], ["isinst", 1, {"slot": 3}],
                            ["isinst", 1, {"slot": 4}], ["isinst", 1, {"slot": 1}], ["isinst", 2, {"slot": 2}], ["isinst", 1, I_(5)], ["classof", 2], ["isinstance", 4, "list"]]})
    return out


def check_cases(ctx, model, facts, cases):
    records = []
    for case in cases:
        col = []
        before = len(ctx.violations)
        try:
            sigs = run_case(ctx, case, collect=col)
        except Exception as e:          # the harness itself failed on this case: report, do not hide
            import traceback
            ctx.tie_broken("harness:exception", "%s\n%s" % (json.dumps(case)[:1500], traceback.format_exc()[-1500:]))
            continue
        n_perm = sum(1 for c in col if c["pred"] is not False)
        ctx.case(json.dumps(case, sort_keys=True), nontrivial=(len(col) >= 3 and n_perm >= 2),
                 sample={"cfg": case["cfg"], "target": case["target"][0], "ops": [o[0] for o in case["ops"]][:12], "differences": sigs})
        ctx.count("cfg:" + case["cfg"])
        ctx.count("target:" + case["target"][0])
        if case["target"][0] == "multi":
            ctx.count("same-named-classes:%d-lent" % sum(1 for x in case["target"][1] if x[0] in ("shape", "shapeclass")))
        records.extend(col)
    if model is not None:
        correspond(ctx, model, facts, records)


def run(ctx):
    r = ctx.rng
    model = C.Model("proxyops")
    model = model if model.available() else None
    facts = tree_facts()
    ctx.coverage_extra["tree_facts"] = facts
    ctx.coverage_extra["triaged_shapes"] = FAMILIES
    ctx.coverage_extra["rule"] = ("a case is a target specification (list, dict, set, bytearray, deque, list/dict iterator, generator (possibly raising), "
                                  "temp file in 7 modes, user classes with operators/properties/context manager/getitem-only/plain attributes, nested; or a family: two to "
                                  "five objects lent one after the other over one connection -- instances of distinct classes that share the module-qualified name "
                                  "harness.C02.Shape but differ in their special methods, and such classes themselves, in every order) plus up to 25 "
                                  "operations generated online against a scratch twin (mostly meaningful indexes, keys, methods; plus out-of-range, wrong-type, missing-name, "
                                  "arity errors), run under classic/public/default; result and deep state of every reached object compared after every step; "
                                  "non-trivial = at least 3 steps of which 2 permitted; distinct by the whole case; plus buffiter parameter cases")
    n_seq, n_buff = (1500, 300) if ctx.quick else (20000, 3000)
    cases = list(CORPUS) + family_corpus()
    for i in range(n_seq):
        cfg = r.choice(["classic", "classic", "public", "default"])
        cases.append(gen_case(r, cfg))
    check_builtin_classes(ctx)
    for i in range(0, len(cases), 500):
        check_cases(ctx, model, facts, cases[i:i + 500])
    check_buffiter_params(ctx, model, r, n_buff)


def replay(ctx, rep):
    case = rep["case"] or {}
    model = C.Model("proxyops")
    model = model if model.available() else None
    facts = tree_facts()
    if "buffiter_params" in case:
        replay_buffiter(ctx, case["buffiter_params"])
    elif "ops" in case:
        check_cases(ctx, model, facts, [{"cfg": case["cfg"], "target": case["target"], "ops": case["ops"]}])


def replay_buffiter(ctx, params):
    n, chunk, factor, maxc = params
    w = World("classic", ["list", []])
    try:
        target = iter(list(range(n)))
        p = w.ca._unbox(w.cb._box(target))
        try:
            got = ("ok", list(buffiter(p, chunk, maxc, factor)))
        except Exception as e:
            got = ("exc", C.exc_enum(e))
        left = len(list(target)) if got[0] == "ok" else None
        ctx.case(("buffiter", n, chunk, factor, maxc), nontrivial=True)
        if chunk >= 1 and factor >= 1 and maxc >= 1 and (got != ("ok", list(range(n))) or left != 0):
            ctx.violation("buffiter:items-differ", {"buffiter_params": [n, chunk, factor, maxc]}, observed=short(got), expected="all items", what="replay")
        if factor < 1 and got != ("exc", "ValueError"):
            ctx.violation("buffiter:factor-below-one-accepted", {"buffiter_params": [n, chunk, factor, maxc]}, observed=short(got), expected="ValueError", what="replay")
    finally:
        w.close()
