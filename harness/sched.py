"""Deterministic cooperative scheduler for real Python threads (sys.settrace + one semaphore per thread).
A thread parks before every traced source line for which `label_of(frame)` returns a label; the driver
decides which parked thread runs next.  One step = from one yield point to the next (or to the end)."""
import sys, threading

class Deadlock(Exception):
    pass


class Sched:
    wall_hits = 0        # how often a step ran into the wall-clock limit in this process (see _limit)

    def __init__(self, codes, label_of, step_timeout=5.0):
        self.codes = set(codes)
        self.label_of = label_of
        self.step_timeout = step_timeout

    def run(self, thunks, chooser, max_steps=2000):
        """chooser(step_index, enabled: list[tid], parked_labels: dict tid->label, last_tid) -> tid
        returns trace: list of dict(tid, label (the line it was parked at and has now executed), after: label or None)"""
        n = len(thunks)
        sems = [threading.Semaphore(0) for _ in range(n)]
        main = threading.Semaphore(0)
        parked = {}
        done = set()
        errors = {}
        me = self

        def make_tracer(tid):
            def local(frame, event, arg):
                if event == "line":
                    lab = me.label_of(frame)
                    if lab is not None:
                        parked[tid] = lab
                        main.release()
                        sems[tid].acquire()
                return local

            def glob(frame, event, arg):
                if frame.f_code in me.codes:
                    return local
                return None
            return glob

        def body(tid):
            sems[tid].acquire()
            sys.settrace(make_tracer(tid))
            try:
                thunks[tid]()
            except BaseException as e:
                errors[tid] = e
            finally:
                sys.settrace(None)
                done.add(tid)
                parked.pop(tid, None)
                main.release()

        ths = [threading.Thread(target=body, args=(i,), daemon=True) for i in range(n)]
        for t in ths:
            t.start()
        # bring every thread to its first yield point (or completion)
        for tid in range(n):
            sems[tid].release()
            if not main.acquire(timeout=self._limit()):
                Sched.wall_hits += 1
                raise Deadlock("thread %d did not reach a yield point" % tid)
        trace = []
        last = None
        steps = 0
        while len(done) < n:
            enabled = sorted(parked.keys())
            if not enabled:
                raise Deadlock("no runnable thread, %d unfinished" % (n - len(done)))
            tid = chooser(steps, enabled, dict(parked), last)
            lab = parked.pop(tid)
            sems[tid].release()
            if not main.acquire(timeout=self._limit()):
                Sched.wall_hits += 1
                self.errors = errors
                raise Deadlock("thread %d blocked inside step %r" % (tid, lab))
            trace.append({"tid": tid, "label": lab, "after": parked.get(tid)})
            last = tid
            steps += 1
            if self.on_step:
                self.on_step(trace[-1])
            if steps > max_steps:
                raise Deadlock("step bound exceeded (livelock?)")
        for t in ths:
            t.join(timeout=1)
        self.errors = errors
        return trace
    on_step = None

    def _limit(self):
        """a step is a few source lines; the limit only matters when the code under test really blocks. It is generous
        (a loaded machine must not look like a deadlock) until a step has really hit it twice in this process."""
        return max(self.step_timeout, 20.0) if Sched.wall_hits < 2 else min(self.step_timeout, 3.0)


def explore(run_with, n_threads, preemption_bound, limit):
    """stateless DFS over schedules.  run_with(prefix) -> (choices: list[(chosen, enabled, last)], result).
    Yields (schedule, result).  A preemption = choosing another thread while the last one is still enabled."""
    stack = [[]]
    seen = 0
    while stack and seen < limit:
        prefix = stack.pop()
        choices, result = run_with(prefix)
        seen += 1
        yield [c[0] for c in choices], result
        # alternatives at positions >= len(prefix)
        pre = 0
        pres = []
        for k, (ch, en, last) in enumerate(choices):
            pres.append(pre)
            if last is not None and last in en and ch != last:
                pre += 1
        for k in range(len(choices) - 1, len(prefix) - 1, -1):
            ch, en, last = choices[k]
            for alt in en:
                if alt == ch:
                    continue
                cost = pres[k] + (1 if (last is not None and last in en and alt != last) else 0)
                if cost <= preemption_bound:
                    stack.append([c[0] for c in choices[:k]] + [alt])


def prefix_chooser(prefix, record):
    """follow `prefix`, then keep running the last thread while it is enabled, else the lowest enabled"""
    def choose(step, enabled, parked, last):
        if step < len(prefix) and prefix[step] in enabled:
            c = prefix[step]
        elif last in enabled:
            c = last
        else:
            c = enabled[0]
        record.append((c, list(enabled), last))
        return c
    return choose
