"""C18 — the registry reflects exactly the live registrations and cannot be knocked over.

The real RegistryServer._work loop is driven without sockets (a subclass overrides _recv/_send, the
module's clock is replaced by a virtual one), one datagram per call, over generated histories of
register / unregister / query / clock advance from several hosts, ports and aliases mixed with
malformed datagrams.  After every datagram
  * the property's own statement is evaluated on the real object against an independent reference
    (what is registered, not unregistered and fresh; notification log vs. actual membership changes;
    the loop still runs; nothing the datagram does not name changed), and
  * the extracted Coq model (model/Registry.v) is compared on reply bytes, notifications, the whole
    services table (with dict order) and loop liveness.
A few real UDP / TCP loopback runs cover the socket subclasses (silent and partial TCP clients)."""
import collections, logging, os, socket, struct, subprocess, sys, threading, time as _time
from harness import common as C

META = {
    "level": "proof",
    "level_text": "Theorems over all histories of requests and all datagrams (props/C18.v). Full strength: the answer computed for a query is exactly the set of "
                  "servers registered under the upper-cased name, not unregistered since and refreshed within the pruning interval, one per address, oldest "
                  "refresh first, for any monotone clock and any equality on port values (c18_query_exact), and it is delivered whenever every registered "
                  "address can be encoded, which a tree validating at registration guarantees (c18_query_delivered); no value in place of (magic, command, "
                  "args), no byte string and no reply that cannot be encoded ends the loop (c18_loop_survives); SCOPE: ports that are not == to themselves (NaN) are "
                  "excluded by the reflexivity hypothesis on the key equality (refuted outside it: c18_self_unequal_port_refuted; enforced by a tree whose "
                  "cmd_register compares the address with a copy: c18_registered_ports_self_equal), and 'delivered' means encoded and handed to _send -- that the "
                  "answer fits the MAX_DGRAM_SIZE bytes a stock client reads, or a datagram at all, is only a hypothesis (c18_reply_size_partial) refuted by ninety "
                  "genuine servers of one name (c18_reply_size_refuted, known finding); a request changes only the entries it names "
                  "(c18_no_collateral, c18_malformed_dropped). Notifications: exact against the KEYS OF THE TABLE per step (c18_notifications_exact); against "
                  "the property's freshness-based membership only the lazy version holds and is what is proved (c18_notifications_fresh_partial: log balance "
                  "= table membership, fresh registered entries are in the table, unregistered ones are not, equality right after a query for the name); the "
                  "strict reading is refuted on every tree (c18_notifications_fresh_refuted, known finding). TCP is partial: silent clients are invisible and "
                  "nobody is starved given the generated flags and at least one spare descriptor (c18_tcp_silent_client_partial), each silent client ahead costs "
                  "one server timeout (c18_tcp_latency_partial), which with the stock constants defeats the stock client (c18_tcp_stock_client_refuted, known "
                  "finding). Every clause that is false on a tree with a defect is guarded by one of seven facts regenerated from registry.py on every run and "
                  "has a _refuted theorem with the witness. Proof is the right level: the property quantifies over unbounded histories and arbitrary datagrams.",
    "level_note": "Trusted: Coq kernel, pygen, extraction + driver, harness. Python's str.upper/lower, frozenset iteration order, == on port values and "
                  "'brine.dump succeeds at this stack depth' (enc) are parameters of the model (theorems hold for all of them); the extracted instance uses "
                  "ASCII case mapping, structural equality and an encoder that never fails, and is compared only inside that domain (ASCII names, ports without "
                  "1 == 1.0 == True aliasing, nesting below 64) -- the implementation-level oracle runs on every case, including the deep ones. Blocking of "
                  "recv(), descriptor exhaustion and wall-clock latency are OS behaviour: the model carries flags, a counter and a per-silent-client cost; the "
                  "loopback runs demonstrate them. UDP loss/reordering and broadcast are outside.",
    "technique": "Coq refinement proof (concrete insertion-ordered tables vs. a history-defined specification) + regenerated control skeletons + differential "
                 "correspondence of the extracted model with the real _work loop",
    "gen": ["registry"],
    "shapes": ["registry.*"],
    "models": ["registry"],
    "model_files": ["Registry"],
    "assumptions": [
        "the clock does not go backwards between datagrams and does not advance while one datagram is processed",
        "CPython: str.lower() maps no non-ASCII character to ASCII letters other than U+212A -> 'k' (checked on every run), so only ASCII spellings reach a cmd_* method",
        "every value brine.load returns is hashable (Python >= 3.12: slices too; checked on every run)",
        "brine.dump(((host, port),)) evaluated inside cmd_register fails whenever the later brine.dump of a reply containing (host, port) would "
        "(same nesting, one frame deeper); the only way a loaded value fails to encode is the recursion limit",
        "a TCP client that stays silent stays silent for ever; every accepted socket costs one descriptor until it is closed",
        "loopback TCP: the harness servers give an accepted socket 1 s (stock: 3 s) to speak; a well-formed harness client that is dropped without a word is retried "
        "up to four times before it counts as unanswered",
        "loopback verdicts: a positive expectation waits up to 30 s and returns as soon as the answer arrives; a server is given up on earlier (3 s) only when "
        "/proc shows it has no descriptor left or the exact answer is larger than any UDP datagram (65507 bytes)",
    ],
}

from rpyc.core import brine
from rpyc.utils import registry as R

MAXD = __import__("sys").get_int_max_str_digits()
COMMANDS = ("query", "register", "unregister")


# ---------------------------------------------------------------- values <-> sx (same coding as model/Brine.v)

def fbits(x):
    return struct.pack(">d", x)


def to_sx(o):
    t = type(o)
    if o is None: return [0]
    if o is NotImplemented: return [1]
    if o is Ellipsis: return [2]
    if t is bool: return [3, int(o)]
    if t is int: return [4, o]
    if t is float: return [5, fbits(o)]
    if t is complex: return [6, fbits(o.real) + fbits(o.imag)]
    if t is bytes: return [7, o]
    if t is str: return [8, [ord(c) for c in o]]
    if t is tuple: return [9, [to_sx(x) for x in o]]
    if t is frozenset: return [10, [to_sx(x) for x in tuple(o)]]
    if t is slice: return [11, to_sx(o.start), to_sx(o.stop), to_sx(o.step)]
    return [12, 1]


def cps(s):
    return [ord(c) for c in s]


def addr_sx(a):
    return [cps(a[0]), to_sx(a[1])]


def services_sx(svc):
    return [[cps(n), [[addr_sx(a), t] for a, t in tb.items()]] for n, tb in svc.items()]


def note_sx(n):
    return [1 if n[0] == "add" else 0, cps(n[1]), addr_sx(n[2])]


def rkey(o):
    try:
        return repr(o)
    except RecursionError:
        return "<nested too deeply to print>"


def short(o, n=200):
    s = rkey(o)
    return s if len(s) <= n else s[:n] + "..."


# ---------------------------------------------------------------- driving the real loop without sockets

class _FakeSock:
    def getsockname(self):
        return ("0.0.0.0", 0)

    def close(self):
        pass


_quiet = logging.getLogger("C18/quiet")
_quiet.addHandler(logging.NullHandler())
_quiet.propagate = False
_quiet.setLevel(logging.CRITICAL + 10)


class Clock:
    """stands in for the `time` module inside rpyc.utils.registry"""

    def __init__(self):
        self.now = 0

    def time(self):
        return self.now


class Drv(R.RegistryServer):
    def __init__(self, pruning):
        R.RegistryServer.__init__(self, _FakeSock(), pruning_timeout=pruning, logger=_quiet)
        self.notes, self.sent, self.inbox = [], [], collections.deque()

    def on_service_added(self, name, addrinfo):
        self.notes.append(("add", name, addrinfo))

    def on_service_removed(self, name, addrinfo):
        self.notes.append(("rem", name, addrinfo))

    def _recv(self):
        if self.inbox:
            return self.inbox.popleft()
        self.active = False          # nothing more to read: leave the loop the way close() does
        raise socket.timeout()

    def _send(self, data, addrinfo):
        self.sent.append((data, addrinfo))

    def feed(self, data, addrinfo):
        """one datagram through the real _work; returns the exception that escaped the loop, if any"""
        self.inbox.append((data, addrinfo))
        self.notes, self.sent = [], []
        self.active = True
        try:
            self._work()
            return None
        except Exception as e:      # noqa: the loop is dead
            self.inbox.clear()
            return e


class patched_clock:
    def __init__(self, clock):
        self.clock = clock

    def __enter__(self):
        self.old = R.time
        R.time = self.clock
        return self.clock

    def __exit__(self, *a):
        R.time = self.old


# ---------------------------------------------------------------- the reference reading of the property

def spec_classify(data):
    """what a datagram legitimately asks for (independent of the code under test)"""
    try:
        v = brine.load(data)
    except Exception:
        return ("undecodable",)
    try:
        magic, cmd, args = v
    except Exception:
        return ("not-a-triple",)
    if not (type(magic) is str and magic == "RPYC"):
        return ("wrong-magic",)
    if type(cmd) is not str:
        return ("command-not-text",)
    c = cmd.lower()
    if c not in COMMANDS:
        return ("unknown-command",)
    try:
        args = tuple(args)
    except TypeError:
        return ("bad-args",)
    if c == "query":
        if len(args) == 1 and type(args[0]) is str:
            return ("query", args[0].upper())
        return ("bad-args",)
    if c == "register":
        if len(args) != 2:
            return ("bad-args",)
        try:
            names = list(args[0])
        except TypeError:
            return ("bad-args",)
        if not all(type(n) is str for n in names):
            return ("bad-args",)
        return ("register", [n.upper() for n in names], args[1])
    if len(args) != 1:
        return ("bad-args",)
    return ("unregister", args[0])


class Spec:
    """NAME -> {(host, port): time of the last refresh}; never pruned"""

    def __init__(self, pruning):
        self.pruning, self.reg = pruning, {}

    def apply(self, what, host, now):
        if what[0] == "register":
            for n in what[1]:
                self.reg.setdefault(n, {})[(host, what[2])] = now
        elif what[0] == "unregister":
            for n in list(self.reg):
                self.reg[n].pop((host, what[1]), None)

    def fresh(self, name, now):
        return {a: t for a, t in self.reg.get(name, {}).items() if t >= now - self.pruning}


def members(svc):
    return {(n, a) for n, tb in svc.items() for a in tb}


def hist_case(pruning, events, upto):
    return {"kind": "hist", "pruning": pruning, "upto": upto,
            "events": [[now, host, sp, data.hex()] for now, host, sp, data in events[:upto + 1]]}


def run_history(ctx, pruning, events, model_out=None, label="history"):
    """events: [(now, host, srcport, datagram bytes)].  Oracle on the real object after every datagram,
    then correspondence with the model's per-event output."""
    clock = Clock()
    with patched_clock(clock):
        srv = Drv(pruning)
        spec = Spec(pruning)
        comparable = model_out is not None
        diverged = False        # the table already differs from the reference: report once, then stop comparing it
        fresh_prev = set()      # the property's membership (registered, not unregistered, fresh) after the previous datagram
        for i, (now, host, sport, data) in enumerate(events):
            clock.now = now
            what = spec_classify(data)
            kind = what[0]
            ctx.count("dgram:" + kind)
            before = members(srv.services)
            exc = srv.feed(data, (host, sport))
            after = members(srv.services)
            notes, sent = list(srv.notes), list(srv.sent)
            case = lambda: hist_case(pruning, events, i)
            # ---- the loop still runs
            if exc is not None:
                ctx.violation("loop-dies:%s:%s" % (C.exc_enum(exc), kind), case(), observed="%s: %s" % (type(exc).__name__, exc),
                              expected="the datagram is dropped and the loop continues",
                              what="one datagram (%s) raises out of RegistryServer._work and ends the registry" % kind)
            # ---- a register may be refused (no acknowledgement, nothing changed) only when its address could not be
            #      sent back in a reply; whatever is acknowledged counts as registered
            if exc is None and kind == "register" and not sent and not notes and before == after \
                    and (not clearly_encodable(((host, what[2]),)) or not self_equal(what[2])):
                ctx.count("register-refused:unanswerable-address")
                what, kind = ("refused",), "refused-register"
            # ---- ports that do not compare equal to themselves (NaN, also nested): a dict cannot find them again.  They are judged
            #      by their printed form here and kept out of the reference table; the set comparisons stop for this history.
            if kind in ("register", "unregister") and not self_equal(what[2] if kind == "register" else what[1]):
                port = what[2] if kind == "register" else what[1]
                me = rkey((host, port))
                same = {n: sum(1 for a in tb if rkey(a) == me) for n, tb in srv.services.items()}
                ctx.count("dgram:self-unequal-port")
                if kind == "register" and exc is None and any(c > 1 for c in same.values()):
                    ctx.violation("self-unequal-port:registered-more-than-once", case(), observed=short(same), expected="one entry per address",
                                  what="a port that is not equal to itself (NaN) is added again by every REGISTER: the query answer lists the address several times")
                if kind == "unregister" and exc is None and any(same.values()):
                    ctx.violation("self-unequal-port:unregister-ineffective", case(), observed=short(same), expected="no entry left",
                                  what="UNREGISTER of a port that is not equal to itself (NaN) is acknowledged and removes nothing")
                what, kind, diverged = ("self-unequal",), "self-unequal-port", True
            # ---- replies
            if exc is None and kind in COMMANDS and not diverged:
                if len(sent) != 1 or sent[0][1] != (host, sport):
                    ctx.violation("reply-missing-or-misdirected:" + kind, case(), observed=short(sent), expected="one reply to the sender",
                                  what="a well-formed %s got %d replies" % (kind, len(sent)))
                else:
                    try:
                        rep = brine.load(sent[0][0])
                    except Exception as e:
                        rep = e
                    if kind != "query":
                        if rep != "OK":
                            ctx.violation("reply-not-OK:" + kind, case(), observed=short(rep), expected="OK", what="wrong acknowledgement")
                    else:
                        exp = spec.fresh(what[1], now)
                        ok = type(rep) is tuple and len(rep) == len(exp) and all(a in exp for a in rep) and len(set(rep)) == len(rep)
                        if not ok:
                            ctx.violation("query-wrong-set", case(), observed=short(rep), expected=short(sorted(exp.items(), key=lambda x: x[1])),
                                          what="query answer is not exactly the registered, not unregistered, fresh servers")
                        elif len(sent[0][0]) > R.MAX_DGRAM_SIZE:
                            ctx.violation("query-reply-exceeds-max-dgram-size", case(), observed="%d bytes" % len(sent[0][0]), expected="at most MAX_DGRAM_SIZE = %d bytes" % R.MAX_DGRAM_SIZE,
                                          what="the (correct) answer to a query is longer than the MAX_DGRAM_SIZE bytes a stock client reads: discover() fails or returns a cut-off list")
                        elif [exp[a] for a in rep] != sorted(exp[a] for a in rep):
                            ctx.violation("query-wrong-order", case(), observed=short([(a, exp[a]) for a in rep]), expected="oldest refresh first",
                                          what="query answer is not ordered by refresh time")
            # ---- notifications: exactly once per actual change of membership
            want = collections.Counter([("add",) + x for x in after - before] + [("rem",) + x for x in before - after])
            got = collections.Counter(notes)
            if got != want:
                extra, missing = got - want, want - got
                if extra:
                    n = sorted(extra, key=rkey)[0]
                    sig = "notification:%s-without-change" % ("removed" if n[0] == "rem" else "added")
                    if want[n] >= 1:
                        sig = "notification:duplicate-" + ("removed" if n[0] == "rem" else "added")
                    ctx.violation(sig, case(), observed=short(sorted(got.items(), key=rkey)), expected=short(sorted(want.items(), key=rkey)),
                                  what="on_service_%s fired for %r although the membership of that name did not change" % ("removed" if n[0] == "rem" else "added", n[1:]))
                if missing:
                    n = sorted(missing, key=rkey)[0]
                    ctx.violation("notification:missing-" + ("removed" if n[0] == "rem" else "added"), case(), observed=short(sorted(got.items(), key=rkey)),
                                  expected=short(sorted(want.items(), key=rkey)), what="a membership change was not notified")
            # ---- the table is what the requests so far say (modulo lazy pruning of stale entries)
            spec.apply(what, host, now)
            for n in (set(srv.services) | set(spec.reg)) if not diverged else ():
                real, want_tb = srv.services.get(n, {}), spec.reg.get(n, {})
                for a in set(real) | set(want_tb):
                    if a in real and a not in want_tb:
                        diverged = True
                        ctx.violation("collateral:ghost-registration:" + kind, case(), observed=short((n, a, real[a])), expected="absent",
                                      what="after a %s the table holds a registration nobody made (or one that was unregistered)" % kind)
                    elif a in real and real[a] != want_tb[a]:
                        diverged = True
                        ctx.violation("collateral:refresh-time:" + kind, case(), observed=short((n, a, real[a])), expected=short(want_tb[a]),
                                      what="after a %s the refresh time of a registration differs from its last register request" % kind)
                    elif a not in real and want_tb[a] >= now - pruning:
                        diverged = True
                        ctx.violation("collateral:lost-registration:" + kind, case(), observed="absent", expected=short((n, a, want_tb[a])),
                                      what="after a %s a fresh registration disappeared without an unregister from its owner" % kind)
            # ---- the same against the property's own membership: registered, not unregistered, refreshed within the interval
            fresh_now = {(n, a) for n, tb in spec.reg.items() for a, t in tb.items() if t >= now - pruning}
            if exc is None and not diverged and got == want:
                fwant = collections.Counter([("add",) + x for x in fresh_now - fresh_prev] + [("rem",) + x for x in fresh_prev - fresh_now])
                if got != fwant:
                    extra, missing = got - fwant, fwant - got
                    obs, expd = short(sorted(got.items(), key=rkey)), short(sorted(fwant.items(), key=rkey))
                    for n in missing:
                        if n[0] == "rem":
                            ctx.violation("notification:expiry-not-notified", case(), observed=obs, expected=expd,
                                          what="a registration left the fresh set (clock passed its interval, or it was unregistered after expiring) and no "
                                               "on_service_removed fired at that point; the code notices expiry only at the next query for that name")
                        else:
                            ctx.violation("notification:fresh-again-without-added", case(), observed=obs, expected=expd,
                                          what="an expired but not yet pruned registration registered again (back in the fresh set) and no on_service_added fired")
                    for n in extra:
                        if n[0] == "rem":
                            ctx.violation("notification:removed-later-than-expiry", case(), observed=obs, expected=expd,
                                          what="on_service_removed fired for a registration that had left the fresh set at an earlier datagram (lazy pruning at query / unregister)")
                        else:
                            ctx.violation("notification:added-without-fresh-change", case(), observed=obs, expected=expd,
                                          what="on_service_added fired although the fresh registered set did not gain that entry")
            fresh_prev = fresh_now
            if kind not in COMMANDS and kind != "self-unequal-port" and exc is None and before != after:
                ctx.violation("collateral:malformed-changed-table:" + kind, case(), observed=short(sorted(after ^ before, key=rkey)), expected="no change",
                              what="a malformed datagram changed the table")
            # ---- correspondence
            if comparable:
                m = model_out[i]
                tag = m[0].decode() if m and isinstance(m[0], bytes) else "?"
                if tag in ("unmod", "outside"):
                    ctx.count("model:%s:%s" % (tag, kind))
                    comparable = False          # the concrete instance may diverge from here on
                    continue
                if tag != "ok":
                    ctx.tie_broken("correspondence:registry-runner", "event %d of %s: %r" % (i, label, m))
                    comparable = False
                    continue
                ctx.model_traces += 1
                res, msvc = m[1], m[2]
                where = "%s event %d (%s) dgram %s pruning %d" % (label, i, kind, data.hex()[:120], pruning)
                if res[0] == b"dead":
                    if exc is None or C.exc_enum(exc) != res[1].decode():
                        ctx.tie_broken("correspondence:liveness", "%s: model dead %s, impl %r" % (where, res[1], exc))
                else:
                    if exc is not None:
                        ctx.tie_broken("correspondence:liveness", "%s: model alive, impl raised %r" % (where, exc))
                    mrep = [x[1] if x[0] == b"ok" else ("exc", x[1]) for x in res[1]]
                    if mrep != [d for d, _ in sent]:
                        ctx.tie_broken("correspondence:reply", "%s: model %r impl %r" % (where, mrep, [d for d, _ in sent]))
                    if res[2] != [note_sx(n) for n in notes]:
                        ctx.tie_broken("correspondence:notifications", "%s: model %r impl %r" % (where, res[2], notes))
                if msvc != services_sx(srv.services):
                    ctx.tie_broken("correspondence:services", "%s: model %r impl %r" % (where, msvc, services_sx(srv.services)))
                    comparable = False


# ---------------------------------------------------------------- generators

HOSTS = ["10.0.0.1", "10.0.0.2", "hostA", "reg.example"]
NAMES = ["foo", "FOO", "Foo", "bar", "Bar", "baz", "a", "x_1", "svc-9", "", "foo bar"]
ODD_NAMES = ["straße", "STRASSE", "ǆ", "İx", "naïve", "K"]
PORTS = [1234, 999, 18812, 0, 65535, 2 ** 40, -1, 1234, 999, "http", b"p", None, (1, 2), ("a", (b"b", None))]
ODD_PORTS = [1.5, True, 1, 1.0, 2 + 0j, frozenset([1]), slice(1, 2, 3), -0.0, 0, float("nan"), (1, float("nan")), float("nan")]
SHAPES = [None, NotImplemented, Ellipsis, True, False, 0, 5, -1, 10 ** 30, 1.5, float("inf"), 2 + 3j, b"", b"RPYC", b"query", b"abc",
          "", "RPYC", "rpyc", "QUERY", "x", "abc", "\ud800", "é", (), (1,), ("a", "b"), ("a", 5), ("RPYC", "QUERY", ("x",)),
          frozenset(), frozenset([1]), frozenset(["foo"]), frozenset(["a", "b"]), slice(1, 2, 3), slice(None), ((),), (("foo",), 7),
          ("foo",), (b"foo",), (5,), (("foo", b"bar"), 7), (("foo", "bar"), 7, 8)]


def spell(r, cmd):
    c = r.random()
    if c < 0.4:
        return cmd.upper()
    if c < 0.7:
        return cmd
    if c < 0.85:
        return cmd.capitalize()
    return "".join(ch.upper() if r.random() < 0.5 else ch for ch in cmd)


def dg(*triple):
    return brine.dump(tuple(triple))


def self_equal(v):
    """v compares equal to a copy of itself that went through the wire (False for NaN, also nested)"""
    try:
        return brine.load(brine.dump(v)) == v
    except (RecursionError, ValueError):
        return True


def _under(frames, f):
    return f() if frames <= 0 else _under(frames - 1, f)


def clearly_encodable(v):
    """brine.dump(v) succeeds even 80 frames deeper than here, i.e. certainly where the registry encodes replies"""
    try:
        _under(80, lambda: brine.dump(v))
        return True
    except RecursionError:
        return False


TUP1 = brine.dump((0,))[:1]


def deep_bytes(n):
    """encoding of 0 wrapped in n nested 1-tuples, built without recursion"""
    return TUP1 * n + brine.dump(0)


def dg_deep(n, where, cmd="REGISTER", name="deep"):
    """a request with the deep value in one position"""
    if where == "port":
        head = dg("RPYC", cmd, ((name,), 0))
    elif where == "unregister":
        head = dg("RPYC", "UNREGISTER", (0,))
    elif where == "args":
        head = dg("RPYC", cmd, 0)
    elif where == "command":
        return dg("RPYC", 0, ())[:-2] + deep_bytes(n) + brine.dump(())
    else:
        return dg(0, cmd, ())[:1] + deep_bytes(n) + dg(0, cmd, ())[2:]
    z = brine.dump(0)
    assert head.endswith(z)
    return head[:-len(z)] + deep_bytes(n)


def big_histories():
    """answers that outgrow MAX_DGRAM_SIZE: many genuine registrants of one name; a few bulky ports; and NaN ports"""
    many = [(1000 + k, "10.1.%d.%d" % (k // 200, k % 200), 4000 + k, dg("RPYC", "REGISTER", (("foo",), 20000 + k))) for k in range(90)]
    many += [(1100, "10.0.0.9", 5000, dg("RPYC", "QUERY", ("foo",))), (1101, "10.0.0.9", 5001, dg("RPYC", "QUERY", ("bar",)))]
    bulky = [(1000, "10.0.0.1", 5000, dg("RPYC", "REGISTER", (("foo",), 18812))),
             (1001, "10.0.0.2", 5001, dg("RPYC", "REGISTER", (("foo",), "A" * 801))),
             (1002, "10.0.0.2", 5002, dg("RPYC", "REGISTER", (("foo",), "B" * 801))),
             (1003, "10.0.0.3", 5003, dg("RPYC", "QUERY", ("foo",)))]
    nan = float("nan")
    nans = [(1000, "10.0.0.1", 5000, dg("RPYC", "REGISTER", (("foo",), nan))), (1001, "10.0.0.1", 5001, dg("RPYC", "REGISTER", (("foo",), nan))),
            (1002, "10.0.0.2", 5002, dg("RPYC", "QUERY", ("foo",))), (1003, "10.0.0.1", 5003, dg("RPYC", "UNREGISTER", (nan,))),
            (1004, "10.0.0.2", 5004, dg("RPYC", "QUERY", ("foo",)))]
    nested = [(1000, "10.0.0.1", 5000, dg("RPYC", "REGISTER", (("foo",), (1, nan)))), (1001, "10.0.0.1", 5001, dg("RPYC", "REGISTER", (("foo",), (1, nan)))),
              (1003, "10.0.0.1", 5003, dg("RPYC", "UNREGISTER", ((1, nan),))), (1004, "10.0.0.2", 5004, dg("RPYC", "QUERY", ("foo",)))]
    return [(240, many), (240, bulky), (240, nans), (240, nested)]


def deepest_accepted():
    """largest nesting of a port the real _work loop still loads and acknowledges from this stack depth"""
    clock = Clock()
    with patched_clock(clock):
        lo, hi = 10, 1200
        while lo < hi:
            mid = (lo + hi + 1) // 2
            srv = Drv(240)
            try:
                srv.feed(dg_deep(mid, "port"), ("10.9.9.9", 1))
                ok = bool(srv.sent)
            except RecursionError:
                ok = False
            lo, hi = (mid, hi) if ok else (lo, mid - 1)
        return lo


def deep_histories(nmax):
    """registrations whose port is nested up to the deepest value the decoder accepts, then queries for that name and
    others, unregister, re-query; plus deep values in the other positions"""
    out = []
    for n in sorted({nmax, nmax - 1, nmax - 2, nmax - 5, nmax - 12, nmax - 40, nmax // 2, 60, 12}):
        if n < 1:
            continue
        ev = [(1000, "10.0.0.1", 5000, dg("RPYC", "REGISTER", (("foo",), 1234))),
              (1001, "10.0.0.2", 5001, dg_deep(n, "port")),
              (1002, "10.0.0.3", 5002, dg("RPYC", "QUERY", ("deep",))),
              (1003, "10.0.0.3", 5003, dg("RPYC", "QUERY", ("foo",))),
              (1004, "10.0.0.2", 5004, dg_deep(n, "port", name="foo")),
              (1005, "10.0.0.3", 5005, dg("RPYC", "QUERY", ("foo",))),
              (1006, "10.0.0.2", 5006, dg_deep(n, "unregister")),
              (1007, "10.0.0.3", 5007, dg("RPYC", "QUERY", ("foo",))),
              (1008, "10.0.0.3", 5008, dg("RPYC", "QUERY", ("deep",)))]
        out.append((240, ev))
    for where in ("args", "command", "magic"):
        for n in (nmax, nmax - 3, 100):
            out.append((240, [(1000, "10.0.0.1", 5000, dg("RPYC", "REGISTER", (("foo",), 1234))),
                              (1001, "10.0.0.2", 5001, dg_deep(n, where, cmd="QUERY")),
                              (1002, "10.0.0.3", 5002, dg("RPYC", "QUERY", ("foo",)))]))
    return out


ODD = [0.0]      # probability of names / ports outside the extracted instance's domain (set per history)


def gen_name(r):
    return r.choice(ODD_NAMES) if r.random() < ODD[0] else r.choice(NAMES)


def gen_port(r):
    c = r.random()
    if c < ODD[0]:
        return r.choice(ODD_PORTS)
    if c < 0.75:
        return r.choice(PORTS[:9])
    if c < 0.9:
        return r.choice(PORTS)
    return r.randint(1, 70000)


def gen_malformed(r, valid):
    """a datagram that is (mostly) not a well-formed request"""
    c = r.random()
    if c < 0.12:
        return r.randbytes(r.choice([0, 1, 2, 3, 5, 9, 20, 64]))
    if c < 0.22:
        b = bytearray(valid)
        if b and r.random() < 0.5:
            del b[r.randrange(len(b)):]
        elif b:
            b[r.randrange(len(b))] = r.randrange(256)
        return bytes(b)
    if c < 0.30:
        return brine.dump(r.choice(SHAPES))
    cmd = spell(r, r.choice(COMMANDS))
    good_args = {"q": (gen_name(r),), "r": ((gen_name(r),), gen_port(r)), "u": (gen_port(r),)}[cmd[0].lower()]
    if c < 0.45:
        return dg(r.choice(SHAPES), cmd, good_args)
    if c < 0.65:
        return dg("RPYC", r.choice(SHAPES + ["nosuch", "QUERY ", "cmd_query", "_work", "close", "REGISTE", "un-register"]), good_args)
    if c < 0.85:
        return dg("RPYC", cmd, r.choice(SHAPES))
    extra = r.choice([(), good_args + (1,), good_args[:-1], good_args + good_args])
    return dg("RPYC", cmd, extra)


def gen_history(r, nmax):
    pruning = r.choice([0, 1, 5, 60, 240, 240])
    ODD[0] = 0.15 if r.random() < 0.1 else 0.0
    hosts = r.sample(HOSTS, r.choice([1, 2, 3, 4]))
    steps = [0, 0, 1, 1, 2, 5, max(pruning // 2, 1), pruning, pruning + 1, 2 * pruning + 3]
    now = r.choice([1000, 10 ** 9])
    ev = []
    n = r.randint(3, nmax)
    pm = r.choice([0.0, 0.1, 0.2, 0.4])
    for _ in range(n):
        now += r.choice(steps)
        host = r.choice(hosts)
        sport = r.randint(1024, 65535)
        c = r.random()
        if c < 0.40:
            k = r.choice([1, 1, 2, 3])
            names = tuple(gen_name(r) for _ in range(k))
            if r.random() < 0.05:
                names = r.choice(["ab", frozenset(names[:1]), (), names + names])
            data = dg("RPYC", spell(r, "register"), (names, gen_port(r)))
        elif c < 0.55:
            data = dg("RPYC", spell(r, "unregister"), (gen_port(r),))
        else:
            data = dg("RPYC", spell(r, "query"), (gen_name(r),))
        if r.random() < pm:
            data = gen_malformed(r, data)
        ev.append((now, host, sport, data))
    return pruning, ev


def systematic():
    """every value shape in place of magic, command, args of every command, against a populated table"""
    base = [(1000, "10.0.0.1", 5000, dg("RPYC", "REGISTER", (("foo", "bar"), 1234))),
            (1001, "10.0.0.2", 5001, dg("RPYC", "REGISTER", (("foo",), 999))),
            (1002, "10.0.0.1", 5002, dg("RPYC", "REGISTER", (("baz",), 999)))]
    good = {"QUERY": ("foo",), "REGISTER": (("foo",), 1234), "UNREGISTER": (999,)}
    out = []
    for cmd, args in good.items():
        for s in SHAPES:
            out.append(dg(s, cmd, args))
            out.append(dg("RPYC", cmd, s))
        out.append(dg("RPYC", cmd, args + (1,)))
        out.append(dg("RPYC", cmd, args[:-1]))
    for s in SHAPES:
        out.append(dg("RPYC", s, ("foo",)))
        out.append(dg("RPYC", s, ()))
        out.append(brine.dump(s))
    out += [b"", b"\x00", b"\xff", b"\x13", dg("RPYC", "QUERY", ("foo",))[:-1], dg("RPYC", "QUERY"), dg("RPYC", "QUERY", ("foo",), 1)]
    seen, res = set(), []
    for d in out:
        if d not in seen:
            seen.add(d)
            res.append((240, base + [(1003, "10.0.0.2", 5003, d), (1004, "10.0.0.1", 5004, dg("RPYC", "QUERY", ("foo",)))]))
    return res


# ---------------------------------------------------------------- model plumbing

_FACTS = {}


def _typed_items(mod):
    """typed items of a translator module for the tree under test (not read from coq/gen: another
    check may be regenerating that directory for a different tree at the same time)"""
    if mod not in _FACTS:
        import importlib
        try:
            items = importlib.import_module("tools.pygen." + mod).translate(C.REPO)
            _FACTS[mod] = {it.name: it.coq_term for it in items if it.kind == "typed"}
        except Exception:
            _FACTS[mod] = {}
    return _FACTS[mod]


FACTS = ("cmd_lookup_guarded", "remove_notifies_only_present", "tcp_accepted_timeout",
         "reply_dump_guarded", "register_validates_reply", "tcp_recv_closes_unanswered", "register_requires_self_equal")


def gen_facts():
    """the seven facts of the tree under test as the translator reads them (defect values if unreadable)"""
    t = _typed_items("registry")
    return [int(t.get(k) == "true") for k in FACTS]


def sp_flag():
    return int(_typed_items("brine").get("str_encode_surrogatepass") == "true")


def model_hist_case(facts, pruning, events):
    return ["hist", facts, [pruning, [sp_flag(), MAXD]], [[now, host, data] for now, host, _, data in events]]


def check_histories(ctx, model, hists, label):
    facts = gen_facts()
    outs = model.batch([model_hist_case(facts, p, ev) for p, ev in hists]) if model else [None] * len(hists)
    for (p, ev), mo in zip(hists, outs):
        kinds = [spec_classify(d)[0] for _, _, _, d in ev]
        wf = sum(k in COMMANDS for k in kinds)
        ctx.case(("hist", p, tuple(ev)), nontrivial=(wf >= 2 and len(ev) >= 3),
                 sample={"pruning": p, "events": len(ev), "kinds": kinds[:8], "first": ev[0][3].hex()[:60]})
        ctx.count("history:" + label)
        if mo is not None and (not isinstance(mo, list) or len(mo) != len(ev)):
            ctx.tie_broken("correspondence:registry-runner", "%d outputs for %d events" % (len(mo) if isinstance(mo, list) else -1, len(ev)))
            mo = None
        run_history(ctx, p, ev, mo, label)


def check_python_facts(ctx):
    """the two facts about CPython the model relies on"""
    bad = [hex(c) for c in range(128, 0x110000) if all(ord(x) < 128 for x in chr(c).lower()) and c != 0x212a]
    if bad or any("k" in c for c in COMMANDS):
        ctx.tie_broken("assumption:str.lower", "non-ASCII characters lower-casing to ASCII: %s" % bad[:10])
    for v in [slice(1, 2, 3), frozenset([1]), (1, slice(None)), 1.5, 2j, None, NotImplemented, Ellipsis]:
        try:
            hash(v)
        except TypeError:
            ctx.tie_broken("assumption:hashable", repr(v))


# ---------------------------------------------------------------- real sockets

LIMIT = 30.0     # wall-clock limit of every positive expectation; all of them return as soon as the answer is there


class NoteMixin:
    def on_service_added(self, name, addrinfo):
        self.notes.append(("add", name, addrinfo))

    def on_service_removed(self, name, addrinfo):
        self.notes.append(("rem", name, addrinfo))


class UDPSrv(NoteMixin, R.UDPRegistryServer):
    TIMEOUT = 0.1
    notes = None


class TCPSrv(NoteMixin, R.TCPRegistryServer):
    TIMEOUT = 1.0       # also the patience with an ACCEPTED socket: well-formed harness clients that are dropped are retried (see _tcp_request)
    notes = None


def _start(srv):
    srv.notes = []
    srv.crash = None

    def body():
        try:
            srv.start()
        except Exception as e:      # the main loop died; start() has closed the socket
            srv.crash = e
    th = threading.Thread(target=body, daemon=True)
    th.start()
    t0 = _time.time()
    while not srv.active and _time.time() - t0 < 60:
        _time.sleep(0.005)
    return th


def _stop(srv, th):
    try:
        srv.close()
    except ValueError:
        pass
    th.join(40)
    if th.is_alive():
        return False
    return True


def udp_run(ctx, datagrams):
    """real UDP loopback: register, throw datagrams at the server, it must still answer"""
    srv = UDPSrv(host="127.0.0.1", port=0, pruning_timeout=240, logger=_quiet)
    th = _start(srv)
    port = srv.port
    case = {"kind": "udp", "datagrams": [d.hex() for d in datagrams]}
    try:
        cl = R.UDPRegistryClient(ip="127.0.0.1", port=port, timeout=LIMIT, logger=_quiet)
        ok = cl.register(("foo",), 1234, interface="127.0.0.1")
        s = socket.socket(socket.AF_INET, socket.SOCK_DGRAM)
        try:
            for d in datagrams:
                s.sendto(d, ("127.0.0.1", port))
            _time.sleep(0.15)
        finally:
            s.close()
        spec = Spec(240)
        spec.apply(("register", ["FOO"], 1234), "127.0.0.1", 0)
        for d in datagrams:
            spec.apply(spec_classify(d), "127.0.0.1", 0)
        want = set(spec.fresh("FOO", 0))
        ans = R.UDPRegistryClient(ip="127.0.0.1", port=port, timeout=LIMIT, logger=_quiet).discover("FOO") if th.is_alive() else None
        good = type(ans) is tuple and set(ans) == want and len(ans) == len(want)
        if not good:
            _time.sleep(0.2)        # let a dying thread finish dying before deciding which failure this is
        alive = th.is_alive() and srv.crash is None
        ctx.case(("udp", tuple(datagrams)), nontrivial=True, sample={"udp_datagrams": len(datagrams), "alive": alive})
        ctx.count("socket:udp-run")
        if not alive:
            kinds = [spec_classify(d)[0] for d in datagrams]
            bad = [k for k in kinds if k not in COMMANDS] or kinds
            kind = "command-not-text" if "command-not-text" in bad else bad[0]
            ctx.violation("loop-dies:%s:%s" % (C.exc_enum(srv.crash) if srv.crash else "thread-ended", kind), case,
                          observed="server thread ended: %r" % (srv.crash,), expected="server keeps answering",
                          what="a datagram (%s) ends the UDP registry's main loop (thread dead, socket closed)" % kind)
        elif not ok or not good:
            ctx.violation("udp-registry-stops-answering", case, observed=short((ok, ans)), expected=short((True, sorted(want, key=rkey))),
                          what="after malformed datagrams the UDP registry no longer answers a query correctly")
    finally:
        if not _stop(srv, th):
            ctx.tie_broken("harness:udp-server-did-not-stop", "")


def udp_big_run(ctx, regs, label):
    """real UDP loopback with the stock client: registrations whose combined answer outgrows MAX_DGRAM_SIZE (or a UDP datagram)"""
    srv = UDPSrv(host="127.0.0.1", port=0, pruning_timeout=240, logger=_quiet)
    th = _start(srv)
    port = srv.port
    case = {"kind": "udp-big", "label": label, "regs": [d.hex() for d in regs]}
    try:
        s = socket.socket(socket.AF_INET, socket.SOCK_DGRAM)
        s.settimeout(LIMIT)
        spec = Spec(240)
        acks = 0
        try:
            for d in regs:
                s.sendto(d, ("127.0.0.1", port))
                spec.apply(spec_classify(d), "127.0.0.1", 0)
                try:
                    acks += brine.load(s.recvfrom(65536)[0]) == "OK"
                except (socket.timeout, OSError):
                    break
            want = set(spec.fresh("FOO", 0))
            size = len(brine.dump(tuple(want)))
            ctx.case(("udp-big", label), nontrivial=True, sample={"udp_big": label, "registrations": len(regs), "acknowledged": acks, "answer_bytes": size})
            ctx.count("socket:udp-big-run")
            if acks != len(regs):
                ctx.tie_broken("harness:udp-big-register", "%d of %d registrations acknowledged" % (acks, len(regs)))
                return
            if size > 65507:
                # no UDP datagram can carry it: the short wait cannot turn a slow answer into a failure
                s.settimeout(3.0)
                s.sendto(dg("RPYC", "QUERY", ("foo",)), ("127.0.0.1", port))
                try:
                    raw = s.recvfrom(70000)[0]
                except (socket.timeout, OSError):
                    raw = b""
                if not raw:
                    ctx.violation("udp-answer-over-datagram-size-never-sent", case, observed="no answer; the exact answer needs %d bytes" % size, expected="an answer",
                                  what="when the answer to a query does not fit one UDP datagram sendto() fails, the error is swallowed and the client never hears anything: "
                                       "whoever keeps such registrations alive makes that name unanswerable")
                return
            cl = R.UDPRegistryClient(ip="127.0.0.1", port=port, timeout=LIMIT, logger=_quiet)
            try:
                ans = cl.discover("foo")
            except Exception as e:
                ans = e
            good = type(ans) is tuple and set(ans) == want and len(ans) == len(want)
            if not good and th.is_alive() and srv.crash is None:
                ctx.violation("udp-discover-unusable-answer-over-max-dgram-size", case, observed=short(ans), expected="%d servers (%d bytes encoded)" % (len(want), size),
                              what="the answer is longer than MAX_DGRAM_SIZE: the stock client reads only its first %d bytes and fails or returns a cut-off list" % R.MAX_DGRAM_SIZE)
            elif not good:
                ctx.violation("loop-dies:udp-big", case, observed=repr(srv.crash), expected="server keeps answering", what="the UDP registry ended")
        finally:
            s.close()
    finally:
        if not _stop(srv, th):
            ctx.tie_broken("harness:udp-server-did-not-stop", "")


TRICKLE_HEAD = b"\x15\xff\xff\xff\xff"       # brine: TAG_TUP_L4, count 2**32-1


def _trickle(sock, stop, period):
    """feed one more byte (a small integer item) every `period` seconds until told to stop or the server drops the connection"""
    while not stop.wait(period):
        try:
            sock.send(b"\x01")
        except OSError:
            return


def tcp_run(ctx, model, script):
    """real TCP loopback. script: list of 'silent' | 'partial' | 'trickle' | 'register' | 'query' ; clients connect in that order and
    silent/partial/trickle ones stay connected (a trickling client keeps sending a byte at a time, faster than the server's read timeout).  Every 'query' must be answered within the bound."""
    srv = TCPSrv(host="127.0.0.1", port=0, pruning_timeout=240, logger=_quiet)
    th = _start(srv)
    port = srv.port
    held, answers = [], []
    stop_trickle = threading.Event()
    case = {"kind": "tcp", "script": script}
    bound = LIMIT        # a passing run returns as soon as the answer arrives; a loaded machine must not look like starvation
    try:
        for step in script:
            if step in ("silent", "partial", "trickle"):
                s = socket.create_connection(("127.0.0.1", port), timeout=LIMIT)
                if step == "partial":
                    s.send(dg("RPYC", "QUERY", ("foo",))[:3])
                if step == "trickle":
                    # the head of a value that never completes (a tuple announcing 2**32-1 items) in one segment, then one more byte
                    # every TIMEOUT/10 for as long as the run lasts: no single read of the server ever runs into its timeout
                    s.send(TRICKLE_HEAD)
                    threading.Thread(target=_trickle, args=(s, stop_trickle, TCPSrv.TIMEOUT / 10.0), daemon=True).start()
                held.append(s)
                _time.sleep(0.05)
                answers.append(None)
            elif step == "register":
                answers.append(_tcp_request(port, dg("RPYC", "REGISTER", (("foo",), 1234)), bound))
            else:
                answers.append(_tcp_request(port, dg("RPYC", "QUERY", ("foo",)), bound))
        ctx.case(("tcp", tuple(script)), nontrivial=True, sample={"tcp_script": script, "answers": [a.hex() if a else a for a in answers]})
        ctx.count("socket:tcp-run")
        starved = [i for i, (st, a) in enumerate(zip(script, answers)) if st in ("register", "query") and not a]
        if starved:
            blocker = [st for st in script[:starved[0]] if st in ("silent", "partial", "trickle")]
            sig = "tcp-silent-client-starves-others" if "silent" in blocker else "tcp-trickling-client-starves-others" if "trickle" in blocker else "tcp-client-unanswered"
            ctx.violation(sig, case, observed="client %d (%s) got no answer within %.1fs" % (starved[0], script[starved[0]], bound),
                          expected="every well-formed request is answered although another client connected and sent nothing",
                          what="a TCP client that connects and stays silent blocks TCPRegistryServer._recv: nobody else is answered")
        else:
            regs = [i for i, st in enumerate(script) if st == "register"]
            for i, (st, a) in enumerate(zip(script, answers)):
                if st == "query":
                    want = brine.dump((("127.0.0.1", 1234),) if any(j < i for j in regs) else ())
                    if a != want:
                        ctx.violation("tcp-query-wrong-answer", case, observed=a.hex(), expected=want.hex(), what="TCP query answer differs from the registrations made")
        if model:
            facts = gen_facts()
            cl = []
            for i, st in enumerate(script):
                d = {"silent": 0, "partial": dg("RPYC", "QUERY", ("foo",))[:3], "trickle": TRICKLE_HEAD, "register": dg("RPYC", "REGISTER", (("foo",), 1234)),
                     "query": dg("RPYC", "QUERY", ("foo",))}[st]
                cl.append([1000 + i, "127.0.0.1", d])
            mo = model.batch([["tcp", facts, [240, [sp_flag(), MAXD], 1000], cl]])[0]
            ctx.model_traces += 1
            for i, (st, a) in enumerate(zip(script, answers)):
                if st in ("register", "query"):
                    m = mo[i]
                    mans = m[1][0][1] if m[0] == b"reached" and m[1] else b""
                    if mans != (a or b""):
                        ctx.tie_broken("correspondence:tcp", "script %r client %d: model %r impl %r" % (script, i, m, a))
    finally:
        stop_trickle.set()
        for s in held:
            try:
                s.close()
            except OSError:
                pass
        if not _stop(srv, th):
            ctx.tie_broken("harness:tcp-server-did-not-stop", "")


_LEAK_SERVER = r"""
import os, resource, sys, logging
logging.disable(logging.CRITICAL)
from rpyc.utils.registry import TCPRegistryServer
class S(TCPRegistryServer):
    TIMEOUT = 1.0
srv = S(host="127.0.0.1", port=0, pruning_timeout=240)
spare = int(sys.argv[1])
used = len(os.listdir("/proc/self/fd")) - 1
resource.setrlimit(resource.RLIMIT_NOFILE, (used + spare, resource.getrlimit(resource.RLIMIT_NOFILE)[1]))
print(srv.port, used + spare, flush=True)
srv.start()
"""


def _tcp_request(port, data, limit, tries=4):
    """one well-formed TCP request; returns the reply bytes, b'' when nothing came within the limit.
    A server that closes the connection without a word (it lost patience with the accepted socket because this client was
    descheduled between connect and send, or the connection was reset) is asked again: only silence for the whole limit,
    or repeated dropping, counts as unanswered."""
    for _ in range(tries):
        s = socket.socket(socket.AF_INET, socket.SOCK_STREAM)
        s.settimeout(limit)
        try:
            s.connect(("127.0.0.1", port))
            s.sendall(data)
            try:
                got = s.recv(65536)
            except socket.timeout:
                return b""              # connected, request sent, nothing for the whole limit
            if got:
                return got
        except socket.timeout:
            return b""                  # could not even connect within the limit
        except OSError:
            pass                        # reset / refused: ask again
        finally:
            s.close()
        _time.sleep(0.05)
    return b""


def tcp_leak_run(ctx, model, spare, extra, bad=None):
    """a TCP registry in a process that can hold `spare` more descriptors: register, spare+extra requests that get no
    reply (their clients close at once), then a query that must still be answered"""
    bad = bad if bad is not None else dg("RPYC", "nosuch", ())
    env = dict(os.environ, PYTHONPATH=C.REPO)
    proc = subprocess.Popen([sys.executable, "-c", _LEAK_SERVER, str(spare)], stdout=subprocess.PIPE, env=env)
    case = {"kind": "tcp-leak", "spare": spare, "extra": extra, "bad": bad.hex()}
    try:
        port, limit = map(int, proc.stdout.readline().split())
        reg = _tcp_request(port, dg("RPYC", "REGISTER", (("foo",), 1234)), LIMIT)
        n = spare + extra
        for _ in range(n):
            try:
                c = socket.create_connection(("127.0.0.1", port), timeout=LIMIT)
                c.send(bad)
                c.close()
            except OSError:
                break               # the listen backlog is full: the server no longer accepts
            _time.sleep(0.01)
        _time.sleep(0.4)
        try:
            fds = len(os.listdir("/proc/%d/fd" % proc.pid))
        except OSError:
            fds = -1
        exhausted = fds >= limit
        # the positive expectation has the long limit; only a server that is provably out of descriptors is given up on early
        ans = _tcp_request(port, dg("RPYC", "QUERY", ("foo",)), 3.0 if exhausted else LIMIT)
        want = brine.dump((("127.0.0.1", 1234),))
        ctx.case(("tcp-leak", spare, extra, bad), nontrivial=True, sample={"tcp_leak": n, "server_fds": fds, "fd_limit": limit, "answered": bool(ans)})
        ctx.count("socket:tcp-leak-run")
        if proc.poll() is not None:
            ctx.violation("tcp-registry-process-ended", case, observed="exit code %r" % proc.returncode, expected="server keeps running", what="the TCP registry process ended")
        elif reg != brine.dump("OK"):
            ctx.tie_broken("harness:tcp-leak-register", "register got %r" % reg)
        elif ans != want:
            ctx.violation("tcp-unanswered-requests-leak-sockets", case,
                          observed="after %d unanswered requests (all clients closed) the server holds %d of %d descriptors; query answer %r" % (n, fds, limit, ans.hex()),
                          expected="the query is answered: " + want.hex(),
                          what="every TCP request that gets no reply leaves its accepted socket open in _connected_sockets; once the descriptors are used up accept() fails for good and nobody is answered")
        if model:
            cl = [[1000, "127.0.0.1", dg("RPYC", "REGISTER", (("foo",), 1234))]] + [[1001, "127.0.0.1", bad]] * n + [[1002, "127.0.0.1", dg("RPYC", "QUERY", ("foo",))]]
            mo = model.batch([["tcp", gen_facts(), [240, [sp_flag(), MAXD], spare], cl]])[0]
            ctx.model_traces += 1
            m = mo[-1]
            mans = m[1][0][1] if m[0] == b"reached" and m[1] else b""
            if mans != ans:
                ctx.tie_broken("correspondence:tcp-leak", "spare %d extra %d: model %r impl %r (fds %d/%d)" % (spare, extra, m, ans, fds, limit))
    finally:
        proc.kill()
        proc.wait(30)
        proc.stdout.close()


def tcp_reset_run(ctx, cmd):
    """a TCP client sends a well-formed request and RESETS the connection (SO_LINGER 0) after the registry has read it and
    before the reply is written; the schedule is forced by holding the command (wrapped on the instance) until the reset has
    happened.  A second, well-behaved client must then still be answered."""
    srv = TCPSrv(host="127.0.0.1", port=0, pruning_timeout=240, logger=_quiet)
    got_request, client_gone, armed = threading.Event(), threading.Event(), [False]
    name = "cmd_" + cmd
    orig = getattr(srv, name)

    def held(*a):
        if armed[0]:
            armed[0] = False
            got_request.set()
            client_gone.wait(LIMIT)
            _time.sleep(0.3)            # let the RST arrive
        return orig(*a)
    setattr(srv, name, held)            # found by getattr(self, "cmd_...") in _work
    th = _start(srv)
    port = srv.port
    case = {"kind": "tcp-reset", "cmd": cmd}
    rude = None
    try:
        reg = _tcp_request(port, dg("RPYC", "REGISTER", (("foo",), 1234)), LIMIT)
        armed[0] = True
        rude = socket.socket(socket.AF_INET, socket.SOCK_STREAM)
        rude.settimeout(LIMIT)
        rude.connect(("127.0.0.1", port))
        rude.sendall(dg("RPYC", "QUERY", ("foo",)) if cmd == "query" else dg("RPYC", "REGISTER", (("foo",), 1234)))
        seen = got_request.wait(LIMIT)
        rude.setsockopt(socket.SOL_SOCKET, socket.SO_LINGER, struct.pack("ii", 1, 0))
        rude.close()                    # -> RST
        rude = None
        client_gone.set()
        if reg != brine.dump("OK") or not seen:
            ctx.tie_broken("harness:tcp-reset-setup", "register %r, request seen %r" % (reg, seen))
            return
        want = brine.dump((("127.0.0.1", 1234),))
        ans = _tcp_request(port, dg("RPYC", "QUERY", ("foo",)), LIMIT)
        if ans != want:
            _time.sleep(0.3)
        alive = th.is_alive() and srv.crash is None
        ctx.case(("tcp-reset", cmd), nontrivial=True, sample={"tcp_reset": cmd, "alive": alive, "answer": ans.hex()})
        ctx.count("socket:tcp-reset-run")
        if ans != want:
            ctx.violation("tcp-client-reset-before-reply-ends-registry" if not alive else "tcp-client-unanswered-after-reset", case,
                          observed="second client got %r; server thread alive: %s; error: %r" % (ans.hex(), th.is_alive(), srv.crash),
                          expected="the second client is answered: " + want.hex(),
                          what="a client that sends a well-formed %s and resets its connection before the reply is written makes the error of the reply's "
                               "send escape the main loop: the registry stops and every later client is refused" % cmd.upper())
    finally:
        client_gone.set()
        if rude is not None:
            rude.close()
        if not _stop(srv, th):
            ctx.tie_broken("harness:tcp-server-did-not-stop", "")


class StockTCPSrv(NoteMixin, R.TCPRegistryServer):
    notes = None            # stock TIMEOUT


def tcp_stock_run(ctx):
    """stock constants on both sides: server TIMEOUT as shipped, TCPRegistryClient with its default timeout; one silent client"""
    srv = StockTCPSrv(host="127.0.0.1", port=0, pruning_timeout=240, logger=_quiet)
    th = _start(srv)
    held = None
    case = {"kind": "tcp-stock"}
    try:
        patient = R.TCPRegistryClient("127.0.0.1", port=srv.port, timeout=LIMIT, logger=_quiet)
        ok = patient.register(("foo",), 1234)          # preliminaries are positive expectations: long limit
        first = patient.discover("foo")
        cl = R.TCPRegistryClient("127.0.0.1", port=srv.port, logger=_quiet)      # the stock client under test
        held = socket.create_connection(("127.0.0.1", srv.port), timeout=LIMIT)
        _time.sleep(0.05)
        t0 = _time.time()
        ans = cl.discover("foo")
        dt = _time.time() - t0
        ctx.case(("tcp-stock",), nontrivial=True, sample={"tcp_stock": True, "answer": short(ans), "after_s": round(dt, 1)})
        ctx.count("socket:tcp-stock-run")
        want = (("127.0.0.1", 1234),)
        if not ok or first != want:
            ctx.violation("tcp-stock-client-unanswered", case, observed=short((ok, first)), expected=short((True, want)), what="stock TCP client and server do not work together")
        elif ans != want:
            ctx.violation("tcp-silent-client-defeats-stock-client", case,
                          observed="discover('foo') returned %r after %.1fs with one silent client connected (server TIMEOUT %.1fs, client timeout %.1fs)"
                                   % (ans, dt, srv.TIMEOUT, cl.timeout),
                          expected=short(want),
                          what="the registry waits TCPRegistryServer.TIMEOUT for every silent client before it turns to the next one; "
                               "the stock client gives up earlier, so one silent connection makes it report no servers")
    finally:
        if held is not None:
            held.close()
        if not _stop(srv, th):
            ctx.tie_broken("harness:tcp-server-did-not-stop", "")


# ---------------------------------------------------------------- entry points

def run(ctx):
    r = ctx.rng
    model = C.Model("registry")
    model = model if model.available() else None
    if model is None:
        ctx.tie_broken("runner:registry", "extracted model not built")
    ctx.coverage_extra["rule"] = (
        "a case is one history: 3..25 (quick) / ..60, some ..200 (thorough) datagrams from 1-4 hosts with a virtual clock (steps 0, 1, 2, 5, pruning/2, "
        "pruning, pruning+1, 2*pruning+3; pruning in {0,1,5,60,240}), 40%% register (1-3 aliases in mixed case, ports from a small pool so that "
        "refresh/unregister hit), 15%% unregister, 45%% query, each replaced with probability 0/0.1/0.2/0.4 by a malformed datagram (random bytes, "
        "truncation/corruption of a valid one, any of %d value shapes in place of the whole triple / magic / command / args, wrong argument counts); "
        "plus a systematic sweep of every shape in every position of every command against a populated table; registrations whose port is nested "
        "up to the deepest value the decoder still accepts from inside _work (found by bisection on every run) followed by queries, and deep values "
        "in the other positions; real UDP/TCP loopback runs (numeric command, silent, partial and trickling TCP clients - one byte at a time, faster than the read timeout; a TCP server process with a lowered "
        "descriptor limit receiving more unanswered requests than it has descriptors; stock server and client constants with one silent client; a client that resets its connection after a well-formed request, the reply being held until the reset happened; "
        "60 / 90 registrants of one name and 48 bulky ports against the stock UDP client); answers beyond MAX_DGRAM_SIZE and NaN ports (plain and nested) "
        "also without sockets. non-trivial = at least 3 datagrams of which at least 2 are well-formed commands; "
        "distinct by the full datagram sequence" % len(SHAPES))
    ctx.coverage_extra["facts"] = dict(zip(FACTS, gen_facts()))
    check_python_facts(ctx)
    # design witnesses first
    w = [(240, [(1000, "10.0.0.1", 5000, dg("RPYC", "REGISTER", (("foo",), 1234))), (1001, "10.0.0.1", 5001, dg("RPYC", "REGISTER", (("bar",), 999))),
                (1002, "10.0.0.1", 5002, dg("RPYC", "UNREGISTER", (999,))), (1003, "10.0.0.2", 5003, dg("RPYC", "QUERY", ("Foo",)))]),
         (240, [(1000, "10.0.0.1", 5000, dg("RPYC", "REGISTER", (("foo",), 1234))), (1001, "10.0.0.2", 5001, dg("RPYC", 5, ())),
                (1002, "10.0.0.2", 5003, dg("RPYC", "QUERY", ("foo",)))]),
         (5, [(1000, "a", 1, dg("RPYC", "REGISTER", (("foo",), 1))), (1000, "b", 1, dg("RPYC", "REGISTER", (("foo",), 1))),
              (1003, "a", 1, dg("RPYC", "REGISTER", (("FOO",), 1))), (1005, "c", 2, dg("RPYC", "QUERY", ("foo",))), (1006, "c", 2, dg("RPYC", "QUERY", ("foo",))),
              (1020, "c", 2, dg("RPYC", "QUERY", ("foo",))), (1021, "b", 1, dg("RPYC", "REGISTER", (("foo",), 1))), (1021, "c", 2, dg("RPYC", "QUERY", ("foo",)))])]
    check_histories(ctx, model, w, "witness")
    nmax = deepest_accepted()
    ctx.coverage_extra["deepest_port_nesting_acknowledged"] = nmax
    check_histories(ctx, model, deep_histories(nmax), "deep")
    check_histories(ctx, model, big_histories(), "big")
    check_histories(ctx, model, systematic(), "systematic")
    n, nmax = (1300, 25) if ctx.quick else (40000, 60)
    check_histories(ctx, model, [gen_history(r, nmax) for _ in range(n)], "random")
    if not ctx.quick:
        check_histories(ctx, model, [gen_history(r, 200) for _ in range(2500)], "long")
    # real sockets
    udp_sets = [[dg("RPYC", 5, ())], [b"\xff\x00", dg("nope", "QUERY", ("foo",)), dg("RPYC", "QUERY", 7), dg("RPYC", "nosuch", ())]]
    tcp_scripts = [["register", "silent", "query"], ["register", "partial", "query"], ["register", "trickle", "query"]]
    if not ctx.quick:
        udp_sets += [[gen_malformed(r, dg("RPYC", "QUERY", ("foo",))) for _ in range(20)] for _ in range(10)]
        udp_sets += [[dg("RPYC", s, ())] for s in (None, 1.5, ("QUERY",), frozenset(), slice(1, 2, 3))]
        tcp_scripts += [["silent", "register", "query"], ["partial", "silent", "register", "partial", "query", "query"], ["query", "register", "query"],
                        ["trickle", "register", "trickle", "query"]]
    for ds in udp_sets:
        udp_run(ctx, ds)
    for sc in tcp_scripts:
        tcp_run(ctx, model, sc)
    udp_big_run(ctx, [dg("RPYC", "REGISTER", (("foo",), 20000 + k)) for k in range(60)], "60-servers")
    udp_big_run(ctx, [dg("RPYC", "REGISTER", (("foo",), 20000 + k)) for k in range(90)], "90-servers")
    udp_big_run(ctx, [dg("RPYC", "REGISTER", (("foo",), chr(65 + k % 26) * 1400 + str(k))) for k in range(48)], "48-bulky-ports")
    tcp_leak_run(ctx, model, 12, 8)
    if not ctx.quick:
        tcp_leak_run(ctx, model, 30, 5, dg("nope", "QUERY", ("foo",)))
        tcp_leak_run(ctx, model, 20, 5, b"")
        tcp_leak_run(ctx, model, 20, 5, dg("RPYC", "QUERY", (5,)))
    tcp_stock_run(ctx)
    tcp_reset_run(ctx, "query")
    if not ctx.quick:
        tcp_reset_run(ctx, "register")


def replay(ctx, rep):
    case = rep["case"] or {}
    model = C.Model("registry")
    model = model if model.available() else None
    if case.get("kind") == "hist":
        ev = [(now, host, sp, bytes.fromhex(h)) for now, host, sp, h in case["events"]]
        check_histories(ctx, model, [(case["pruning"], ev)], "replay")
    elif case.get("kind") == "udp":
        udp_run(ctx, [bytes.fromhex(h) for h in case["datagrams"]])
    elif case.get("kind") == "tcp":
        tcp_run(ctx, model, case["script"])
    elif case.get("kind") == "udp-big":
        udp_big_run(ctx, [bytes.fromhex(h) for h in case["regs"]], case["label"])
    elif case.get("kind") == "tcp-leak":
        tcp_leak_run(ctx, model, case["spare"], case["extra"], bytes.fromhex(case["bad"]))
    elif case.get("kind") == "tcp-reset":
        tcp_reset_run(ctx, case["cmd"])
    elif case.get("kind") == "tcp-stock":
        tcp_stock_run(ctx)
