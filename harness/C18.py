"""C18 — the registry reflects exactly the live registrations and cannot be knocked over.

The real RegistryServer._work loop is driven without sockets (a subclass overrides _recv/_send, the
module's clock is replaced by a virtual one), one datagram per call, over generated histories of
register / unregister / query / clock advance from several hosts, ports and aliases mixed with
malformed datagrams.  After every datagram
  * the property's own statement is evaluated on the real object against an independent reference
    (what is registered, not unregistered and fresh; notification log vs. actual membership changes;
    the loop still runs; nothing the datagram does not name changed), and
  * the extracted Coq model (model/Registry.v) is compared on reply bytes, notifications, the whole
    services table (with dict order) and loop liveness.
A few real UDP / TCP loopback runs cover the socket subclasses (silent and partial TCP clients)."""
import collections, logging, socket, struct, threading, time as _time
from harness import common as C

META = {
    "level": "proof",
    "level_text": "Theorems over all histories of requests and all datagrams (props/C18.v): the reply to a query is exactly the set of servers registered "
                  "under the upper-cased name, not unregistered since and refreshed within the pruning interval, without duplicates and oldest refresh first, "
                  "for any monotone clock and any equality on port values; the notifications of every step equal the membership changes of the table; no value "
                  "in place of (magic, command, args) and no byte string ends the loop or changes an entry the request does not name; silent TCP clients are "
                  "invisible to the others. The statements that are false on a tree with the defects F4a/F4b/F4c are guarded by three facts regenerated from "
                  "registry.py on every run and come with refutation theorems carrying the witnesses. Proof is the right level: the property quantifies over "
                  "unbounded histories and arbitrary datagrams.",
    "level_note": "Trusted: Coq kernel, pygen, extraction + driver, harness. Python's str.upper/lower, frozenset iteration order and == on port values are "
                  "parameters of the model (theorems hold for all of them); the extracted instance uses ASCII case mapping and structural equality and is "
                  "compared only inside that domain (the implementation-level oracle runs on every case). Blocking of recv() is OS behaviour: the model carries "
                  "the generated flag, the loopback run demonstrates the stall with a wall-clock bound. UDP loss/reordering and broadcast are outside.",
    "technique": "Coq refinement proof (concrete insertion-ordered tables vs. a history-defined specification) + regenerated control skeletons + differential "
                 "correspondence of the extracted model with the real _work loop",
    "gen": ["registry"],
    "shapes": ["registry.*"],
    "models": ["registry"],
    "model_files": ["Registry"],
    "assumptions": [
        "the clock does not go backwards between datagrams and does not advance while one datagram is processed",
        "CPython: str.lower() maps no non-ASCII character to ASCII letters other than U+212A -> 'k' (checked on every run), so only ASCII spellings reach a cmd_* method",
        "every value brine.load returns is hashable (Python >= 3.12: slices too; checked on every run)",
        "a TCP client that stays silent stays silent for ever (the bound observed on loopback is the server's TIMEOUT)",
    ],
}

from rpyc.core import brine
from rpyc.utils import registry as R

MAXD = __import__("sys").get_int_max_str_digits()
COMMANDS = ("query", "register", "unregister")


# ---------------------------------------------------------------- values <-> sx (same coding as model/Brine.v)

def fbits(x):
    return struct.pack(">d", x)


def to_sx(o):
    t = type(o)
    if o is None: return [0]
    if o is NotImplemented: return [1]
    if o is Ellipsis: return [2]
    if t is bool: return [3, int(o)]
    if t is int: return [4, o]
    if t is float: return [5, fbits(o)]
    if t is complex: return [6, fbits(o.real) + fbits(o.imag)]
    if t is bytes: return [7, o]
    if t is str: return [8, [ord(c) for c in o]]
    if t is tuple: return [9, [to_sx(x) for x in o]]
    if t is frozenset: return [10, [to_sx(x) for x in tuple(o)]]
    if t is slice: return [11, to_sx(o.start), to_sx(o.stop), to_sx(o.step)]
    return [12, 1]


def cps(s):
    return [ord(c) for c in s]


def addr_sx(a):
    return [cps(a[0]), to_sx(a[1])]


def services_sx(svc):
    return [[cps(n), [[addr_sx(a), t] for a, t in tb.items()]] for n, tb in svc.items()]


def note_sx(n):
    return [1 if n[0] == "add" else 0, cps(n[1]), addr_sx(n[2])]


def short(o, n=200):
    s = repr(o)
    return s if len(s) <= n else s[:n] + "..."


# ---------------------------------------------------------------- driving the real loop without sockets

class _FakeSock:
    def getsockname(self):
        return ("0.0.0.0", 0)

    def close(self):
        pass


_quiet = logging.getLogger("C18/quiet")
_quiet.addHandler(logging.NullHandler())
_quiet.propagate = False
_quiet.setLevel(logging.CRITICAL + 10)


class Clock:
    """stands in for the `time` module inside rpyc.utils.registry"""

    def __init__(self):
        self.now = 0

    def time(self):
        return self.now


class Drv(R.RegistryServer):
    def __init__(self, pruning):
        R.RegistryServer.__init__(self, _FakeSock(), pruning_timeout=pruning, logger=_quiet)
        self.notes, self.sent, self.inbox = [], [], collections.deque()

    def on_service_added(self, name, addrinfo):
        self.notes.append(("add", name, addrinfo))

    def on_service_removed(self, name, addrinfo):
        self.notes.append(("rem", name, addrinfo))

    def _recv(self):
        if self.inbox:
            return self.inbox.popleft()
        self.active = False          # nothing more to read: leave the loop the way close() does
        raise socket.timeout()

    def _send(self, data, addrinfo):
        self.sent.append((data, addrinfo))

    def feed(self, data, addrinfo):
        """one datagram through the real _work; returns the exception that escaped the loop, if any"""
        self.inbox.append((data, addrinfo))
        self.notes, self.sent = [], []
        self.active = True
        try:
            self._work()
            return None
        except Exception as e:      # noqa: the loop is dead
            self.inbox.clear()
            return e


class patched_clock:
    def __init__(self, clock):
        self.clock = clock

    def __enter__(self):
        self.old = R.time
        R.time = self.clock
        return self.clock

    def __exit__(self, *a):
        R.time = self.old


# ---------------------------------------------------------------- the reference reading of the property

def spec_classify(data):
    """what a datagram legitimately asks for (independent of the code under test)"""
    try:
        v = brine.load(data)
    except Exception:
        return ("undecodable",)
    try:
        magic, cmd, args = v
    except Exception:
        return ("not-a-triple",)
    if not (type(magic) is str and magic == "RPYC"):
        return ("wrong-magic",)
    if type(cmd) is not str:
        return ("command-not-text",)
    c = cmd.lower()
    if c not in COMMANDS:
        return ("unknown-command",)
    try:
        args = tuple(args)
    except TypeError:
        return ("bad-args",)
    if c == "query":
        if len(args) == 1 and type(args[0]) is str:
            return ("query", args[0].upper())
        return ("bad-args",)
    if c == "register":
        if len(args) != 2:
            return ("bad-args",)
        try:
            names = list(args[0])
        except TypeError:
            return ("bad-args",)
        if not all(type(n) is str for n in names):
            return ("bad-args",)
        return ("register", [n.upper() for n in names], args[1])
    if len(args) != 1:
        return ("bad-args",)
    return ("unregister", args[0])


class Spec:
    """NAME -> {(host, port): time of the last refresh}; never pruned"""

    def __init__(self, pruning):
        self.pruning, self.reg = pruning, {}

    def apply(self, what, host, now):
        if what[0] == "register":
            for n in what[1]:
                self.reg.setdefault(n, {})[(host, what[2])] = now
        elif what[0] == "unregister":
            for n in list(self.reg):
                self.reg[n].pop((host, what[1]), None)

    def fresh(self, name, now):
        return {a: t for a, t in self.reg.get(name, {}).items() if t >= now - self.pruning}


def members(svc):
    return {(n, a) for n, tb in svc.items() for a in tb}


def hist_case(pruning, events, upto):
    return {"kind": "hist", "pruning": pruning, "upto": upto,
            "events": [[now, host, sp, data.hex()] for now, host, sp, data in events[:upto + 1]]}


def run_history(ctx, pruning, events, model_out=None, label="history"):
    """events: [(now, host, srcport, datagram bytes)].  Oracle on the real object after every datagram,
    then correspondence with the model's per-event output."""
    clock = Clock()
    with patched_clock(clock):
        srv = Drv(pruning)
        spec = Spec(pruning)
        comparable = model_out is not None
        diverged = False        # the table already differs from the reference: report once, then stop comparing it
        for i, (now, host, sport, data) in enumerate(events):
            clock.now = now
            what = spec_classify(data)
            kind = what[0]
            ctx.count("dgram:" + kind)
            before = members(srv.services)
            exc = srv.feed(data, (host, sport))
            after = members(srv.services)
            notes, sent = list(srv.notes), list(srv.sent)
            case = lambda: hist_case(pruning, events, i)
            # ---- the loop still runs
            if exc is not None:
                ctx.violation("loop-dies:%s:%s" % (C.exc_enum(exc), kind), case(), observed="%s: %s" % (type(exc).__name__, exc),
                              expected="the datagram is dropped and the loop continues",
                              what="one datagram (%s) raises out of RegistryServer._work and ends the registry" % kind)
            # ---- replies
            if exc is None and kind in COMMANDS and not diverged:
                if len(sent) != 1 or sent[0][1] != (host, sport):
                    ctx.violation("reply-missing-or-misdirected:" + kind, case(), observed=short(sent), expected="one reply to the sender",
                                  what="a well-formed %s got %d replies" % (kind, len(sent)))
                else:
                    try:
                        rep = brine.load(sent[0][0])
                    except Exception as e:
                        rep = e
                    if kind != "query":
                        if rep != "OK":
                            ctx.violation("reply-not-OK:" + kind, case(), observed=short(rep), expected="OK", what="wrong acknowledgement")
                    else:
                        exp = spec.fresh(what[1], now)
                        ok = type(rep) is tuple and len(rep) == len(exp) and all(a in exp for a in rep) and len(set(rep)) == len(rep)
                        if not ok:
                            ctx.violation("query-wrong-set", case(), observed=short(rep), expected=short(sorted(exp.items(), key=lambda x: x[1])),
                                          what="query answer is not exactly the registered, not unregistered, fresh servers")
                        elif [exp[a] for a in rep] != sorted(exp[a] for a in rep):
                            ctx.violation("query-wrong-order", case(), observed=short([(a, exp[a]) for a in rep]), expected="oldest refresh first",
                                          what="query answer is not ordered by refresh time")
            # ---- notifications: exactly once per actual change of membership
            want = collections.Counter([("add",) + x for x in after - before] + [("rem",) + x for x in before - after])
            got = collections.Counter(notes)
            if got != want:
                extra, missing = got - want, want - got
                if extra:
                    n = sorted(extra, key=repr)[0]
                    sig = "notification:%s-without-change" % ("removed" if n[0] == "rem" else "added")
                    if want[n] >= 1:
                        sig = "notification:duplicate-" + ("removed" if n[0] == "rem" else "added")
                    ctx.violation(sig, case(), observed=short(sorted(got.items(), key=repr)), expected=short(sorted(want.items(), key=repr)),
                                  what="on_service_%s fired for %r although the membership of that name did not change" % ("removed" if n[0] == "rem" else "added", n[1:]))
                if missing:
                    n = sorted(missing, key=repr)[0]
                    ctx.violation("notification:missing-" + ("removed" if n[0] == "rem" else "added"), case(), observed=short(sorted(got.items(), key=repr)),
                                  expected=short(sorted(want.items(), key=repr)), what="a membership change was not notified")
            # ---- the table is what the requests so far say (modulo lazy pruning of stale entries)
            spec.apply(what, host, now)
            for n in (set(srv.services) | set(spec.reg)) if not diverged else ():
                real, want_tb = srv.services.get(n, {}), spec.reg.get(n, {})
                for a in set(real) | set(want_tb):
                    if a in real and a not in want_tb:
                        diverged = True
                        ctx.violation("collateral:ghost-registration:" + kind, case(), observed=short((n, a, real[a])), expected="absent",
                                      what="after a %s the table holds a registration nobody made (or one that was unregistered)" % kind)
                    elif a in real and real[a] != want_tb[a]:
                        diverged = True
                        ctx.violation("collateral:refresh-time:" + kind, case(), observed=short((n, a, real[a])), expected=short(want_tb[a]),
                                      what="after a %s the refresh time of a registration differs from its last register request" % kind)
                    elif a not in real and want_tb[a] >= now - pruning:
                        diverged = True
                        ctx.violation("collateral:lost-registration:" + kind, case(), observed="absent", expected=short((n, a, want_tb[a])),
                                      what="after a %s a fresh registration disappeared without an unregister from its owner" % kind)
            if kind not in COMMANDS and exc is None and before != after:
                ctx.violation("collateral:malformed-changed-table:" + kind, case(), observed=short(sorted(after ^ before, key=repr)), expected="no change",
                              what="a malformed datagram changed the table")
            # ---- correspondence
            if comparable:
                m = model_out[i]
                tag = m[0].decode() if m and isinstance(m[0], bytes) else "?"
                if tag in ("unmod", "outside"):
                    ctx.count("model:%s:%s" % (tag, kind))
                    comparable = False          # the concrete instance may diverge from here on
                    continue
                if tag != "ok":
                    ctx.tie_broken("correspondence:registry-runner", "event %d of %s: %r" % (i, label, m))
                    comparable = False
                    continue
                ctx.model_traces += 1
                res, msvc = m[1], m[2]
                where = "%s event %d (%s) dgram %s pruning %d" % (label, i, kind, data.hex()[:120], pruning)
                if res[0] == b"dead":
                    if exc is None or C.exc_enum(exc) != res[1].decode():
                        ctx.tie_broken("correspondence:liveness", "%s: model dead %s, impl %r" % (where, res[1], exc))
                else:
                    if exc is not None:
                        ctx.tie_broken("correspondence:liveness", "%s: model alive, impl raised %r" % (where, exc))
                    mrep = [x[1] if x[0] == b"ok" else ("exc", x[1]) for x in res[1]]
                    if mrep != [d for d, _ in sent]:
                        ctx.tie_broken("correspondence:reply", "%s: model %r impl %r" % (where, mrep, [d for d, _ in sent]))
                    if res[2] != [note_sx(n) for n in notes]:
                        ctx.tie_broken("correspondence:notifications", "%s: model %r impl %r" % (where, res[2], notes))
                if msvc != services_sx(srv.services):
                    ctx.tie_broken("correspondence:services", "%s: model %r impl %r" % (where, msvc, services_sx(srv.services)))
                    comparable = False


# ---------------------------------------------------------------- generators

HOSTS = ["10.0.0.1", "10.0.0.2", "hostA", "reg.example"]
NAMES = ["foo", "FOO", "Foo", "bar", "Bar", "baz", "a", "x_1", "svc-9", "", "foo bar"]
ODD_NAMES = ["straße", "STRASSE", "ǆ", "İx", "naïve", "K"]
PORTS = [1234, 999, 18812, 0, 65535, 2 ** 40, -1, 1234, 999, "http", b"p", None, (1, 2), ("a", (b"b", None))]
ODD_PORTS = [1.5, True, 1, 1.0, 2 + 0j, frozenset([1]), slice(1, 2, 3), -0.0, 0]
SHAPES = [None, NotImplemented, Ellipsis, True, False, 0, 5, -1, 10 ** 30, 1.5, float("inf"), 2 + 3j, b"", b"RPYC", b"query", b"abc",
          "", "RPYC", "rpyc", "QUERY", "x", "abc", "\ud800", "é", (), (1,), ("a", "b"), ("a", 5), ("RPYC", "QUERY", ("x",)),
          frozenset(), frozenset([1]), frozenset(["foo"]), frozenset(["a", "b"]), slice(1, 2, 3), slice(None), ((),), (("foo",), 7),
          ("foo",), (b"foo",), (5,), (("foo", b"bar"), 7), (("foo", "bar"), 7, 8)]


def spell(r, cmd):
    c = r.random()
    if c < 0.4:
        return cmd.upper()
    if c < 0.7:
        return cmd
    if c < 0.85:
        return cmd.capitalize()
    return "".join(ch.upper() if r.random() < 0.5 else ch for ch in cmd)


def dg(*triple):
    return brine.dump(tuple(triple))


ODD = [0.0]      # probability of names / ports outside the extracted instance's domain (set per history)


def gen_name(r):
    return r.choice(ODD_NAMES) if r.random() < ODD[0] else r.choice(NAMES)


def gen_port(r):
    c = r.random()
    if c < ODD[0]:
        return r.choice(ODD_PORTS)
    if c < 0.75:
        return r.choice(PORTS[:9])
    if c < 0.9:
        return r.choice(PORTS)
    return r.randint(1, 70000)


def gen_malformed(r, valid):
    """a datagram that is (mostly) not a well-formed request"""
    c = r.random()
    if c < 0.12:
        return r.randbytes(r.choice([0, 1, 2, 3, 5, 9, 20, 64]))
    if c < 0.22:
        b = bytearray(valid)
        if b and r.random() < 0.5:
            del b[r.randrange(len(b)):]
        elif b:
            b[r.randrange(len(b))] = r.randrange(256)
        return bytes(b)
    if c < 0.30:
        return brine.dump(r.choice(SHAPES))
    cmd = spell(r, r.choice(COMMANDS))
    good_args = {"q": (gen_name(r),), "r": ((gen_name(r),), gen_port(r)), "u": (gen_port(r),)}[cmd[0].lower()]
    if c < 0.45:
        return dg(r.choice(SHAPES), cmd, good_args)
    if c < 0.65:
        return dg("RPYC", r.choice(SHAPES + ["nosuch", "QUERY ", "cmd_query", "_work", "close", "REGISTE", "un-register"]), good_args)
    if c < 0.85:
        return dg("RPYC", cmd, r.choice(SHAPES))
    extra = r.choice([(), good_args + (1,), good_args[:-1], good_args + good_args])
    return dg("RPYC", cmd, extra)


def gen_history(r, nmax):
    pruning = r.choice([0, 1, 5, 60, 240, 240])
    ODD[0] = 0.15 if r.random() < 0.1 else 0.0
    hosts = r.sample(HOSTS, r.choice([1, 2, 3, 4]))
    steps = [0, 0, 1, 1, 2, 5, max(pruning // 2, 1), pruning, pruning + 1, 2 * pruning + 3]
    now = r.choice([1000, 10 ** 9])
    ev = []
    n = r.randint(3, nmax)
    pm = r.choice([0.0, 0.1, 0.2, 0.4])
    for _ in range(n):
        now += r.choice(steps)
        host = r.choice(hosts)
        sport = r.randint(1024, 65535)
        c = r.random()
        if c < 0.40:
            k = r.choice([1, 1, 2, 3])
            names = tuple(gen_name(r) for _ in range(k))
            if r.random() < 0.05:
                names = r.choice(["ab", frozenset(names[:1]), (), names + names])
            data = dg("RPYC", spell(r, "register"), (names, gen_port(r)))
        elif c < 0.55:
            data = dg("RPYC", spell(r, "unregister"), (gen_port(r),))
        else:
            data = dg("RPYC", spell(r, "query"), (gen_name(r),))
        if r.random() < pm:
            data = gen_malformed(r, data)
        ev.append((now, host, sport, data))
    return pruning, ev


def systematic():
    """every value shape in place of magic, command, args of every command, against a populated table"""
    base = [(1000, "10.0.0.1", 5000, dg("RPYC", "REGISTER", (("foo", "bar"), 1234))),
            (1001, "10.0.0.2", 5001, dg("RPYC", "REGISTER", (("foo",), 999))),
            (1002, "10.0.0.1", 5002, dg("RPYC", "REGISTER", (("baz",), 999)))]
    good = {"QUERY": ("foo",), "REGISTER": (("foo",), 1234), "UNREGISTER": (999,)}
    out = []
    for cmd, args in good.items():
        for s in SHAPES:
            out.append(dg(s, cmd, args))
            out.append(dg("RPYC", cmd, s))
        out.append(dg("RPYC", cmd, args + (1,)))
        out.append(dg("RPYC", cmd, args[:-1]))
    for s in SHAPES:
        out.append(dg("RPYC", s, ("foo",)))
        out.append(dg("RPYC", s, ()))
        out.append(brine.dump(s))
    out += [b"", b"\x00", b"\xff", b"\x13", dg("RPYC", "QUERY", ("foo",))[:-1], dg("RPYC", "QUERY"), dg("RPYC", "QUERY", ("foo",), 1)]
    seen, res = set(), []
    for d in out:
        if d not in seen:
            seen.add(d)
            res.append((240, base + [(1003, "10.0.0.2", 5003, d), (1004, "10.0.0.1", 5004, dg("RPYC", "QUERY", ("foo",)))]))
    return res


# ---------------------------------------------------------------- model plumbing

_FACTS = {}


def _typed_items(mod):
    """typed items of a translator module for the tree under test (not read from coq/gen: another
    check may be regenerating that directory for a different tree at the same time)"""
    if mod not in _FACTS:
        import importlib
        try:
            items = importlib.import_module("tools.pygen." + mod).translate(C.REPO)
            _FACTS[mod] = {it.name: it.coq_term for it in items if it.kind == "typed"}
        except Exception:
            _FACTS[mod] = {}
    return _FACTS[mod]


def gen_facts():
    """the three facts of the tree under test as the translator reads them (pinned values if unreadable)"""
    t = _typed_items("registry")
    return [int(t.get(k) == "true") for k in ("cmd_lookup_guarded", "remove_notifies_only_present", "tcp_accepted_timeout")]


def sp_flag():
    return int(_typed_items("brine").get("str_encode_surrogatepass") == "true")


def model_hist_case(facts, pruning, events):
    return ["hist", facts, [pruning, [sp_flag(), MAXD]], [[now, host, data] for now, host, _, data in events]]


def check_histories(ctx, model, hists, label):
    facts = gen_facts()
    outs = model.batch([model_hist_case(facts, p, ev) for p, ev in hists]) if model else [None] * len(hists)
    for (p, ev), mo in zip(hists, outs):
        kinds = [spec_classify(d)[0] for _, _, _, d in ev]
        wf = sum(k in COMMANDS for k in kinds)
        ctx.case(("hist", p, tuple(ev)), nontrivial=(wf >= 2 and len(ev) >= 3),
                 sample={"pruning": p, "events": len(ev), "kinds": kinds[:8], "first": ev[0][3].hex()[:60]})
        ctx.count("history:" + label)
        if mo is not None and (not isinstance(mo, list) or len(mo) != len(ev)):
            ctx.tie_broken("correspondence:registry-runner", "%d outputs for %d events" % (len(mo) if isinstance(mo, list) else -1, len(ev)))
            mo = None
        run_history(ctx, p, ev, mo, label)


def check_python_facts(ctx):
    """the two facts about CPython the model relies on"""
    bad = [hex(c) for c in range(128, 0x110000) if all(ord(x) < 128 for x in chr(c).lower()) and c != 0x212a]
    if bad or any("k" in c for c in COMMANDS):
        ctx.tie_broken("assumption:str.lower", "non-ASCII characters lower-casing to ASCII: %s" % bad[:10])
    for v in [slice(1, 2, 3), frozenset([1]), (1, slice(None)), 1.5, 2j, None, NotImplemented, Ellipsis]:
        try:
            hash(v)
        except TypeError:
            ctx.tie_broken("assumption:hashable", repr(v))


# ---------------------------------------------------------------- real sockets

class NoteMixin:
    def on_service_added(self, name, addrinfo):
        self.notes.append(("add", name, addrinfo))

    def on_service_removed(self, name, addrinfo):
        self.notes.append(("rem", name, addrinfo))


class UDPSrv(NoteMixin, R.UDPRegistryServer):
    TIMEOUT = 0.1
    notes = None


class TCPSrv(NoteMixin, R.TCPRegistryServer):
    TIMEOUT = 0.25
    notes = None


def _start(srv):
    srv.notes = []
    srv.crash = None

    def body():
        try:
            srv.start()
        except Exception as e:      # the main loop died; start() has closed the socket
            srv.crash = e
    th = threading.Thread(target=body, daemon=True)
    th.start()
    t0 = _time.time()
    while not srv.active and _time.time() - t0 < 20:
        _time.sleep(0.005)
    return th


def _stop(srv, th):
    try:
        srv.close()
    except ValueError:
        pass
    th.join(15)
    if th.is_alive():
        return False
    return True


def udp_run(ctx, datagrams):
    """real UDP loopback: register, throw datagrams at the server, it must still answer"""
    srv = UDPSrv(host="127.0.0.1", port=0, pruning_timeout=240, logger=_quiet)
    th = _start(srv)
    port = srv.port
    case = {"kind": "udp", "datagrams": [d.hex() for d in datagrams]}
    try:
        cl = R.UDPRegistryClient(ip="127.0.0.1", port=port, timeout=8.0, logger=_quiet)
        ok = cl.register(("foo",), 1234, interface="127.0.0.1")
        s = socket.socket(socket.AF_INET, socket.SOCK_DGRAM)
        try:
            for d in datagrams:
                s.sendto(d, ("127.0.0.1", port))
            _time.sleep(0.15)
        finally:
            s.close()
        spec = Spec(240)
        spec.apply(("register", ["FOO"], 1234), "127.0.0.1", 0)
        for d in datagrams:
            spec.apply(spec_classify(d), "127.0.0.1", 0)
        want = set(spec.fresh("FOO", 0))
        ans = R.UDPRegistryClient(ip="127.0.0.1", port=port, timeout=8.0, logger=_quiet).discover("FOO") if th.is_alive() else None
        good = type(ans) is tuple and set(ans) == want and len(ans) == len(want)
        if not good:
            _time.sleep(0.2)        # let a dying thread finish dying before deciding which failure this is
        alive = th.is_alive() and srv.crash is None
        ctx.case(("udp", tuple(datagrams)), nontrivial=True, sample={"udp_datagrams": len(datagrams), "alive": alive})
        ctx.count("socket:udp-run")
        if not alive:
            kinds = [spec_classify(d)[0] for d in datagrams]
            bad = [k for k in kinds if k not in COMMANDS] or kinds
            kind = "command-not-text" if "command-not-text" in bad else bad[0]
            ctx.violation("loop-dies:%s:%s" % (C.exc_enum(srv.crash) if srv.crash else "thread-ended", kind), case,
                          observed="server thread ended: %r" % (srv.crash,), expected="server keeps answering",
                          what="a datagram (%s) ends the UDP registry's main loop (thread dead, socket closed)" % kind)
        elif not ok or not good:
            ctx.violation("udp-registry-stops-answering", case, observed=short((ok, ans)), expected=short((True, sorted(want, key=repr))),
                          what="after malformed datagrams the UDP registry no longer answers a query correctly")
    finally:
        if not _stop(srv, th):
            ctx.tie_broken("harness:udp-server-did-not-stop", "")


def tcp_run(ctx, model, script):
    """real TCP loopback. script: list of 'silent' | 'partial' | 'register' | 'query' ; clients connect in that order and
    silent/partial ones stay connected.  Every 'query' must be answered within the bound."""
    srv = TCPSrv(host="127.0.0.1", port=0, pruning_timeout=240, logger=_quiet)
    th = _start(srv)
    port = srv.port
    held, answers = [], []
    case = {"kind": "tcp", "script": script}
    bound = 8.0          # generous: a passing run returns as soon as the answer arrives; a loaded machine must not look like starvation
    try:
        for step in script:
            if step in ("silent", "partial"):
                s = socket.create_connection(("127.0.0.1", port), timeout=2)
                if step == "partial":
                    s.send(dg("RPYC", "QUERY", ("foo",))[:3])
                held.append(s)
                _time.sleep(0.05)
                answers.append(None)
            elif step == "register":
                cl = R.TCPRegistryClient("127.0.0.1", port=port, timeout=bound, logger=_quiet)
                s = socket.socket(socket.AF_INET, socket.SOCK_STREAM)
                s.settimeout(bound)
                try:
                    s.connect(("127.0.0.1", port))
                    s.send(dg("RPYC", "REGISTER", (("foo",), 1234)))
                    try:
                        answers.append(s.recv(1500))
                    except (socket.timeout, OSError):
                        answers.append(b"")
                finally:
                    s.close()
            else:
                s = socket.socket(socket.AF_INET, socket.SOCK_STREAM)
                s.settimeout(bound)
                try:
                    s.connect(("127.0.0.1", port))
                    s.send(dg("RPYC", "QUERY", ("foo",)))
                    try:
                        answers.append(s.recv(1500))
                    except (socket.timeout, OSError):
                        answers.append(b"")
                finally:
                    s.close()
        ctx.case(("tcp", tuple(script)), nontrivial=True, sample={"tcp_script": script, "answers": [a.hex() if a else a for a in answers]})
        ctx.count("socket:tcp-run")
        starved = [i for i, (st, a) in enumerate(zip(script, answers)) if st in ("register", "query") and not a]
        if starved:
            blocker = [st for st in script[:starved[0]] if st in ("silent", "partial")]
            sig = "tcp-silent-client-starves-others" if "silent" in blocker else "tcp-client-unanswered"
            ctx.violation(sig, case, observed="client %d (%s) got no answer within %.1fs" % (starved[0], script[starved[0]], bound),
                          expected="every well-formed request is answered although another client connected and sent nothing",
                          what="a TCP client that connects and stays silent blocks TCPRegistryServer._recv: nobody else is answered")
        else:
            regs = [i for i, st in enumerate(script) if st == "register"]
            for i, (st, a) in enumerate(zip(script, answers)):
                if st == "query":
                    want = brine.dump((("127.0.0.1", 1234),) if any(j < i for j in regs) else ())
                    if a != want:
                        ctx.violation("tcp-query-wrong-answer", case, observed=a.hex(), expected=want.hex(), what="TCP query answer differs from the registrations made")
        if model:
            facts = gen_facts()
            cl = []
            for i, st in enumerate(script):
                d = {"silent": 0, "partial": dg("RPYC", "QUERY", ("foo",))[:3], "register": dg("RPYC", "REGISTER", (("foo",), 1234)),
                     "query": dg("RPYC", "QUERY", ("foo",))}[st]
                cl.append([1000 + i, "127.0.0.1", d])
            mo = model.batch([["tcp", facts, [240, [sp_flag(), MAXD]], cl]])[0]
            ctx.model_traces += 1
            for i, (st, a) in enumerate(zip(script, answers)):
                if st in ("register", "query"):
                    m = mo[i]
                    mans = m[1][0][1] if m[0] == b"reached" and m[1] else b""
                    if mans != (a or b""):
                        ctx.tie_broken("correspondence:tcp", "script %r client %d: model %r impl %r" % (script, i, m, a))
    finally:
        for s in held:
            try:
                s.close()
            except OSError:
                pass
        if not _stop(srv, th):
            ctx.tie_broken("harness:tcp-server-did-not-stop", "")


# ---------------------------------------------------------------- entry points

def run(ctx):
    r = ctx.rng
    model = C.Model("registry")
    model = model if model.available() else None
    if model is None:
        ctx.tie_broken("runner:registry", "extracted model not built")
    ctx.coverage_extra["rule"] = (
        "a case is one history: 3..25 (quick) / ..60, some ..200 (thorough) datagrams from 1-4 hosts with a virtual clock (steps 0, 1, 2, 5, pruning/2, "
        "pruning, pruning+1, 2*pruning+3; pruning in {0,1,5,60,240}), 40%% register (1-3 aliases in mixed case, ports from a small pool so that "
        "refresh/unregister hit), 15%% unregister, 45%% query, each replaced with probability 0/0.1/0.2/0.4 by a malformed datagram (random bytes, "
        "truncation/corruption of a valid one, any of %d value shapes in place of the whole triple / magic / command / args, wrong argument counts); "
        "plus a systematic sweep of every shape in every position of every command against a populated table, and real UDP/TCP loopback runs "
        "(numeric command, silent and partial TCP clients). non-trivial = at least 3 datagrams of which at least 2 are well-formed commands; "
        "distinct by the full datagram sequence" % len(SHAPES))
    ctx.coverage_extra["facts"] = dict(zip(("cmd_lookup_guarded", "remove_notifies_only_present", "tcp_accepted_timeout"), gen_facts()))
    check_python_facts(ctx)
    # design witnesses first
    w = [(240, [(1000, "10.0.0.1", 5000, dg("RPYC", "REGISTER", (("foo",), 1234))), (1001, "10.0.0.1", 5001, dg("RPYC", "REGISTER", (("bar",), 999))),
                (1002, "10.0.0.1", 5002, dg("RPYC", "UNREGISTER", (999,))), (1003, "10.0.0.2", 5003, dg("RPYC", "QUERY", ("Foo",)))]),
         (240, [(1000, "10.0.0.1", 5000, dg("RPYC", "REGISTER", (("foo",), 1234))), (1001, "10.0.0.2", 5001, dg("RPYC", 5, ())),
                (1002, "10.0.0.2", 5003, dg("RPYC", "QUERY", ("foo",)))]),
         (5, [(1000, "a", 1, dg("RPYC", "REGISTER", (("foo",), 1))), (1000, "b", 1, dg("RPYC", "REGISTER", (("foo",), 1))),
              (1003, "a", 1, dg("RPYC", "REGISTER", (("FOO",), 1))), (1005, "c", 2, dg("RPYC", "QUERY", ("foo",))), (1006, "c", 2, dg("RPYC", "QUERY", ("foo",))),
              (1020, "c", 2, dg("RPYC", "QUERY", ("foo",))), (1021, "b", 1, dg("RPYC", "REGISTER", (("foo",), 1))), (1021, "c", 2, dg("RPYC", "QUERY", ("foo",)))])]
    check_histories(ctx, model, w, "witness")
    check_histories(ctx, model, systematic(), "systematic")
    n, nmax = (1300, 25) if ctx.quick else (40000, 60)
    check_histories(ctx, model, [gen_history(r, nmax) for _ in range(n)], "random")
    if not ctx.quick:
        check_histories(ctx, model, [gen_history(r, 200) for _ in range(2500)], "long")
    # real sockets
    udp_sets = [[dg("RPYC", 5, ())], [b"\xff\x00", dg("nope", "QUERY", ("foo",)), dg("RPYC", "QUERY", 7), dg("RPYC", "nosuch", ())]]
    tcp_scripts = [["register", "silent", "query"], ["register", "partial", "query"]]
    if not ctx.quick:
        udp_sets += [[gen_malformed(r, dg("RPYC", "QUERY", ("foo",))) for _ in range(20)] for _ in range(10)]
        udp_sets += [[dg("RPYC", s, ())] for s in (None, 1.5, ("QUERY",), frozenset(), slice(1, 2, 3))]
        tcp_scripts += [["silent", "register", "query"], ["partial", "silent", "register", "partial", "query", "query"], ["query", "register", "query"]]
    for ds in udp_sets:
        udp_run(ctx, ds)
    for sc in tcp_scripts:
        tcp_run(ctx, model, sc)


def replay(ctx, rep):
    case = rep["case"] or {}
    model = C.Model("registry")
    model = model if model.available() else None
    if case.get("kind") == "hist":
        ev = [(now, host, sp, bytes.fromhex(h)) for now, host, sp, h in case["events"]]
        check_histories(ctx, model, [(case["pruning"], ev)], "replay")
    elif case.get("kind") == "udp":
        udp_run(ctx, [bytes.fromhex(h) for h in case["datagrams"]])
    elif case.get("kind") == "tcp":
        tcp_run(ctx, model, case["script"])
