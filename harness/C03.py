"""C03 — immutable values travel by copy, everything else by reference; identity survives.

Two real rpyc Connections (A, B) joined by harness.memstream.connect_pair run random histories of
  send (as a request argument or as a result) / echo back / re-receive / drop / operate through a proxy / forged packages.
Values are built from plain immutable values of every shape (harness.C04.gen_value), a pool of application objects
(containers, functions, classes, modules, enum members, named tuples, instances of subclasses of int/str/float/tuple/
frozenset/bytes, frozensets and slices that contain an object), proxies currently held, and tuples nesting all of these.

After EVERY step
  * implementation-level oracle (no model involved): the property's own statement is evaluated on the real objects with
    `is`, type(), == (bit-exact for floats) on both ends, on the owner's table and, after an operation through a proxy, on
    the owner's object;
  * correspondence: outcome, the package that went on the wire (decoded with the independent harness.refcodec) and the
    complete observable state of both parties (local-object table with counts, live proxies with serials, counts and
    targets) are compared with the extracted model (model/Box.v) run with the ladders re-translated from the source tree.
obtain / deliver are checked by the oracle on separate classic connections (pickle is outside the model)."""
import collections, enum, fractions, gc, struct, sys, types, weakref
from harness import common as C
from harness import C04, refcodec
from harness.memstream import connect_pair

META = {
    "level": "proof",
    "level_text": "Theorems over all values (an inductive universe with every nesting) and all histories of an executable two-party "
                  "model of _box/_unbox/the weak proxy cache/the local-object table (props/C03.v), for histories in which the id packs "
                  "of lent objects do not change: plain values arrive as the same constructor and content, every other object as THE "
                  "proxy for its id pack, exact tuples element-wise at any depth, a proxy handed back is the stored original (any "
                  "number of hops), one live proxy per object, a fresh one after a drop, an operation through a proxy reaches the "
                  "owner's object, well-behaved histories never raise and keep the invariant. When the class of a LENT object is "
                  "reassigned or renamed the code violates 'same proxy while alive' and 'handed back = original': two _refuted witness "
                  "theorems, produced for real by the harness (known finding). The wire leg is C04's round trip applied to the "
                  "package, which is proved to be a plain value. The decision ladders of _box/_unbox and the layout/guards of "
                  "get_id_pack are regenerated on every run and tied by reflexivity; the extracted model is compared step by step "
                  "with two real connections. obtain/deliver: only the plumbing is proved (_partial theorems, pickle uninterpreted); "
                  "that the copy is equal and independent is HARNESS-LEVEL evidence (oracle on 9 fixed + 25/600 generated picklable "
                  "structures and 30/600 generated tuples mixing values and references, per direction). One arrival at a time: the "
                  "theorems about transfer/run assume no arrival is dispatched while another waits for the object's class "
                  "(HANDLE_INSPECT inside _netref_factory); the nested case has its own small model (nested_arrival) with the clause "
                  "proved under the generated fact factory_rechecks_cache_after_inspect and refuted without it, and the harness puts two "
                  "requests carrying one object in flight (scripted for 12 object kinds + 6% of random steps). Objects carried by "
                  "exceptions are C09's subject, not claimed here. Three address spaces: oracle-only (6 object kinds over a real two-hop chain).",
    "level_note": "Trusted: Coq kernel, pygen, extraction + driver, harness. CPython's id() is a parameter (get_id_pack: any function "
                  "with encodable id packs, the same throughout a history except for objects that are not lent); identity theorems "
                  "assume no other live object shares the id pack, which holds inside one address space but is NOT provable across "
                  "address spaces (forked peers share layouts): chained connections are outside the model. The two c03_encoding_* "
                  "theorems are facts of the encoding, not of the code: that subclass instances are by-reference objects rests on the "
                  "generated fact dumpable_tests_exact_types plus the harness mapping real objects by exact type. Netref class "
                  "creation (HANDLE_INSPECT) is outside the model and runs for real in the harness.",
    "technique": "Coq proof by nested induction over the value universe with state threading, invariant over operation lists; "
                 "regenerated ladders tied by reflexivity; differential correspondence with real connection pairs on one thread",
    "gen": ["consts", "brine", "box", "colls"],
    "shapes": ["box.*", "brine.dumpable", "colls.WeakValueDict.*", "colls.RefCountingColl.add", "colls.RefCountingColl.__getitem__",
               "handlers.lib.get_id_pack"],
    "models": ["box"],
    "model_files": ["Box"],
    "assumptions": [
        "CPython: id() of simultaneously live objects are distinct and a proxy's finalizer runs when the application drops its last "
        "reference (reference counting)",
        "excluded by 'encodable': integers beyond sys.get_int_max_str_digits(), lengths >= 2^32, nesting beyond the recursion limit",
        "one connection between two address spaces, used by one thread at a time; the class (and class name) of an object does not "
        "change while the object is lent (violated => known finding); pickle round-trips to an equal object (obtain/deliver, harness-level)",
    ],
}

from rpyc.core import brine, consts, netref
from rpyc.lib import get_id_pack
from rpyc.utils import classic
from rpyc.core.service import ClassicService, VoidService

MAXD = C04.MAXD
H_KEEP, H_FETCH = 100, 101
CFG = dict(allow_all_attrs=True, allow_setattr=True, allow_delattr=True, allow_pickle=True, allow_public_attrs=True)
STD_LADDERS = ([[[0, 1, 0], [1, 2, 1], [2, 3, 2]], [4, 3]], [[1, 0], [2, 1], [3, 2], [4, 3]])


# ------------------------------------------------------------------ picklable classes for obtain / deliver (module level)
class PInt(int):
    pass


class PThing(object):
    def __init__(self, a):
        self.a = a

    def __eq__(self, o):
        return type(o) is PThing and o.a == self.a

    __hash__ = None


PNT = collections.namedtuple("PNT", "a b")


class PColor(enum.IntEnum):
    RED = 1


# ------------------------------------------------------------------ the pool of application objects of one party
class Entry(object):
    """mut(conn, proxy, d): apply an operation with argument d through the proxy; obs(obj): snapshot of the object's
    observable state; hit(obj, d): is the effect of that operation visible on the object"""
    __slots__ = ("idx", "name", "sx", "obj", "kind", "mut", "obs", "hit", "probe", "rekey", "group", "changed", "flipped")

    def __init__(self, kind, obj, mut=None, obs=None, hit=None, probe=False):
        self.kind, self.obj, self.mut, self.obs, self.probe = kind, obj, mut, obs, probe
        self.flipped = False     # the class is currently not the original one
        self.rekey = None        # callable: reassign / rename the class, so that get_id_pack answers differently
        self.group = [self]      # the entries whose id pack that changes
        self.changed = False     # the id pack changed while the object was lent
        self.hit = hit if hit is not None else (lambda o, d: _obs_attr(o) == d)


def _callattr(name, wrap=lambda d: (d,)):
    def f(conn, proxy, d):
        conn.sync_request(consts.HANDLE_CALLATTR, proxy, name, wrap(d))
    return f


def _setattr(conn, proxy, d):
    conn.sync_request(consts.HANDLE_SETATTR, proxy, "c03_tag", d)


def _obs_attr(o):
    """the object's OWN attribute (a class attribute must not show through its instances)"""
    try:
        return vars(o).get("c03_tag")
    except TypeError:
        return None


def make_pool():
    """fresh objects (and fresh classes: enum members are singletons per class) for one party"""
    class MyInt(int):
        pass

    class MyStr(str):
        pass

    class MyTuple(tuple):
        pass

    class MyFloat(float):
        pass

    class MyFset(frozenset):
        pass

    class MyBytes(bytes):
        pass

    class MyComplex(complex):
        pass

    class Color(enum.IntEnum):
        RED = 1
        BLUE = 2

    class Mode(enum.Flag):
        R = 1
        W = 2

    class Word(str, enum.Enum):
        A = "a"

    NT = collections.namedtuple("NT", "a b")

    class Thing(object):
        def __init__(self):
            self.x = 1

        def meth(self):
            return self.x

    class Marker(object):
        pass

    class CatchAll(object):
        def __getattr__(self, name):
            return 42

    class module(object):      # a class whose __name__ is "module"
        pass

    def fn(a=0):
        return a

    def make_twin(i):
        """distinct class objects with the same __module__ and __name__ (a class statement executed more than once);
        their special-method sets differ"""
        class Twin(object):
            def __init__(self):
                self.x = i
        if i == 1:
            Twin.__len__ = lambda self: 3
        if i == 2:
            Twin.__getitem__ = lambda self, k: k
        return Twin
    twins = [make_twin(i) for i in range(3)]

    class Shifty(object):       # instances are switched between these two classes (o.__class__ = ...)
        pass

    class Shifty2(object):
        pass

    class Ren(object):          # a class that gets renamed (Ren.__name__ = ...)
        pass

    def reclass(o):
        def f():
            o.__class__ = Shifty2 if type(o) is Shifty else Shifty
        return f

    def rename():
        Ren.__name__ = "Renamed" if Ren.__name__ == "Ren" else "Ren"

    thing = Thing()
    inst = [
        Entry("list", [1, 2], _callattr("append"), lambda o: tuple(o), lambda o, d: o[-1] == d),
        Entry("dict", {"a": 1}, _callattr("__setitem__", lambda d: ("k", d)), lambda o: tuple(sorted(o.items())), lambda o, d: o.get("k") == d),
        Entry("set", {1, 2}, _callattr("add"), lambda o: tuple(sorted(o)), lambda o, d: d in o),
        Entry("bytearray", bytearray(b"ab"), _callattr("append", lambda d: (d % 256,)), lambda o: bytes(o), lambda o, d: o[-1] == d % 256),
        Entry("function", fn, _setattr, _obs_attr),
        Entry("lambda", lambda: 0, _setattr, _obs_attr),
        Entry("builtin-function", len),
        Entry("module", types.ModuleType("c03mod"), _setattr, _obs_attr),
        Entry("module-in-sys", struct),
        Entry("object", object()),
        Entry("int-subclass", MyInt(5), _setattr, _obs_attr),
        Entry("str-subclass", MyStr("x"), _setattr, _obs_attr),
        Entry("tuple-subclass", MyTuple((1, 2)), _setattr, _obs_attr),
        Entry("float-subclass", MyFloat(1.5), _setattr, _obs_attr),
        Entry("frozenset-subclass", MyFset([1]), _setattr, _obs_attr),
        Entry("bytes-subclass", MyBytes(b"zz"), _setattr, _obs_attr),
        Entry("complex-subclass", MyComplex(1, 2), _setattr, _obs_attr),
        Entry("int-enum-member", Color.RED),
        Entry("flag-member", Mode.R | Mode.W),
        Entry("str-enum-member", Word.A),
        Entry("namedtuple", NT(1, (2, 3))),
        Entry("range", range(3)),
        Entry("instance", thing, _setattr, _obs_attr),
        Entry("bound-method", thing.meth),
        Entry("exception-instance", ValueError("x"), _setattr, _obs_attr),
        Entry("fraction", fractions.Fraction(1, 2)),
        Entry("memoryview", memoryview(b"abc")),
        Entry("twin-instance", twins[0](), _setattr, _obs_attr), Entry("twin-instance", twins[1](), _setattr, _obs_attr),
        Entry("twin-instance", twins[2](), _setattr, _obs_attr), Entry("twin-instance", twins[0](), _setattr, _obs_attr),
        Entry("marker", Marker()), Entry("marker", Marker()), Entry("marker", Marker()), Entry("marker", Marker()),
        Entry("reclassable-instance", Shifty(), _setattr, _obs_attr), Entry("reclassable-instance", Shifty(), _setattr, _obs_attr),
        Entry("instance-of-renamable-class", Ren(), _setattr, _obs_attr),
        # boundary objects: each is exercised in a dedicated short history
        Entry("module-named-module", types.ModuleType("module"), _setattr, _obs_attr, None, True),
        Entry("catch-all-getattr", CatchAll(), None, None, None, True),
        Entry("function-named-module", types.FunctionType(fn.__code__, {}, "module"), _setattr, _obs_attr, None, True),
        Entry("instance-with-name-module", type("N", (), {"__name__": "module"})(), _setattr, _obs_attr, None, True),
    ]
    classes = [
        Entry("builtin-class", int), Entry("builtin-class", list), Entry("class", Thing, _setattr, _obs_attr),
        Entry("class", MyInt, _setattr, _obs_attr), Entry("enum-class", Color), Entry("namedtuple-class", NT),
        Entry("builtin-class", type), Entry("exception-class", ValueError), Entry("builtin-class", object),
        Entry("twin-class", twins[0], _setattr, _obs_attr), Entry("twin-class", twins[1], _setattr, _obs_attr),
        Entry("twin-class", twins[2], _setattr, _obs_attr),
        Entry("renamable-class", Ren, _setattr, _obs_attr),
        Entry("class-named-module", module, _setattr, _obs_attr, None, True),
    ]
    pool = []
    for i, e in enumerate(inst):
        e.name = 4 * i
        e.sx = [12, e.name]
        pool.append(e)
    for j, e in enumerate(classes):
        e.name = 4 * j + 2
        e.sx = [12, e.name]
        pool.append(e)
    markers = [e for e in pool if e.kind == "marker"]
    comp = [
        Entry("frozenset-with-object", frozenset([markers[0].obj, 1])),
        Entry("slice-with-object", slice(0, markers[1].obj)),
        Entry("frozenset-with-tuple-with-object", frozenset([(1, markers[2].obj), "s"])),
        Entry("slice-with-tuple-with-object", slice((markers[3].obj,), None, 2)),
    ]
    comp[0].sx = [10, [markers[0].sx, [4, 1]]]
    comp[1].sx = [11, [4, 0], markers[1].sx, [0]]
    comp[2].sx = [10, [[9, [[4, 1], markers[2].sx]], [8, [115]]]]
    comp[3].sx = [11, [9, [markers[3].sx]], [0], [4, 2]]
    for e in comp:
        e.name = None
        pool.append(e)
    for i, e in enumerate(pool):
        e.idx = i
    for e in pool:
        if e.kind == "reclassable-instance":
            e.rekey = reclass(e.obj)
    ren = [e for e in pool if e.kind in ("renamable-class", "instance-of-renamable-class")]
    for e in ren:
        e.rekey, e.group = rename, ren
    return pool


# ------------------------------------------------------------------ canonical forms
def canon_sx(x):
    """model-side value (nested lists) with frozenset elements in a canonical order"""
    if isinstance(x, (list, tuple)):
        if x and x[0] == 10 and len(x) == 2 and isinstance(x[1], (list, tuple)):
            return (10, tuple(sorted((canon_sx(y) for y in x[1]), key=repr)))
        return tuple(canon_sx(y) for y in x)
    if isinstance(x, (bytes, bytearray)):
        return bytes(x)
    if isinstance(x, bool):
        return int(x)
    return x


def is_netref(x):
    return netref.BaseNetref in type(x).__mro__


def is_value(x):
    """the property's own definition of an immutable plain value"""
    t = type(x)
    if t in (int, float, complex, bool, str, bytes, type(None), type(NotImplemented), type(Ellipsis)):
        return True
    if t in (tuple, frozenset):
        return all(is_value(y) for y in x)
    if t is slice:
        return is_value(x.start) and is_value(x.stop) and is_value(x.step)
    return False


def kind_of(x):
    return type(x).__name__


def short(x, n=160):
    """repr for reports that never talks to a peer (a netref's repr is a remote call)"""
    if is_netref(x):
        return "<netref>"
    try:
        if type(x) in (tuple, list):
            return "(%s)" % ", ".join(short(y, 40) for y in x[:8]) + ("..." if len(x) > 8 else "")
        if is_value(x):
            return short(x, n)
        return "<%s object>" % type(x).__name__
    except Exception:
        return "<%s object>" % type(x).__name__


# ------------------------------------------------------------------ one pair of connections under observation
class Pair(object):
    def __init__(self, ctx, classic_services=False):
        self.ctx = ctx
        self.pool = {True: make_pool(), False: make_pool()}
        self.by_id = {s: {id(e.obj): e for e in self.pool[s]} for s in (True, False)}
        self.sink = {True: [], False: []}
        self.outbox = {True: {}, False: {}}
        sa, sb = (ClassicService(), ClassicService()) if classic_services else (VoidService(), VoidService())
        self.ca, self.cb, self.ma, self.mb = connect_pair(sa, sb, dict(CFG), dict(CFG), compress=True)
        self.conn = {True: self.ca, False: self.cb}
        self.wire = {True: bytearray(), False: bytearray()}      # bytes written BY that side
        self.frames = {True: [], False: []}
        self.ma.tap = lambda name, data: self.wire[True].extend(data)
        self.mb.tap = lambda name, data: self.wire[False].extend(data)
        for s in (True, False):
            c = self.conn[s]
            h = dict(c._HANDLERS)
            h[H_KEEP] = (lambda sink: (lambda conn, obj: sink.append(obj)))(self.sink[s])
            h[H_FETCH] = (lambda box: (lambda conn, token: box[token]))(self.outbox[s])
            c._HANDLERS = h
        self.held = {True: {}, False: {}}          # serial -> proxy (strong)
        self.serial_of = {True: {}, False: {}}     # id(proxy) -> serial, live proxies only
        self.nserial = {True: 0, False: 0}
        self.target = {True: {}, False: {}}        # serial -> Entry of the owner (or None)
        self.nmut = {True: 0, False: 0}
        self.lastmut = {True: None, False: None}
        # real id pack -> entry, per owner side
        self.idp_real = {s: {} for s in (True, False)}
        for s in (True, False):
            for e in self.pool[s]:
                try:
                    k = get_id_pack(e.obj)
                    if isinstance(k, tuple) and len(k) == 3:
                        self.idp_real[s][(str(k[0]), k[1], k[2])] = e
                except Exception:
                    pass

    # ---- transport
    def settle(self):
        for _ in range(50):
            moved = False
            for s in (True, False):
                c, m = self.conn[s], (self.ma if s else self.mb)
                while m.inbox and not c.closed:
                    c.serve(0)
                    moved = True
            if not moved:
                break

    def take_frames(self, side):
        out = []
        buf = self.wire[side]
        while True:
            r = refcodec.unframe(buf)
            if r is None:
                break
            payload, flag, rest, _ = r
            out.append(payload)
            buf = bytearray(rest)
        self.wire[side] = buf
        return out

    def close(self):
        # cut the transport first: finalizers of the proxies dropped below must not start conversations
        self.ma.on_idle = self.mb.on_idle = None
        self.ma.close(), self.mb.close()
        for c in (self.ca, self.cb):
            try:
                c.close()
            except Exception:
                pass
        self.held = {True: {}, False: {}}
        self.sink = {True: [], False: []}

    # ---- values
    def build(self, spec, side):
        """spec -> (real value in `side`'s address space, model value)"""
        if "p" in spec:
            sx = C.sx_loads(spec["p"])
            return C04.from_sx(sx), sx
        if "o" in spec:
            e = self.pool[side][spec["o"]]
            return e.obj, e.sx
        if "h" in spec:
            return self.held[side][spec["h"]], [12, 2 * spec["h"] + 1]
        items = [self.build(x, side) for x in spec["t"]]
        return tuple(r for r, _ in items), [9, [m for _, m in items]]

    def to_model(self, x, side, new):
        """a value received at `side` -> model value; netrefs not seen before get the next serials (in `new`)"""
        e = self.by_id[side].get(id(x))
        if e is not None and e.obj is x:
            return e.sx
        if is_netref(x):
            n = self.serial_of[side].get(id(x))
            if n is None or self.held[side].get(n) is not x:
                for m, p in new:
                    if p is x:
                        return [12, 2 * m + 1]
                n = self.nserial[side] + len(new)
                new.append((n, x))
            return [12, 2 * n + 1]
        if type(x) is tuple:
            return [9, [self.to_model(y, side, new) for y in x]]
        return C04.to_sx(x) if is_value(x) else [12, 999998]

    def adopt(self, side, new):
        for n, p in new:
            self.held[side][n] = p
            self.serial_of[side][id(p)] = n
            self.nserial[side] = max(self.nserial[side], n + 1)

    # ---- observable state, in the model's vocabulary
    def snapshot(self):
        out = []
        for s in (True, False):
            c = self.conn[s]
            lt = []
            for k, slot in list(c._local_objects._dict.items()):
                e = self.by_id[s].get(id(slot[0]))
                lt.append((canon_sx(e.sx) if e is not None and e.obj is slot[0] else ("?", kind_of(slot[0])), slot[1]))
            ch = []
            for k, wr in list(c._proxy_cache._dict.items()):
                p = wr()
                if p is None:
                    continue
                n = self.serial_of[s].get(id(p), -1)
                e = self.idp_real[not s].get(k)
                ch.append((n, object.__getattribute__(p, "____refcount__"), canon_sx(e.sx) if e is not None else ("?",)))
            out.append((sorted(lt, key=repr), sorted(ch, key=repr), self.nserial[s], self.nmut[s],
                        canon_sx(self.lastmut[s]) if self.lastmut[s] is not None else None))
        return out


def model_snapshot(wsx, idp_inv):
    out = []
    for side in wsx:
        lt = sorted(((canon_sx(e[1]), e[2]) for e in side[0]), key=repr)
        ch = sorted(((e[1], e[2], idp_inv.get(canon_sx(e[0]), ("?",))) for e in side[1]), key=repr)
        ml = side[3]
        out.append((lt, ch, side[2], len(ml), canon_sx(ml[-1][0]) if ml else None))
    return out


# ------------------------------------------------------------------ the property's own oracle
class _Flag(object):
    """ctx.violation, remembering that this step was flagged (its correspondence is then not compared: a known finding
    must not resurface as a broken tie)"""

    def __init__(self, ctx):
        self.ctx, self.hit = ctx, False

    def violation(self, *a, **k):
        self.hit = True
        self.ctx.violation(*a, **k)

    def note(self, *a, **k):
        """a violation whose cause the model follows (it is listed as a finding): the history goes on"""
        self.ctx.violation(*a, **k)


def check_arrival(ctx, pr, sender, sent, got, case, path="x"):
    """`sent` (in the sender's address space) arrived as `got` at the other party"""
    rcv = not sender
    if is_value(sent):
        if is_netref(got):
            ctx.violation("value-arrives-as-reference:" + kind_of(sent), case, observed="netref", expected=short(sent),
                          what="an immutable plain value reached the peer as a reference")
        elif type(got) is not type(sent) or C04.canon(got) != C04.canon(sent):
            ctx.violation("value-arrives-changed:" + kind_of(sent), case, observed="%s %s" % (type(got).__name__, short(got)),
                          expected="%s %s" % (type(sent).__name__, short(sent)),
                          what="an immutable plain value reached the peer with another type or content (at %s)" % path)
        return
    if type(sent) is tuple:
        if type(got) is not tuple or len(got) != len(sent):
            ctx.violation("tuple-not-elementwise:" + kind_of(got), case, observed=short(got), expected="tuple of %d" % len(sent),
                          what="an exact tuple holding references did not arrive as a tuple of the same length")
            return
        for i, (a, b) in enumerate(zip(sent, got)):
            check_arrival(ctx, pr, sender, a, b, case, "%s[%d]" % (path, i))
        return
    if is_netref(sent) and object.__getattribute__(sent, "____conn__") is pr.conn[sender]:
        n = pr.serial_of[sender].get(id(sent))
        e = pr.target[sender].get(n)
        if is_netref(got):
            ctx.violation("echo-not-original:proxy-instead-of-object", case, observed="netref", expected="the original object",
                          what="a reference handed back to its owner arrived as a proxy, not as the original object")
        elif e is not None and got is not e.obj:
            ctx.violation("echo-not-original:another-object", case, observed=short(got), expected="the original %s" % e.kind,
                          what="a reference handed back to its owner is not the original object")
        return
    # every other object: must be a reference to `sent`
    e = pr.by_id[sender].get(id(sent))
    kind = e.kind if e is not None else kind_of(sent)
    if not is_netref(got):
        ctx.violation("object-arrives-by-value:" + kind, case, observed="%s %s" % (type(got).__name__, short(got)),
                      expected="a reference", what="an object that is not an immutable plain value reached the peer as a copy (at %s)" % path)
        return
    k = object.__getattribute__(got, "____id_pack__")
    try:
        owner_obj = pr.conn[sender]._local_objects[k]
    except KeyError:
        owner_obj = None
    if owner_obj is not sent:
        ctx.violation("reference-to-wrong-object", case, observed=short(owner_obj), expected="the sent " + kind,
                      what="the proxy that arrived does not refer to the object that was sent")
    # distinct objects have distinct proxies
    for n, p in pr.held[rcv].items():
        t = pr.target[rcv].get(n)
        if p is got and t is not None and e is not None and t is not e:
            ctx.violation("one-proxy-for-two-objects", case, observed="the live proxy of another %s" % t.kind, expected="a proxy of its own",
                          what="an object (%s) arrived as the proxy that is alive for a different object" % kind)
    # one proxy per remote object while it is alive
    for n, p in pr.held[rcv].items():
        if pr.target[rcv].get(n) is e and e is not None and p is not got:
            if e.changed:
                getattr(ctx, "note", ctx.violation)(
                    "second-proxy-while-first-alive:object-changed-class", case, observed="a new proxy", expected="the live proxy",
                    what="an object (%s) whose class was reassigned or renamed while it was lent arrived as a second proxy "
                         "although the first is alive" % kind)
            else:
                ctx.violation("second-proxy-while-first-alive", case, observed="a new proxy", expected="the live proxy",
                              what="an object (%s) received again while a proxy for it is alive arrived as a different proxy" % kind)


def note_targets(pr, rcv, new):
    for n, p in new:
        k = object.__getattribute__(p, "____id_pack__")
        pr.target[rcv][n] = pr.idp_real[not rcv].get((str(k[0]), k[1], k[2])) if isinstance(k, tuple) and len(k) == 3 else None


# ------------------------------------------------------------------ packages on the wire -> model vocabulary
def pkg_to_model(pr, pkg, sender):
    """a decoded package (plain Python value) with real id packs replaced by the model's; None if it is not one"""
    if not (type(pkg) is tuple and len(pkg) == 2):
        return None
    lab, val = pkg
    if lab == consts.LABEL_VALUE:
        return [9, [[4, lab], C04.to_sx(val)]]
    if lab == consts.LABEL_TUPLE:
        items = [pkg_to_model(pr, x, sender) for x in val]
        return None if any(i is None for i in items) else [9, [[4, lab], [9, items]]]
    if lab in (consts.LABEL_LOCAL_REF, consts.LABEL_REMOTE_REF):
        owner = sender if lab == consts.LABEL_REMOTE_REF else (not sender)
        try:
            e = pr.idp_real[owner].get((str(val[0]), val[1], val[2]))
        except Exception:
            e = None
        return [9, [[4, lab], ["idp", canon_sx(e.sx) if e is not None else ("?",)]]]
    return None


def model_pkg_norm(x, idp_inv):
    """model package: id packs replaced by the object they name"""
    if isinstance(x, list) and len(x) == 2 and x[0] == 9 and len(x[1]) == 2 and x[1][0][0] == 4 and x[1][0][1] in (3, 4):
        return [9, [x[1][0], ["idp", idp_inv.get(idpack_key(x[1][1]), ("?",))]]]
    if isinstance(x, list) and len(x) == 2 and x[0] == 9 and len(x[1]) == 2 and x[1][0] == [4, 2]:
        return [9, [x[1][0], [9, [model_pkg_norm(y, idp_inv) for y in x[1][1][1]]]]]
    return x


def idpack_key(pv):
    """model pyval (PTuple [PStr n; PInt c; PInt o]) -> the key form of sx_idpack"""
    try:
        return canon_sx([pv[1][0][1], pv[1][1][1], pv[1][2][1]])
    except Exception:
        return None


# ------------------------------------------------------------------ running one history on the implementation
class Hist(object):
    def __init__(self, ctx, rng):
        self.ctx, self.r = ctx, rng
        self.pr = Pair(ctx)
        self.ops = []          # replayable
        self.mops = []         # model ops
        self.obs = []          # per step: dict(result=..., pkg=..., snap=...)
        self.desync = False
        self.flag = _Flag(ctx)

    def viol(self, *a, **k):
        self.flag.violation(*a, **k)

    def crashed(self, e):
        """the implementation left the harness in a state it cannot observe: fail closed, with the history as the input"""
        import traceback
        where = [f for f in traceback.extract_tb(e.__traceback__) if f.filename.endswith("C03.py")]
        self.ctx.violation("history-cannot-be-observed:%s" % type(e).__name__, self.case(), observed=("%s: %s" % (type(e).__name__, str(e)[:300])),
                           expected="every step observable", what="a step of the history raised outside the property's own operations (%s)"
                           % (", ".join("%s:%d" % (f.name, f.lineno) for f in where[-3:])))
        self.desync = True
        n = min(len(self.ops), len(self.obs))
        del self.ops[n:], self.obs[n:], self.mops[n:]

    def case(self):
        return {"kind": "hist", "ops": list(self.ops)}

    # ---- steps
    def send(self, side, mode, spec):
        pr, ctx = self.pr, self.ctx
        self.ops.append(["send", side, mode, spec])
        real, msx = pr.build(spec, side)
        self.mops.append([0, side, [9, [msx]] if mode == "arg" else msx])
        case = self.case()
        pr.take_frames(True), pr.take_frames(False)
        rcv = not side
        try:
            if mode == "arg":
                pr.conn[side].sync_request(H_KEEP, real)
                got = pr.sink[rcv].pop()
                del pr.sink[rcv][:]
            else:
                pr.outbox[side][0] = real
                got = pr.conn[rcv].sync_request(H_FETCH, 0)
                pr.outbox[side].clear()
            outcome = ("ok", got)
        except Exception as e:
            outcome = ("exc", e)
            del pr.sink[rcv][:]
            pr.outbox[side].clear()
        pr.settle()
        frames = pr.take_frames(side)
        pr.take_frames(rcv)
        # --- oracle
        if outcome[0] == "exc":
            e = outcome[1]
            self.send_failed(side, real, spec, e, case)
            self.obs.append({"result": ("exc", C.exc_enum(e)), "pkg": None, "snap": None, "kind": "send", "skip": True})
            self.desync = True
            return None
        new = []
        mgot = pr.to_model(got, rcv, new)
        self.flag.hit = False
        check_arrival(self.flag, pr, side, real, got, case)
        if self.flag.hit and "o" in spec and is_netref(got):
            self.probe_wrong_reference(side, real, got, pr.pool[side][spec["o"]], case)
        pr.adopt(rcv, new)
        note_targets(pr, rcv, new)
        seen = {}
        for n, p in pr.held[rcv].items():
            t = pr.target[rcv].get(n)
            if t is not None and not t.changed and seen.setdefault(t.idx, n) != n:
                self.viol("second-proxy-while-first-alive", case, observed="proxies %d and %d" % (seen[t.idx], n), expected="one proxy",
                          what="two live proxies exist for the same remote object (%s)" % t.kind)
        # --- what went on the wire
        wire_pkg = None
        for f in frames:
            try:
                m, _ = refcodec.dec(f)
            except Exception:
                continue
            if mode == "arg" and m[0] == consts.MSG_REQUEST and m[2][0] == H_KEEP:
                wire_pkg = pkg_to_model(pr, m[2][1], side)
                break
            if mode == "ret" and m[0] == consts.MSG_REPLY:
                wire_pkg = pkg_to_model(pr, m[2], side)
                break
        self.obs.append({"result": ("ok", [9, [mgot]] if mode == "arg" else mgot), "pkg": wire_pkg, "snap": pr.snapshot(), "kind": "send",
                         "skip": self.flag.hit})
        if self.flag.hit:
            self.desync = True
        return got

    def send2(self, side, spec):
        """TWO requests carrying the same value are in flight before the receiver dispatches the first: when the value holds
        an object whose class the receiver does not know, the second arrival is dispatched while the first waits for
        HANDLE_INSPECT.  Expected: what two sends one after the other give (the same proxy both times)."""
        pr, ctx = self.pr, self.ctx
        rcv = not side
        self.ops.append(["send2", side, spec])
        self.ops.append(["send2b"])
        real, msx = pr.build(spec, side)
        self.mops.append([0, side, [9, [msx]]])
        self.mops.append([0, side, [9, [msx]]])
        case = {"kind": "hist", "ops": list(self.ops)}
        c = pr.conn[side]
        try:
            r1 = c.async_request(H_KEEP, real)
            r2 = c.async_request(H_KEEP, real)
            r1.wait()
            r2.wait()
            got = list(pr.sink[rcv])
            del pr.sink[rcv][:]
            if len(got) != 2:
                raise RuntimeError("%d arrivals for two requests" % len(got))
        except Exception as e:
            del pr.sink[rcv][:]
            pr.settle()
            self.send_failed(side, real, spec, e, case)
            for _ in range(2):
                self.obs.append({"result": ("exc", C.exc_enum(e)), "pkg": None, "snap": None, "kind": "send", "skip": True})
            self.desync = True
            return
        pr.settle()
        pr.take_frames(True), pr.take_frames(False)
        self.flag.hit = False

        def same(a, b, path="x"):
            if type(a) is tuple and type(b) is tuple and len(a) == len(b):
                for i, (x, y) in enumerate(zip(a, b)):
                    same(x, y, "%s[%d]" % (path, i))
            elif (is_netref(a) or is_netref(b)) and a is not b:
                self.viol("second-proxy-while-first-alive:arrival-during-class-inspect", case, observed="two proxies (at %s)" % path,
                          expected="one proxy", what="two requests in flight carried the same object: its second arrival was dispatched "
                          "while the first was waiting for the object's class, and the two arrivals are different live proxies")
        same(got[0], got[1])
        for i, g in enumerate(got):
            new = []
            mg = pr.to_model(g, rcv, new)
            if not self.flag.hit:
                check_arrival(self.flag, pr, side, real, g, case)
            pr.adopt(rcv, new)
            note_targets(pr, rcv, new)
            self.obs.append({"result": ("ok", [9, [mg]]), "pkg": None, "snap": pr.snapshot() if i == 1 else None, "kind": "send",
                             "skip": self.flag.hit})
        if self.flag.hit:
            self.desync = True

    def probe_wrong_reference(self, side, real, got, ent, case):
        """the arrival was flagged: state the consequences in the property's own terms (hand the reference back; operate
        through it).  The history ends here."""
        pr, rcv = self.pr, (not side)
        try:
            pr.conn[rcv].sync_request(H_KEEP, got)
            back = pr.sink[side].pop()
            del pr.sink[side][:]
            if back is not real:
                self.viol("echo-not-original:another-object", case, observed=short(back), expected="the original %s" % ent.kind,
                          what="a reference handed back to its owner is not the original object")
            if ent.mut is not None:
                ent.mut(pr.conn[rcv], got, 424242)
                pr.settle()
                if not ent.hit(ent.obj, 424242):
                    self.viol("mutation-not-on-owner-object", case, observed=repr(self.safe_obs(ent))[:120], expected="effect of 424242",
                              what="a change made through the reference is not visible on the owner's object (%s)" % ent.kind)
        except Exception as ex:
            if e.changed and isinstance(ex, KeyError):
                self.viol("operation-fails:object-changed-class:KeyError", case, observed="KeyError at the owner", expected="the owner's object changes",
                          what="operating through a live proxy of an object whose class was reassigned or renamed while lent raises KeyError")
                self.obs.append({"result": ("exc", C.exc_enum(ex)), "pkg": None, "snap": None, "kind": "mut", "skip": True})
                self.desync = True
                return
            self.viol("operation-through-proxy-fails:%s" % type(ex).__name__, case, observed=str(ex)[:200],
                      expected="the reference works", what="using a reference that arrived for a %s raises" % ent.kind)

    def send_failed(self, side, real, spec, e, case):
        ctx, pr = self.ctx, self.pr
        if C04.too_big_int(real) and isinstance(e, ValueError):
            ctx.count("excluded-int-too-big")
            return
        if isinstance(e, RecursionError):
            ctx.count("excluded-recursion")
            return

        def held_in(sp):
            return [sp["h"]] if "h" in sp else [n for x in sp.get("t", []) for n in held_in(x)]
        stale = [n for n in held_in(spec) if pr.target[side].get(n) is not None and pr.target[side][n].changed]
        if stale and isinstance(e, KeyError):
            self.viol("echo-fails:object-changed-class:KeyError", case, observed="KeyError at the owner", expected="the original object",
                      what="handing back a live proxy of an object whose class was reassigned or renamed while lent raises KeyError: "
                           "dropping its first proxy released the entry of the second")
            return
        # find the by-reference object the failure is about (single-object sends name it precisely)
        ent = None
        if "o" in spec:
            ent = pr.pool[side][spec["o"]]
        elif "t" in spec:
            objs = [x for x in spec["t"] if "o" in x]
            if len(objs) == 1:
                ent = pr.pool[side][objs[0]["o"]]
        if ent is not None and not is_value(ent.obj):
            suffix = type(e).__name__
            try:
                k = get_id_pack(ent.obj)
                if not (isinstance(k, tuple) and len(k) == 3):
                    suffix = "bad-id-pack"
            except Exception:
                pass
            self.viol("by-ref-send-fails:%s:%s" % (ent.kind, suffix), case, observed="%s: %s" % (type(e).__name__, str(e)[:200]),
                          expected="the object arrives as a reference",
                          what="sending a %s raises instead of delivering a reference" % ent.kind)
        elif is_value(real):
            self.viol("value-send-fails:%s:%s" % (kind_of(real), type(e).__name__), case, observed="%s: %s" % (type(e).__name__, str(e)[:200]),
                          expected="the value arrives", what="sending an immutable plain value raises")
        else:
            self.viol("send-fails:%s" % type(e).__name__, case, observed="%s: %s" % (type(e).__name__, str(e)[:200]),
                          expected="the value arrives", what="sending a value mixing plain values and references raises")

    def drop(self, side, n):
        pr = self.pr
        self.ops.append(["drop", side, n])
        self.mops.append([1, side, n])
        p = pr.held[side].pop(n, None)
        if p is not None:
            pr.serial_of[side].pop(id(p), None)
            wr = weakref.ref(p)
            del p
            if wr() is not None:
                gc.collect()
            if wr() is not None:
                self.ctx.tie_broken("harness:proxy-not-collectable", "serial %d" % n)
        pr.settle()
        self.obs.append({"result": ("ok", [0]), "pkg": None, "snap": pr.snapshot(), "kind": "drop"})

    def mutate(self, side, n, d):
        pr, ctx = self.pr, self.ctx
        self.ops.append(["mut", side, n, d])
        self.mops.append([2, side, n, d])
        case = self.case()
        p = pr.held[side][n]
        e = pr.target[side].get(n)
        owner = not side
        before = {x.idx: self.safe_obs(x) for x in pr.pool[owner] if x.obs is not None}
        try:
            e.mut(pr.conn[side], p, d)
        except Exception as ex:
            self.viol("operation-through-proxy-fails:%s" % type(ex).__name__, case, observed=str(ex)[:200],
                      expected="the owner's object changes", what="an operation applied through a proxy (%s) raises" % e.kind)
            self.obs.append({"result": ("exc", C.exc_enum(ex)), "pkg": None, "snap": None, "kind": "mut", "skip": True})
            self.desync = True
            return
        pr.settle()
        after = {x.idx: self.safe_obs(x) for x in pr.pool[owner] if x.obs is not None}
        try:
            ok = bool(e.hit(e.obj, d))
        except Exception:
            ok = False
        if not ok:
            self.viol("mutation-not-on-owner-object", case, observed=repr(after.get(e.idx))[:120], expected="effect of %d" % d,
                      what="a change made through the reference is not visible on the owner's object (%s)" % e.kind)
        changed = [i for i in after if after[i] != before[i] and i != e.idx]
        if changed:
            self.viol("mutation-hits-another-object", case, observed=[pr.pool[owner][i].kind for i in changed], expected=[],
                      what="a change made through the reference changed a different object of the owner")
        pr.nmut[owner] += 1
        pr.lastmut[owner] = e.sx
        self.obs.append({"result": ("ok", [0]), "pkg": None, "snap": pr.snapshot(), "kind": "mut"})

    def rekey(self, side, idx):
        """reassign / rename the class of a pool object of `side`: get_id_pack answers differently from now on"""
        pr = self.pr
        self.ops.append(["rekey", side, idx])
        e = pr.pool[side][idx]
        e.rekey()
        self.mops.append([4, side, [g.name for g in e.group]])
        lent = {id(slot[0]) for slot in pr.conn[side]._local_objects._dict.values()}
        for g in e.group:
            g.flipped = not g.flipped
            k = get_id_pack(g.obj)
            pr.idp_real[side][(str(k[0]), k[1], k[2])] = g
            if id(g.obj) in lent:
                g.changed = True
        self.obs.append({"result": ("ok", [0]), "pkg": None, "snap": pr.snapshot(), "kind": "rekey"})

    @staticmethod
    def safe_obs(x):
        try:
            return x.obs(x.obj)
        except Exception:
            return ("exc",)

    def raw(self, side, spec):
        """a forged package reaches side's _unbox"""
        pr = self.pr
        self.ops.append(["raw", side, spec])
        real, msx, fok = self.build_pkg(spec, side)
        self.mops.append([3, side, fok, msx])
        try:
            got = pr.conn[side]._unbox(real)
            new = []
            mgot = pr.to_model(got, side, new)
            pr.adopt(side, new)
            note_targets(pr, side, new)
            pr.settle()
            self.obs.append({"result": ("ok", mgot), "pkg": None, "snap": pr.snapshot(), "kind": "raw"})
        except Exception as e:
            pr.settle()
            self.obs.append({"result": ("exc", C.exc_enum(e)), "pkg": None, "snap": None, "kind": "raw"})
        gc.collect()
        pr.settle()

    def build_pkg(self, spec, side):
        """-> (real package, model package, fok)"""
        pr = self.pr
        if "raw" in spec:
            sx = C.sx_loads(spec["raw"])
            return C04.from_sx(sx), sx, True
        if "L" in spec:      # id pack of one of side's own objects
            e = pr.pool[side][spec["L"]]
            k = get_id_pack(e.obj)
            return k, (self.idp_model_ren if e.flipped else self.idp_model)[canon_sx(e.sx)], True
        if "R" in spec:      # id pack of one of the peer's objects
            e = pr.pool[not side][spec["R"]]
            k = get_id_pack(e.obj)
            # _netref_factory needs no answer from the owner for builtin names and for classes it has already proxied
            fok = (k[0] in netref.builtin_classes_cache) or (k in pr.conn[not side]._local_objects._dict) \
                or (k[2] == 0 and k in pr.conn[side]._netref_classes_cache)
            return k, (self.idp_model_ren if e.flipped else self.idp_model)[canon_sx(e.sx)], fok
        if "K" in spec:      # a key nobody has
            n, a, b = spec["K"]
            return (n, a, b), [9, [[8, [ord(c) for c in n]], [4, a], [4, b]]], n in netref.builtin_classes_cache
        if "T" in spec:
            parts = [self.build_pkg(x, side) for x in spec["T"]]
            return tuple(p[0] for p in parts), [9, [p[1] for p in parts]], all(p[2] for p in parts)
        raise ValueError(spec)


# ------------------------------------------------------------------ generators
def gen_plain(r, depth):
    for _ in range(20):
        v = C04.gen_value(r, depth, allow_other=False, big=(r.random() < 0.03))
        if not C04.too_big_int(v):
            return {"p": C.sx_dumps(C04.to_sx(v))}
    return {"p": C.sx_dumps([0])}


def gen_spec(r, h, side, depth, stats):
    pr = h.pr
    k = r.random()
    held = list(pr.held[side])
    if depth > 0 and k < 0.35:
        n = r.choice([0, 1, 1, 2, 2, 3, 4, 5])
        return {"t": [gen_spec(r, h, side, depth - 1, stats) for _ in range(n)]}
    if k < 0.55:
        stats["plain"] = stats.get("plain", 0) + 1
        return gen_plain(r, r.choice([0, 1, 2]))
    if k < 0.78 or not held:
        pool = [e for e in pr.pool[side] if not e.probe]
        e = r.choice(pool)
        if r.random() < 0.2:      # same-named classes and their instances, lent at overlapping times
            e = r.choice([x for x in pool if x.kind.startswith("twin")])
        elif r.random() < 0.1:    # objects whose class gets reassigned / renamed
            e = r.choice([x for x in pool if x.rekey is not None])
        elif r.random() < 0.5:    # favour objects already lent (re-receive while alive)
            lent = [x for x in pool if id(x.obj) in {id(s[0]) for s in pr.conn[side]._local_objects._dict.values()}]
            if lent:
                e = r.choice(lent)
        stats["object"] = stats.get("object", 0) + 1
        stats["object:" + e.kind] = stats.get("object:" + e.kind, 0) + 1
        return {"o": e.idx}
    stats["held-proxy"] = stats.get("held-proxy", 0) + 1
    return {"h": r.choice(held)}


def gen_raw(r, h, side):
    pr = h.pr
    lab = lambda z: {"raw": C.sx_dumps([4, z])}
    c = r.random()
    pool_own = [e for e in pr.pool[side] if not e.probe]
    pool_peer = [e for e in pr.pool[not side] if not e.probe]
    if c < 0.15:
        return {"T": [lab(r.choice([0, 5, -1, 7, 2**40])), {"raw": C.sx_dumps(C04.to_sx(r.choice([None, 5, (1, 2), "x"])))}]}
    if c < 0.25:
        return {"raw": C.sx_dumps(C04.to_sx(r.choice([(), (1,), (1, 2, 3), (4, (1, 2), 3)])))}
    if c < 0.35:
        return {"T": [{"raw": C.sx_dumps(C04.to_sx(r.choice([True, "1", None, b"\x01", (1,)])))}, {"raw": C.sx_dumps(C04.to_sx(r.choice([7, "v", (1, 2)])))}]}
    if c < 0.5:
        return {"T": [lab(3), {"L": r.choice(pool_own).idx}]}          # forged local reference (known or unknown key)
    if c < 0.6:
        return {"T": [lab(3), {"K": [r.choice(["builtins.list", "x.Y"]), r.randrange(1, 10**6), r.randrange(0, 10**6)]}]}
    if c < 0.8:
        return {"T": [lab(4), {"R": r.choice(pool_peer).idx}]}
    if c < 0.88:
        return {"T": [lab(4), {"K": [r.choice(["builtins.list", "builtins.dict", "x.Y"]), r.randrange(1, 10**6), r.randrange(0, 10**6)]}]}
    if c < 0.94:
        return {"T": [lab(4), {"raw": C.sx_dumps(C04.to_sx(r.choice([(), ("a",), ("a", 1)])))}]}
    return {"T": [lab(2), {"T": [gen_raw(r, h, side) for _ in range(r.choice([0, 1, 2]))]}]}


def gen_history(ctx, r, nsteps, stats):
    h = Hist(ctx, r)
    pr = h.pr
    nraw = r.choice([0, 0, 0, 1, 2])
    try:
        for step in range(nsteps):
            if h.desync:
                break
            side = r.random() < 0.5
            k = r.random()
            held = list(pr.held[side])
            if r.random() < 0.06:      # two requests in flight carrying the same value
                h.send2(side, gen_spec(r, h, side, r.choice([0, 0, 1, 2]), stats))
            elif r.random() < 0.03:    # the class of a (possibly lent) object is reassigned / renamed
                h.rekey(side, r.choice([e.idx for e in pr.pool[side] if e.rekey is not None]))
            elif k < 0.62 or not held:
                h.send(side, r.choice(["arg", "arg", "ret"]), gen_spec(r, h, side, r.choice([0, 1, 2, 3]), stats))
            elif k < 0.80:
                h.drop(side, r.choice(held))
            else:
                mutable = [n for n in held if pr.target[side].get(n) is not None and pr.target[side][n].mut is not None]
                if mutable:
                    h.mutate(side, r.choice(mutable), r.randrange(3, 10**6))
                else:
                    h.send(side, "arg", {"h": r.choice(held)})
        for _ in range(nraw):
            if h.desync:
                break
            side = r.random() < 0.5
            h.raw(side, gen_raw(r, h, side))
    except Exception as e:
        h.crashed(e)
    return h


def replay_ops(ctx, ops):
    h = Hist(ctx, ctx.rng)
    try:
        for op in ops:
            if h.desync:
                break
            if op[0] == "send":
                h.send(op[1], op[2], op[3])
            elif op[0] == "drop":
                h.drop(op[1], op[2])
            elif op[0] == "mut":
                if op[2] in h.pr.held[op[1]] and h.pr.target[op[1]].get(op[2]) is not None and h.pr.target[op[1]][op[2]].mut:
                    h.mutate(op[1], op[2], op[3])
            elif op[0] == "raw":
                h.raw(op[1], op[2])
            elif op[0] == "rekey":
                h.rekey(op[1], op[2])
            elif op[0] == "send2":
                h.send2(op[1], op[2])
    except Exception as e:
        h.crashed(e)
    return h


# ------------------------------------------------------------------ correspondence
def facts():
    """(sp, ladders) re-translated from C.REPO (coq/gen is shared with other runs)"""
    sp, lad = True, STD_LADDERS
    try:
        from tools.pygen import brine as tb, box as tx
        for it in tb.translate(C.REPO):
            if it.name == "str_encode_surrogatepass":
                sp = it.coq_term == "true"
        lad = tx.ladders_sx(C.REPO)
    except Exception:
        pass
    return sp, lad


def compare(ctx, hists, model, idp_model, idp_inv, sp, lad):
    if model is None:
        return
    cases = [["hist", [sp, MAXD], lad[0], lad[1], h.mops] for h in hists]
    outs = model.batch(cases)
    for h, out in zip(hists, outs):
        if not isinstance(out, list) or (out and out[0] == b"badinput"):
            ctx.tie_broken("correspondence:model-rejected-case", repr(out)[:200])
            continue
        for i, (o, m) in enumerate(zip(h.obs, out)):
            ctx.model_traces += 1
            if o.get("skip"):
                break
            mres, mpkg, mworld = m
            mk = mres[0].decode()
            where = "step %d %r of %r" % (i, h.ops[i], h.ops[:i])
            if mk == "unmodelled":
                ctx.count("model:unmodelled")
                break          # the model's state no longer follows
            if mk == "ok":
                if o["result"][0] != "ok" or canon_sx(o["result"][1]) != canon_sx(mres[1]) and o["kind"] in ("send", "raw"):
                    ctx.tie_broken("correspondence:outcome", "%s: impl %r model %r" % (where[:1500], o["result"], mres))
                    break
            else:
                want = mres[1].decode() if mk == "exc" else mk
                if o["result"][0] != "exc" or o["result"][1] != want:
                    ctx.tie_broken("correspondence:outcome", "%s: impl %r model %s" % (where[:1500], o["result"], want))
                break              # after an exception the implementation's garbage (half-made proxies) is not modelled
            if o["kind"] == "send" and o["pkg"] is not None:
                mp = mpkg[1][0] if mpkg and mpkg[0] == b"ok" else None
                if mp is None or canon_sx(model_pkg_norm(mp, idp_inv)) != canon_sx(o["pkg"]):
                    ctx.tie_broken("correspondence:package", "%s: wire %r model %r" % (where[:1500], o["pkg"], mp))
                    break
            if o["snap"] is not None:
                ms = model_snapshot(mworld, idp_inv)
                if ms != o["snap"]:
                    ctx.tie_broken("correspondence:state", "%s: impl %r model %r" % (where[:1500], o["snap"], ms))
                    break


def idp_tables(ctx, model):
    """model id pack of every pool object (one query), its inverse, and a distinctness check"""
    pool = make_pool()
    if model is None:
        return {}, {}
    outs = model.batch([["idp", e.sx] for e in pool], shards=1)
    idp_model, idp_inv = {}, {}
    Hist.idp_model_ren = {}
    for e, o in zip(pool, model.batch([["idpr", e.sx] for e in pool], shards=1)):      # the pack after a class change
        idp_inv[canon_sx([o[0], o[1], o[2]])] = canon_sx(e.sx)
        Hist.idp_model_ren[canon_sx(e.sx)] = [9, [[8, o[0]], [4, o[1]], [4, o[2]]]]
    for e, o in zip(pool, outs):
        pv = [9, [[8, o[0]], [4, o[1]], [4, o[2]]]]
        idp_model[canon_sx(e.sx)] = pv
        key = canon_sx([o[0], o[1], o[2]])
        if key in idp_inv and idp_inv[key] != canon_sx(e.sx):
            ctx.tie_broken("harness:idp-collision", "%r and %r" % (idp_inv[key], e.sx))
        idp_inv[key] = canon_sx(e.sx)
    return idp_model, idp_inv


# ------------------------------------------------------------------ explicit copy transfer (oracle only)
COPY_OBJECTS = [
    ("list", lambda: [1, [2, 3], "x"], lambda o: o.append(9)),
    ("dict", lambda: {"a": (1, 2), "b": [3]}, lambda o: o.__setitem__("z", 1)),
    ("set", lambda: {1, 2, 3}, lambda o: o.add(99)),
    ("bytearray", lambda: bytearray(b"abc"), lambda o: o.append(1)),
    ("int-subclass", lambda: PInt(7), None),
    ("instance", lambda: PThing([1, 2]), lambda o: o.a.append(5)),
    ("namedtuple", lambda: PNT(1, [2]), lambda o: o.b.append(5)),
    ("int-enum-member", lambda: PColor.RED, None),
    ("nested", lambda: [{"k": [PThing(1), (1, 2.5, None)]}, frozenset([1, 2])], lambda o: o[0]["k"].append(0)),
]


def gen_picklable(r, depth, top=True):
    """a random picklable structure; at the top a mutable container or instance (so that it travels by reference)"""
    k = r.random()
    if not top and (depth <= 0 or k < 0.45):
        return r.choice([None, True, 0, -1, 255, 2**70, 1.5, -0.0, "", "txt", "\u20ac", b"", b"\x00\xff", (), (1, "a"), frozenset([1, 2]),
                         PColor.RED, PInt(3), r.randint(-10**6, 10**6), r.random()])
    n = r.choice([0, 1, 2, 3])
    sub = lambda: gen_picklable(r, depth - 1, False)
    c = r.random()
    if c < 0.35:
        return [sub() for _ in range(n)]
    if c < 0.6:
        return {r.choice(["a", "b", 1, (1, 2), None]): sub() for _ in range(n)}
    if c < 0.7:
        return {r.choice([1, 2, "x", (3, 4), None, 2.5]) for _ in range(n)}
    if c < 0.8:
        return bytearray(r.randbytes(n))
    if c < 0.9:
        return PThing(sub())
    return [PNT(sub(), [sub()])] if top else PNT(sub(), sub())


def _first_mutable(o):
    """a mutation of the structure (its top container)"""
    if isinstance(o, list):
        return lambda x: x.append("c03")
    if isinstance(o, dict):
        return lambda x: x.__setitem__("c03", 1)
    if isinstance(o, set):
        return lambda x: x.add("c03")
    if isinstance(o, bytearray):
        return lambda x: x.append(7)
    if isinstance(o, PThing):
        return lambda x: setattr(x, "a", ("c03", x.a))
    return None


def gen_mixed_tuple(r, depth):
    """an exact tuple (nested up to `depth`) mixing plain values with by-reference items; at least one by-reference item"""
    def item(d):
        k = r.random()
        if d > 0 and k < 0.3:
            return tuple(item(d - 1) for _ in range(r.choice([0, 1, 2, 3])))
        if k < 0.6:
            return r.choice([None, True, 7, -300, 2**70, 2.5, "s", "\u20ac", b"\x00", (), (1, "a"), frozenset([1, 2])])
        return gen_picklable(r, 1, True)
    body = [item(depth) for _ in range(r.choice([1, 2, 3, 4]))]
    deep = gen_picklable(r, 1, True)
    for _ in range(r.randint(0, depth)):
        deep = (r.choice([0, "k"]), deep)
    body.insert(r.randrange(len(body) + 1), deep)
    return tuple(body)


def snap(o):
    """structural snapshot (no addresses)"""
    if isinstance(o, PThing):
        return ("PThing", snap(o.a))
    if isinstance(o, (list, tuple)):
        return (type(o).__name__,) + tuple(snap(x) for x in o)
    if isinstance(o, dict):
        return ("dict",) + tuple(sorted(((repr(k), snap(v)) for k, v in o.items())))
    if isinstance(o, (set, frozenset)):
        return (type(o).__name__,) + tuple(sorted(repr(x) for x in o))
    if isinstance(o, bytearray):
        return ("bytearray", bytes(o))
    return (type(o).__name__, repr(o))


def leaves(o, path="x"):
    """(path, item) for every item reachable through exact tuples"""
    if type(o) is tuple:
        for i, x in enumerate(o):
            for y in leaves(x, "%s[%d]" % (path, i)):
                yield y
    else:
        yield path, o


def check_copy_tuple(ctx, which, seed):
    """obtain()/deliver() of an exact tuple that travels by value but holds by-reference items"""
    import random
    case = {"kind": "copy-tuple", "which": which, "seed": seed}
    orig = gen_mixed_tuple(random.Random(seed), 2)
    ctx.case(("copy-tuple", which, seed), nontrivial=True, sample={"copy": which, "object": "tuple mixing values and references", "shape": repr(snap(orig))[:120]})
    ctx.count("copy-tuple:" + which)
    pr = Pair(ctx, classic_services=True)
    try:
        for s in (True, False):
            pr.conn[s]._local_root.on_connect(pr.conn[s])
        before = snap(orig)
        if which == "obtain":
            pr.conn[True].sync_request(H_KEEP, orig)
            got = pr.sink[False].pop()
            cp = classic.obtain(got)
            bad = [p for p, x in leaves(cp) if is_netref(x)]
            if bad:
                ctx.violation("obtain-not-independent:tuple-item-still-a-reference", case, observed="proxy at " + ", ".join(bad[:4]), expected="copies",
                              what="obtain() of a tuple holding references returned a tuple that still holds live references")
                return
            if type(cp) is not tuple or snap(cp) != before:
                ctx.violation("obtain-not-equal", case, observed=repr(snap(cp))[:160], expected=repr(before)[:160],
                              what="obtain() of a tuple holding references did not produce an equal tuple")
                return
            for p, x in leaves(cp):
                m = _first_mutable(x)
                if m is not None:
                    m(x)
            if snap(orig) != before:
                ctx.violation("obtain-not-independent", case, observed=repr(snap(orig))[:160], expected=repr(before)[:160],
                              what="changing items of the obtained tuple changed the owner's objects")
        else:
            res = classic.deliver(pr.conn[True], orig)
            if type(res) is not tuple or len(res) != len(orig):
                ctx.violation("deliver-not-equal", case, observed=short(res), expected="a tuple of %d" % len(orig),
                              what="deliver() of a tuple holding references did not return the delivered tuple")
                return
            for (p, x), (_, o) in zip(leaves(res), leaves(orig)):
                if is_value(o):
                    if is_netref(x) or snap(x) != snap(o):
                        ctx.violation("deliver-not-equal", case, observed=short(x), expected=short(o), what="a plain item of the delivered tuple changed (at %s)" % p)
                        return
                    continue
                if not is_netref(x):
                    ctx.violation("deliver-not-a-reference", case, observed=short(x), expected="a proxy of the remote copy",
                                  what="an item of the delivered tuple is not a reference to the copy at the other party (at %s)" % p)
                    return
                remote = pr.conn[False]._local_objects[object.__getattribute__(x, "____id_pack__")]
                if remote is o or snap(remote) != snap(o):
                    ctx.violation("deliver-not-independent" if remote is o else "deliver-not-equal", case, observed=repr(snap(remote))[:120],
                                  expected=repr(snap(o))[:120], what="an item of the delivered tuple is not an equal, separate copy (at %s)" % p)
                    return
                m = _first_mutable(remote)
                if m is not None:
                    m(remote)
            if snap(orig) != before:
                ctx.violation("deliver-not-independent", case, observed=repr(snap(orig))[:160], expected=repr(before)[:160],
                              what="changing the delivered copies changed the local objects")
    except Exception as e:
        ctx.violation("%s-fails:tuple:%s" % (which, type(e).__name__), case, observed=str(e)[:200], expected="an equal independent tuple",
                      what="%s() raises for a tuple of picklable items" % which)
    finally:
        pr.close()


def check_copy(ctx, which, idx, seed=None):
    if seed is None:
        kind, mk, mut = COPY_OBJECTS[idx]
        case = {"kind": "copy", "which": which, "idx": idx}
    else:
        import random
        proto = gen_picklable(random.Random(seed), 3)
        kind, mk, mut = "generated-" + type(proto).__name__, (lambda: gen_picklable(random.Random(seed), 3)), _first_mutable(proto)
        case = {"kind": "copy", "which": which, "idx": None, "seed": seed}
    pr = Pair(ctx, classic_services=True)
    try:
        for s in (True, False):
            pr.conn[s]._local_root.on_connect(pr.conn[s])
        obj = mk()
        ctx.case(("copy", which, kind, seed), nontrivial=True, sample={"copy": which, "object": kind})
        ctx.count("copy:" + which)
        if which == "obtain":
            pr.conn[True].sync_request(H_KEEP, obj)
            proxy = pr.sink[False].pop()
            if not is_netref(proxy):      # enum members / int subclasses must be references too
                ctx.violation("object-arrives-by-value:" + kind, case, observed=short(proxy), expected="a reference",
                              what="an object that is not an immutable plain value reached the peer as a copy")
                return
            cp = classic.obtain(proxy)
            if is_netref(cp) or type(cp) is not type(obj) or not (cp == obj):
                ctx.violation("obtain-not-equal", case, observed="%s %s" % (type(cp).__name__, short(cp)), expected=short(obj),
                              what="obtain() did not produce an equal object of the same type")
                return
            if mut is not None:
                if cp is obj:
                    ctx.violation("obtain-not-independent", case, observed="same object", expected="a copy", what="obtain() returned the owner's object itself")
                    return
                before = repr(obj)
                mut(cp)
                if repr(obj) != before:
                    ctx.violation("obtain-not-independent", case, observed=repr(obj)[:100], expected=before[:100],
                                  what="changing the obtained copy changed the owner's object")
                before = repr(cp)
                mut(obj)
                if repr(cp) != before:
                    ctx.violation("obtain-not-independent", case, observed=repr(cp)[:100], expected=before[:100],
                                  what="changing the owner's object changed the obtained copy")
        else:
            p = classic.deliver(pr.conn[True], obj)
            if not is_netref(p):
                ctx.violation("deliver-not-a-reference", case, observed=short(p), expected="a proxy of the remote copy",
                              what="deliver() did not return a reference to the copy made at the other party")
                return
            remote = pr.conn[False]._local_objects[object.__getattribute__(p, "____id_pack__")]
            if type(remote) is not type(obj) or not (remote == obj):
                ctx.violation("deliver-not-equal", case, observed="%s %s" % (type(remote).__name__, short(remote)), expected=short(obj),
                              what="deliver() did not create an equal object of the same type at the other party")
                return
            if mut is not None:
                if remote is obj:
                    ctx.violation("deliver-not-independent", case, observed="same object", expected="a copy", what="deliver() did not copy")
                    return
                before = repr(obj)
                mut(remote)
                if repr(obj) != before:
                    ctx.violation("deliver-not-independent", case, observed=repr(obj)[:100], expected=before[:100],
                                  what="changing the delivered copy changed the local object")
    except Exception as e:
        ctx.violation("%s-fails:%s:%s" % (which, kind, type(e).__name__), case, observed=str(e)[:200], expected="an equal independent object",
                      what="%s() raises for a picklable object" % which)
    finally:
        pr.close()


# ------------------------------------------------------------------ three address spaces (oracle only; outside the model)
CHAIN_KINDS = [
    ("list", lambda: [1, 2], lambda c, p, d: c.sync_request(consts.HANDLE_CALLATTR, p, "append", (d,)), lambda o, d: o[-1] == d),
    ("dict", lambda: {"a": 1}, lambda c, p, d: c.sync_request(consts.HANDLE_CALLATTR, p, "__setitem__", ("k", d)), lambda o, d: o.get("k") == d),
    ("instance", lambda: PThing(1), lambda c, p, d: c.sync_request(consts.HANDLE_SETATTR, p, "a", d), lambda o, d: o.a == d),
    ("int-subclass", lambda: PInt(5), lambda c, p, d: c.sync_request(consts.HANDLE_SETATTR, p, "c03_tag", d), lambda o, d: vars(o).get("c03_tag") == d),
    ("class", lambda: type("Chained", (), {}), lambda c, p, d: c.sync_request(consts.HANDLE_SETATTR, p, "c03_tag", d), lambda o, d: vars(o).get("c03_tag") == d),
    ("function", lambda: (lambda: 0), lambda c, p, d: c.sync_request(consts.HANDLE_SETATTR, p, "c03_tag", d), lambda o, d: vars(o).get("c03_tag") == d),
]


def check_chain(ctx, idx):
    """A lends an object to B, B lends its proxy to C over a second connection: C's reference reaches A's object, and on
    the way back each party gets what it lent (C -> B: B's proxy itself; B -> A: the original)"""
    kind, mk, mut, hit = CHAIN_KINDS[idx]
    case = {"kind": "chain", "idx": idx}
    ctx.case(("chain", kind), nontrivial=True, sample={"chain": "A->B->C->B->A", "object": kind})
    ctx.count("chain:two-hops")
    a1, b1, m1, m2 = connect_pair(VoidService(), VoidService(), dict(CFG), dict(CFG))
    b2, c2, m3, m4 = connect_pair(VoidService(), VoidService(), dict(CFG), dict(CFG))
    sinks = {}
    for name, c in (("a1", a1), ("b1", b1), ("b2", b2), ("c2", c2)):
        sinks[name] = []
        h = dict(c._HANDLERS)
        h[H_KEEP] = (lambda sink: (lambda conn, obj: sink.append(obj)))(sinks[name])
        c._HANDLERS = h
    try:
        obj = mk()
        a1.sync_request(H_KEEP, obj)
        pb = sinks["b1"].pop()
        b2.sync_request(H_KEEP, pb)
        pc = sinks["c2"].pop()
        if not (is_netref(pb) and is_netref(pc)):
            ctx.violation("object-arrives-by-value:" + kind, case, observed="%s / %s" % (short(pb), short(pc)), expected="references",
                          what="an object did not travel by reference over two hops")
            return
        if is_value(obj):
            return
        mut(c2, pc, 4711)
        if not hit(obj, 4711):
            ctx.violation("two-hop-reference:mutation-not-on-owner-object", case, observed="owner's object unchanged", expected="effect of 4711",
                          what="a change made through a reference two hops away is not a change to the owner's object (%s)" % kind)
        c2.sync_request(H_KEEP, pc)
        back_b = sinks["b2"].pop()
        if back_b is not pb:
            ctx.violation("two-hop-reference:echo-not-original", case, observed=short(back_b), expected="B's own proxy",
                          what="C handing the reference back to B does not yield what B lent (%s)" % kind)
            return
        b1.sync_request(H_KEEP, back_b)
        back_a = sinks["a1"].pop()
        if back_a is not obj:
            ctx.violation("two-hop-reference:echo-not-original", case, observed=short(back_a), expected="the original object",
                          what="the reference handed back over two hops is not the original object (%s)" % kind)
        b2.sync_request(H_KEEP, pb)
        if sinks["c2"].pop() is not pc:
            ctx.violation("two-hop-reference:second-proxy-while-first-alive", case, observed="a new proxy", expected="the live proxy",
                          what="C received B's reference again while its proxy is alive and got a different proxy (%s)" % kind)
    except Exception as e:
        ctx.violation("two-hop-reference-fails:%s" % type(e).__name__, case, observed=str(e)[:200], expected="references work over two hops",
                      what="lending a reference onwards to a third party raises (%s)" % kind)
    finally:
        for m in (m1, m2, m3, m4):
            m.on_idle = None
            m.close()
        for c in (a1, b1, b2, c2):
            try:
                c.close()
            except Exception:
                pass
        for v in sinks.values():
            del v[:]


# ------------------------------------------------------------------ dedicated short histories
def probe_ops(idx, side=True):
    """send one object, echo it, send it again (same proxy), operate through it, drop, re-receive"""
    return [["send", side, "arg", {"o": idx}], ["send", not side, "arg", {"h": 0}], ["send", side, "ret", {"t": [{"o": idx}, {"p": C.sx_dumps([4, 1])}]}],
            ["mut", not side, 0, 77], ["send", not side, "ret", {"t": [{"h": 0}, {"t": [{"h": 0}]}]}], ["drop", not side, 0],
            ["send", side, "arg", {"o": idx}], ["send", not side, "arg", {"h": 1}]]


def twin_ops(ids, side, variant):
    """two or three same-named objects lent at overlapping times: transfer A, transfer B, echo B, drop A, transfer B again
    (next to C), operate through B's proxy, echo again, drop, re-receive"""
    a, b, c = ids
    O = lambda i: {"o": i}
    S, R = side, (not side)
    ops = [["send", S, "arg", O(a)], ["send", S, "arg" if variant % 2 == 0 else "ret", O(b)], ["send", R, "arg", {"h": 1}],
           ["send", R, "ret", {"t": [{"h": 0}, {"h": 1}]}], ["drop", R, 0],
           ["send", S, "ret" if variant % 2 == 0 else "arg", {"t": [O(b), O(c), {"t": [O(b)]}]}], ["mut", R, 1, 1000 + variant],
           ["send", R, "arg", {"t": [{"h": 2}, {"h": 1}]}], ["send", S, "arg", O(a)], ["mut", R, 3, 2000 + variant], ["mut", R, 2, 3000 + variant],
           ["send", R, "ret", {"t": [{"h": 3}, {"h": 1}, {"h": 2}]}], ["drop", R, 1], ["send", S, "arg", {"t": [O(c), O(b), O(a)]}],
           ["send", R, "arg", {"t": [{"h": 4}, {"h": 3}, {"h": 2}]}]]
    if variant >= 2:      # all three alive at once from the start, one message
        ops = [["send", S, "arg", {"t": [O(a), O(b), O(c), O(a)]}], ["send", R, "ret", {"t": [{"h": 2}, {"h": 0}, {"h": 1}]}],
               ["mut", R, 1, 4000 + variant], ["mut", R, 0, 5000 + variant], ["drop", R, 1], ["send", S, "ret", {"t": [O(b), O(c)]}],
               ["send", R, "arg", {"h": 3}], ["mut", R, 3, 6000 + variant]]
    return ops


def inflight_ops(idx, side, variant):
    """two requests in flight carrying the same never-seen object (its class unknown to the receiver), then the usual"""
    S, R, O = side, (not side), {"o": idx}
    first = [["send2", S, O]] if variant == 0 else [["send2", S, {"t": [O, {"p": C.sx_dumps([4, 3])}, {"t": [O]}]}]]
    return first + [["send", R, "arg", {"h": 0}], ["mut", R, 0, 91], ["send2", S, O], ["drop", R, 0], ["send2", S, {"t": [O, O]}],
                    ["send", R, "ret", {"h": 1}]]


def rekey_ops(idx, side, variant):
    """the class of an object is reassigned / renamed between two sends"""
    S, R, O = side, (not side), {"o": idx}
    if variant == 0:      # while lent: second proxy; dropping the first releases the second's entry; echo of the second fails
        return [["send", S, "arg", O], ["rekey", S, idx], ["send", S, "arg", O], ["send", R, "arg", {"h": 0}], ["mut", R, 0, 31],
                ["mut", R, 1, 32], ["drop", R, 0], ["send", R, "arg", {"h": 1}]]
    if variant == 1:      # changed and changed back while lent: the same proxy again
        return [["send", S, "arg", O], ["rekey", S, idx], ["rekey", S, idx], ["send", S, "ret", O], ["send", R, "arg", {"h": 0}],
                ["drop", R, 0], ["send", S, "arg", O], ["send", R, "ret", {"h": 1}]]
    if variant == 2:      # changed while NOT lent: nothing to see
        return [["rekey", S, idx], ["send", S, "arg", O], ["send", S, "ret", {"t": [O, O]}], ["send", R, "arg", {"h": 0}], ["drop", R, 0],
                ["rekey", S, idx], ["send", S, "arg", O], ["mut", R, 1, 33], ["send", R, "arg", {"h": 1}]]
    # while lent, the second proxy dropped first, then the first
    return [["send", S, "ret", O], ["rekey", S, idx], ["send", S, "arg", {"t": [O, {"p": C.sx_dumps([4, 7])}]}], ["drop", R, 1],
            ["send", R, "ret", {"h": 0}], ["mut", R, 0, 34], ["drop", R, 0], ["send", S, "arg", O], ["send", R, "arg", {"h": 2}]]


def count_history(ctx, h, stats):
    for op, o in zip(h.ops, h.obs):
        if op[0] == "send":
            spec = op[3]
            txt = repr(spec)
            nontrivial = ("'o'" in txt or "'h'" in txt or "'t'" in txt or len(txt) > 30)
            ctx.case(("send", op[2], txt), nontrivial=nontrivial, sample={"op": "send", "mode": op[2], "value": txt[:160], "outcome": o["result"][0]})
            ctx.count("step:send:" + op[2])
            ctx.count("send:" + ("with-reference" if ("'o'" in txt or "'h'" in txt) else "plain-only"))
        elif op[0] in ("send2", "send2b"):
            if op[0] == "send2":
                ctx.case(("send2", repr(op[2])), nontrivial=True, sample={"op": "two requests in flight", "value": repr(op[2])[:160], "outcome": o["result"][0]})
                ctx.count("step:send-two-in-flight")
        elif op[0] == "raw":
            ctx.case(("raw", repr(op[2])), nontrivial=True, sample={"op": "forged package", "spec": repr(op[2])[:160], "outcome": repr(o["result"])[:60]})
            ctx.count("step:raw:" + o["result"][0] + ("" if o["result"][0] == "ok" else ":" + str(o["result"][1])))
        else:
            ctx.case((op[0], tuple(op[1:]), len(h.ops)), nontrivial=True, sample=None)
            ctx.count("step:" + ("class-change" if op[0] == "rekey" else op[0]))


def run(ctx):
    r = ctx.rng
    model = C.Model("box")
    model = model if model.available() else None
    sp, lad = facts()
    idp_model, idp_inv = idp_tables(ctx, model)
    Hist.idp_model = idp_model
    ctx.coverage_extra["rule"] = (
        "random histories (<= 20 steps) on a real connection pair: send as argument / as result, echo of held proxies, re-sending of "
        "objects already lent, drop, operation through a proxy, forged packages at the end; values: boundary-biased plain values of every "
        "shape (C04 generator), 56 pool objects per party (containers, functions, classes, modules, enum members, named tuples, subclass "
        "instances, frozensets/slices holding objects, three distinct SAME-NAMED classes and instances of them), tuples nesting all of them "
        "up to depth 3; one dedicated history per pool object; 40 scripted histories lending same-named classes/instances at overlapping "
        "times in both directions (and a 20% bias towards them in random histories); 32 scripted histories (and 3% of random steps) "
        "that reassign o.__class__ or rename the class of an object between sends; scripted histories (and 6% of random steps) with TWO "
        "requests carrying the same value in flight before the receiver dispatches the first; a real three-party chain for 6 object kinds; "
        "obtain/deliver on classic connections. A step is non-trivial unless it sends a single short plain value; distinct by the "
        "abstract operation text")
    stats = {}
    hists = []
    n_hist = 190 if ctx.quick else 5000
    pool_n = len(make_pool())
    # dedicated histories: every pool object, both directions for a few
    for idx in range(pool_n):
        h = replay_ops(ctx, probe_ops(idx, side=(idx % 2 == 0)))
        hists.append(h)
    # same-named classes / instances of them, both directions, several orders
    ref = make_pool()
    tw_cls = [e.idx for e in ref if e.kind == "twin-class"]
    tw_ins = [e.idx for e in ref if e.kind == "twin-instance"]
    for ids in (tw_cls, tw_ins[:3], [tw_cls[1], tw_cls[2], tw_cls[0]], [tw_ins[0], tw_ins[3], tw_ins[1]], [tw_cls[0], tw_ins[0], tw_cls[1]]):
        for side in (True, False):
            for variant in range(4):
                h = replay_ops(ctx, twin_ops(ids, side, variant))
                ctx.count("history:same-named-classes")
                hists.append(h)
    # the class of an object is reassigned (o.__class__ = K2) or renamed (K.__name__ = ...) between sends
    for idx in [e.idx for e in ref if e.rekey is not None]:
        for side in (True, False):
            for variant in range(4):
                hists.append(replay_ops(ctx, rekey_ops(idx, side, variant)))
                ctx.count("history:class-changed-between-sends")
    # two requests in flight carrying one object whose class the receiver has to ask for (and some whose class it knows)
    for e in ref:
        if e.kind in ("instance", "twin-instance", "twin-class", "class", "int-subclass", "namedtuple", "int-enum-member", "exception-instance",
                      "reclassable-instance", "list", "function", "frozenset-with-object"):
            for variant in (0, 1):
                hists.append(replay_ops(ctx, inflight_ops(e.idx, (e.idx + variant) % 2 == 0, variant)))
                ctx.count("history:two-requests-in-flight")
    for i in range(n_hist):
        hists.append(gen_history(ctx, r, r.choice([3, 6, 10, 14, 20]), stats))
        if len(hists) >= 400:
            flush(ctx, hists, model, idp_model, idp_inv, sp, lad, stats)
            hists = []
    flush(ctx, hists, model, idp_model, idp_inv, sp, lad, stats)
    for which in ("obtain", "deliver"):
        for idx in range(len(COPY_OBJECTS)):
            check_copy(ctx, which, idx)
        for i in range(25 if ctx.quick else 600):
            check_copy(ctx, which, None, seed=r.randrange(2**32))
        for i in range(30 if ctx.quick else 600):
            check_copy_tuple(ctx, which, r.randrange(2**32))
    for i in range(len(CHAIN_KINDS)):
        check_chain(ctx, i)
    for k, v in stats.items():
        ctx.count("leaf:" + k, v)


def flush(ctx, hists, model, idp_model, idp_inv, sp, lad, stats):
    for h in hists:
        count_history(ctx, h, stats)
    compare(ctx, hists, model, idp_model, idp_inv, sp, lad)
    for h in hists:
        h.pr.close()


def replay(ctx, rep):
    case = rep.get("case") or {}
    model = C.Model("box")
    model = model if model.available() else None
    sp, lad = facts()
    idp_model, idp_inv = idp_tables(ctx, model)
    Hist.idp_model = idp_model
    if case.get("kind") == "copy":
        check_copy(ctx, case["which"], case["idx"], seed=case.get("seed"))
    elif case.get("kind") == "copy-tuple":
        check_copy_tuple(ctx, case["which"], case["seed"])
    elif case.get("kind") == "chain":
        check_chain(ctx, case["idx"])
    elif case.get("kind") == "hist":
        h = replay_ops(ctx, case["ops"])
        flush(ctx, [h], model, idp_model, idp_inv, sp, lad, {})
