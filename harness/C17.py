"""C17 — closing a server ends all its clients; departed clients leave nothing behind.

Real ThreadedServer / ThreadPoolServer / OneShotServer instances (TCP loopback on port 0 and unix sockets in a temp
dir, with and without a toy authenticator, service registered as class or as instance) are driven through generated
histories of connect / request / hostile bytes / graceful leave / abrupt leave by up to five clients and close() at a
random point, twice.  Histories run one event at a time in helper processes (so that /proc/self/fd and the thread
count are per history).  After every event
  * the property's own statement is evaluated on the real objects (listener, Server.clients, fd_to_conn, the poll
    object, the active queue, descriptors, threads, what every client reads, the on_disconnect counters), and
  * the bookkeeping is compared with the extracted model (coq/model/Server.v) run on the same history.
The forking server runs in a process of its own (scripted scenarios).  This module is also the engine of C16."""
import json, os, random, struct, subprocess, sys, threading, time, zlib
from harness import common as C
from harness import refcodec as R

META = {
    "level": "proof",
    "level_text": "props/C17.v: over the transition system of model/Server.v (accept loop, clients sending ANY bytes and leaving gracefully or abruptly, per-client "
                  "workers, the pool's poller and workers, close()) and for every reachable state: close() shuts the listener, empties Server.clients and shuts down every "
                  "connection still being served in that very step (threaded and one-shot unless a socket-replacing authenticator meets a worker that does not re-register "
                  "the socket it serves; thread pool and forking guarded by the regenerated facts; refutation theorems carry the witnesses [Accept c; Close]); accept() is ONE "
                  "step of the model, which is faithful exactly on a tree that re-checks _closed after clients.add (fact accept_rechecks_closed, hypothesis of the close theorems; "
                  "c17_accept_close_race_harmless / _refuted treat the window separately); every connection's on_disconnect runs at most once and exactly once after close however the "
                  "remaining events interleave; a second close is the identity; at quiescence no table (clients, fd_to_conn, poll set, queue, worker slots) mentions a departed "
                  "client; a one-shot server accepts at most one connection, does accept the first one queued, and is closed once that connection ends "
                  "(a first client that fails authentication is that one connection). Proof is the right level: the statement quantifies over "
                  "unbounded histories and interleavings.",
    "level_note": "Scope of the theorems: started servers (close() before start(): harness only); authenticators that do not replace the accepted socket "
                  "(c17_close_ends_clients carries that hypothesis; TLS-like authenticators, a handshake that ends after close(): harness ops wrap / authlate only); "
                  "pool tables identified with never-reused keys (descriptor-number reuse: harness op hookhold, fact pool_drop_checks_identity). "
                  "Partial for descriptors, threads and child processes: the model counts table entries; /proc/self/fd, the thread count and what each client's socket reads are "
                  "observed only by the correspondence run (the forking server's parent: Server.clients, listener and descriptor count after close() are checked, "
                  "children are not). The correspondence is sequential (one event, then the server's threads settle): concurrent bursts are not produced; the share of events "
                  "actually compared with the model is reported (events_compared_with_model) and a floor of 75% is enforced; exceptions that end server threads are collected and "
                  "must be explained by a hostile event of the history. "
                  "Trusted: Coq kernel, pygen templates, extraction + driver, harness; the OS delivers end-of-stream to the peer of a socket that was shut down.",
    "technique": "Coq invariants over an event transition system + regenerated control skeletons and facts + differential correspondence of the extracted model with real servers "
                 "+ implementation-level oracle on sockets, descriptors and threads",
    "gen": ["server", "channel", "stream", "protocol", "libinit"],
    "shapes": ["server.*", "channel.*", "stream.SocketStream.*", "stream.Stream.poll", "stream.compat.*", "stream.lib.*", "stream.retry_errnos",
               "protocol.Connection.serve", "protocol.Connection.serve_all", "protocol.Connection.poll", "protocol.Connection._dispatch",
               "protocol.Connection._dispatch_request", "protocol.Connection._send", "protocol.Connection.close", "protocol.Connection._cleanup",
               "protocol.Connection.__init__", "protocol.Connection.sync_request", "protocol.Connection._netref_factory",
               "protocol.DEFAULT_CONFIG.keys", "libinit.*"],
    "models": ["server"],
    "model_files": ["Server"],
    "assumptions": [
        "a socket that was shut down / closed by the server delivers end-of-stream (or a reset) to its peer within the observation bound",
        "CPython reference counting closes a socket object dropped by its last holder (the rejected-client path of _authenticate_and_serve_client never calls close())",
        "object ids are not reused while the harness keeps the objects alive (ids are compared across connections)",
    ],
}

KINDS = ["threaded", "pool", "oneshot", "forking"]
FACT_NAMES = ("pool_close_drops", "pool_fail_discards", "fork_parent_keeps", "pool_catches_base", "worker_tracks_served",
              "accept_survives_oserror", "accept_rechecks_closed",
              # read off the source like the others, not parameters of the Coq model (they say when the harness may compare with it):
              "pool_drop_checks_identity", "auth_rechecks_closed", "pool_serves_fd_zero", "accept_survives_spawn_failure")
# Every wait whose expiry is a verdict (a reply, end-of-stream, a table emptying, close() returning ...) uses BOUND: generous, so
# that a loaded machine cannot produce a false violation; it costs nothing when the expected thing happens.  FAST replaces it
# only after a failure has already been established (in the same history, or earlier in the run).  Starvation verdicts do not
# rest on a timeout: they are confirmed on the server's thread stacks (History.starvation_cause).
BOUND = float(os.environ.get("VERIF_C17_BOUND", "30.0"))
FAST = float(os.environ.get("VERIF_C17_FAST", "2.0"))
QUIET = 1.0                                                   # s: how long a reply that nobody expects is waited for
H = R.H
AUTH_OK, AUTH_FAIL, AUTH_STALL = 0, 1, 2
QROOT, QBUMP, QMAKE, QSTR, QDEL, QCLOSE, QKILL, QSTALL = range(8)


# ================================================================= facts from the translator

def gen_facts(repo=None):
    """(pool_close_drops, pool_fail_discards, fork_parent_keeps, pool_catches_base) re-translated from the tree under test"""
    from tools.pygen import server as T
    vals = {}
    for it in T.translate(repo or C.REPO):
        if it.kind == "typed" and it.coq_type == "bool":
            vals[it.name] = it.coq_term == "true"
    return [int(vals.get(k, False)) for k in FACT_NAMES]


# ================================================================= histories -> model scripts

def placeholder(q, target):
    """the model-side payload standing for a well-formed request (the real bytes carry run-time object ids)"""
    return ("Q%d:%d:%d" % (q, target[0], target[1])).encode() if target is not None else ("Q%d" % q).encode()


def req_sx(q, target):
    return [q] if q in (QROOT, QCLOSE) else [q, [target[0], target[1]]]


def frame_raw(body, flag):
    return struct.pack(">IB", len(body), flag) + body + b"\n"


def model_case(cfg, facts, items):
    """-> (case for the extracted model, index of the snapshot of each item, index of the intermediate snapshot of a two-phase leave)"""
    kd = KINDS.index(cfg["kind"])
    dtbl, ztbl, script, snap, pre = {}, {}, [], [], {}
    hups = []
    ckind = {}
    unix = cfg["transport"] == "unix"

    def good_frame(q, target, compressed=False):
        pl = placeholder(q, target)
        dtbl[pl] = req_sx(q, target)
        if compressed:
            z = b"Z" + pl
            ztbl[z] = pl
            return frame_raw(z, 1)
        return frame_raw(pl, 0)

    for it in items:
        op = it[0]
        if op == "connect":
            script.append([0, [0, it[1], it[3]]])
            ckind[it[1]] = it[2]
        elif op == "req":
            script.append([0, [1, it[1], good_frame(it[2], it[3], bool(it[4]) if len(it) > 4 else False)]])
        elif op == "send":
            script.append([0, [1, it[1], bytes.fromhex(it[2])]])
        elif op == "kill":
            dtbl[b"KILL"] = [QKILL]
            script.append([0, [1, it[1], frame_raw(b"KILL", 0)]])
        elif op == "nospawn":
            # the client connects; the accept loop takes it and the thread / child process for it cannot be started: ESpawnFail
            # (enabled for the kinds that start a worker per client; elsewhere the op is not generated)
            script.append([0, [0, it[1], AUTH_OK]])
            ckind[it[1]] = "raw"
            script.append([0, [10]])
        elif op == "knock":
            script.append([0, [0, it[1], AUTH_OK]])
            ckind[it[1]] = "raw"
            script.append([0, [2, it[1], 0 if unix else 1]])
            hups.append(it[1])
        elif op == "classref":
            pass
        elif op == "hookhold":
            script.append([0, [2, it[1], 1 if (len(it) > 3 and it[3] == "rst" and not unix) else 0]])
            if unix or (len(it) > 3 and it[3] == "rst"):
                hups.append(it[1])
            script.append([0, [0, it[2], AUTH_OK]])
            ckind[it[2]] = "raw"
        elif op == "connect0":
            script.append([0, [0, it[1], AUTH_OK]])
            ckind[it[1]] = "raw"
        elif op == "authlate":
            script.append([0, [0, it[1], AUTH_STALL]])
            ckind[it[1]] = "raw"
            script.append([0, [7]])
        elif op == "twin":
            script.append([0, [0, it[1], AUTH_OK]])
            script.append([0, [0, it[2], AUTH_OK]])
            ckind[it[1]] = ckind[it[2]] = "raw"
        elif op == "park":
            dtbl[b"STALL"] = [QSTALL]
            script.append([0, [1, it[1], frame_raw(b"STALL", 0)]])
        elif op == "stall":
            dtbl[b"STALL"] = [QSTALL]
            script.append([0, [1, it[1], frame_raw(b"STALL", 0)]])
        elif op == "logbomb":
            pass        # a request that fails in its handler and is answered with an exception: not a request of the model's alphabet (oracle only)
        elif op == "emfile":
            # a client connects while the process is out of descriptors: accept() fails once (or more) before it succeeds
            script.append([0, [0, it[1], AUTH_OK]])
            ckind[it[1]] = "raw"
            if unix:
                # a blocking accept() (unix listener: no timeout) reserved its descriptor when it was entered: this client still gets in,
                # the NEXT accept() call fails at once
                script.append([1, list(hups)])
            script.append([0, [9]])
        elif op == "race":
            # close() runs to completion while accept() is between its `active` test and clients.add: on a tree that re-checks _closed this is
            # a close() that wins (the socket is closed by accept itself)
            script.append([0, [0, it[1], AUTH_OK]])
            ckind[it[1]] = "raw"
            script.append([0, [7]])
        elif op == "call":
            pass
        elif op == "leave":
            c, mode = it[1], it[2]
            if mode == "close":
                script.append([0, [1, c, good_frame(QCLOSE, None)]])
                if ckind.get(c) == "raw":
                    # a raw client sends HANDLE_CLOSE, lets the server's threads settle, then closes its socket (two observable phases:
                    # otherwise the poller may or may not see the data before the hang-up)
                    script.append([1, list(hups)])
                    pre[len(snap)] = len(script) - 1
            # a unix socket has no reset: what the client had sent stays readable, then end-of-stream (and the poller sees a hang-up)
            script.append([0, [2, c, 1 if (mode == "rst" and not unix) else 0]])
            if mode == "rst" or unix:
                hups.append(c)
        elif op == "srvclose":
            script.append([0, [7]])
        else:
            raise ValueError(op)
        script.append([1, list(hups)])
        snap.append(len(script) - 1)
    case = [[kd] + list(facts[:7]) + [facts[10]] + [int(cfg["auth"]), int(cfg["cls"]), cfg["nw"], cfg["batch"], int(bool(cfg.get("wrap")) and bool(cfg["auth"]))],
            [[k, v] for k, v in dtbl.items()], [[k, v] for k, v in ztbl.items()], script]
    return case, snap, pre


def project(state):
    """model state (sx) -> the observable projection compared with the implementation"""
    active, closed, lopen, busy, clients, fdmap, pollset, queue, workers, conns, backlog = state
    d = {"active": bool(active), "closed": bool(closed), "lopen": bool(lopen), "clients": sorted(clients), "fdmap": sorted(fdmap),
         "pollset": sorted(pollset), "queue": sorted(queue), "held": sorted(w[0] for w in workers if w), "conn": {}}
    for c, stage, authd, gone, shut, cclosed, hooks, table, out, inlen in conns:
        d["conn"][str(c)] = {"authd": bool(authd), "hooks": hooks, "cclosed": bool(cclosed), "shut": bool(shut), "gone": bool(gone),
                             "stage": stage, "out": out, "ntable": len(table), "inlen": inlen}
    return d


REPLY_NAMES = {0: "oid", 1: "val", 2: "ok", 3: "err"}


def model_reply(r):
    if r[0] == 0:
        return ["oid", r[1][0], r[1][1]]
    if r[0] == 1:
        return ["val", r[1]]
    return [REPLY_NAMES[r[0]]]


# ================================================================= the real thing (runs in a helper process)

def _quiet_logger():
    import logging
    lg = logging.getLogger("verif.c17")
    lg.handlers[:] = [logging.NullHandler()]
    lg.propagate = False
    lg.setLevel(logging.CRITICAL + 10)
    return lg


def _debug_logger():
    """a logger as rpyc.lib.setup_logger / bin/rpyc_classic.py set one up: a formatting handler at DEBUG (output discarded).  What the server
    logs is then FORMATTED, under the handler's lock, which every thread of the server shares"""
    import logging
    lg = logging.getLogger("verif.c17.debug")
    h = logging.StreamHandler(open(os.devnull, "w"))
    h.setFormatter(logging.Formatter("%(asctime)s %(levelname)s %(name)s %(message)s"))
    lg.handlers[:] = [h]
    lg.propagate = False
    lg.setLevel(logging.DEBUG)
    return lg


def nfds():
    return len(os.listdir("/proc/self/fd")) - 1      # minus the descriptor of the listing itself


def wait_until(pred, bound):
    t0 = time.monotonic()
    dt = 0.001
    while True:
        v = pred()
        if v:
            return v
        if time.monotonic() - t0 > bound:
            return v
        time.sleep(dt)
        dt = min(dt * 1.5, 0.02)


def norm_addr(a):
    if isinstance(a, (bytes, bytearray)):
        return bytes(a)
    if isinstance(a, str):
        return a.encode()
    if isinstance(a, (tuple, list)):
        return tuple(a[:2])
    return a


class WatchSet(set):
    """Server.clients with a note of the peer of every socket added (same behaviour as the set it replaces)"""

    def __init__(self, it=()):
        set.__init__(self, it)
        self.log = []
        self.hold = None          # (reached, go): the next add() announces itself and waits (to place a close() inside accept's window)

    def add(self, sk):
        import weakref
        try:
            name = norm_addr(sk.getpeername())
        except OSError:
            name = None
        self.log.append((weakref.ref(sk), name))
        hold, self.hold = self.hold, None
        if hold is not None:
            hold[0].set()
            hold[1].wait(BOUND)
        set.add(self, sk)


class Rec:
    """what the service hooks saw, per history"""

    def __init__(self):
        self.lock = threading.Lock()
        self.connects = []        # keys in on_connect order
        self.hooks = {}
        self.conn_of = {}         # key -> weakref to the Connection
        self.svc_of = {}          # key -> id of the service instance
        self.peer_of = {}         # key -> peer address of the connection
        self.thread_errors = 0
        self.config_of = {}       # key -> (peer of the connection's socket, peer its configuration names, its credentials)
        self.hook_hold = None     # (reached, go): the next on_disconnect announces itself and waits
        self.fd_of = {}           # key -> descriptor number of the connection when it was set up
        self.ctor_hold = None     # (reached, go): the next service constructor announces itself and waits
        self.parked = 0           # exposed_park calls that are waiting
        self.release = threading.Event()
        self.keep = []            # service instances stay alive: their ids (and their objects' ids) are compared across connections

    def on_connect(self, svc, conn):
        import weakref
        with self.lock:
            key = len(self.connects)
            conn._verif_key = key
            self.connects.append(key)
            self.hooks[key] = 0
            self.conn_of[key] = weakref.ref(conn)
            self.svc_of[key] = id(svc)
            self.keep.append(svc)
            # whose connection this is: the peer of the socket it runs on (NOT what its configuration says: that is checked against it)
            try:
                real = norm_addr(conn._channel.stream.sock.getpeername())
            except Exception:
                real = None
            try:
                told = norm_addr(conn._config["endpoints"][1])
                cred = conn._config.get("credentials")
            except Exception:
                told, cred = None, None
            try:
                self.fd_of[key] = conn.fileno()
            except Exception:
                self.fd_of[key] = None
            self.peer_of[key] = real if real is not None else told
            self.config_of[key] = (real, told, cred)

    def on_disconnect(self, svc, conn):
        with self.lock:
            key = getattr(conn, "_verif_key", None)
            self.hooks[key] = self.hooks.get(key, 0) + 1
            hold, self.hook_hold = self.hook_hold, None
        if hold is not None:
            # (the channel -- and with it the descriptor number -- has been released by _cleanup before the hook is called)
            hold[0].set()
            hold[1].wait(20 * BOUND)


def make_service(rec):
    import rpyc

    class Obj(object):
        def __init__(self, i):
            self.i = i

        def __str__(self):
            return "obj%d" % self.i

    class Svc(rpyc.Service):
        def __init__(self):
            self.cnt = 0
            self.objs = []
            hold, rec.ctor_hold = rec.ctor_hold, None
            if hold is not None:
                hold[0].set()
                hold[1].wait(BOUND)

        def on_connect(self, conn):
            rec.on_connect(self, conn)

        def exposed_park(self):
            with rec.lock:
                rec.parked += 1
            rec.release.wait(20 * BOUND)        # until the harness lets go (after close(), or at the end of the history)
            return 1

        def on_disconnect(self, conn):
            rec.on_disconnect(self, conn)

        def exposed_bump(self):
            self.cnt += 1
            return self.cnt

        def exposed_make(self):
            o = Obj(len(self.objs) + 1)
            self.objs.append(o)
            return o

        def exposed_echo(self, x):
            return x
    return Svc


def toy_authenticator(sock):
    """reads a 4-byte word; b'OKAY' passes"""
    from rpyc.utils.authenticators import AuthenticationError
    got = b""
    while len(got) < 4:
        try:
            d = sock.recv(4 - len(got))
        except OSError:
            d = b""
        if not d:
            raise AuthenticationError("no credentials")
        got += d
    if got != b"OKAY":
        raise AuthenticationError("wrong word")
    try:
        cred = repr(norm_addr(sock.getpeername()))
    except OSError:
        cred = "?"
    return sock, cred


def wrapping_authenticator(sock):
    """like toy_authenticator, but hands back ANOTHER socket object for the connection (what TLS wrapping does: the original is detached)"""
    import socket
    sock, cred = toy_authenticator(sock)
    return socket.socket(fileno=sock.detach()), cred


def detach_first_authenticator(sock):
    """what a TLS handshake does: the accepted socket object is given up AT ONCE, the credentials are read from its replacement"""
    import socket
    s2 = socket.socket(fileno=sock.detach())
    try:
        s2, cred = toy_authenticator(s2)
    except BaseException:
        s2.close()
        raise
    return s2, cred


THREAD_ERRORS = []       # (thread name, exception class) of every thread that ended with an exception in this helper process


def _thread_excepthook(args):
    THREAD_ERRORS.append((getattr(args.thread, "name", "?"), getattr(args.exc_type, "__name__", str(args.exc_type))))


class Client:
    """a scripted client: raw protocol frames over a socket (or a real rpyc connection on top of it)"""

    def __init__(self, cid, ckind):
        self.cid, self.ckind = cid, ckind
        self.sock = None
        self.buf = bytearray()
        self.eof = False
        self.gone = False
        self.seq = 0
        self.conn = None          # rpyc connection for ckind == "rpyc"
        self.accepted = False     # the harness saw its on_connect
        self.key = None
        self.connected = False    # the TCP/unix connect succeeded

    def pump(self):
        """read whatever is there without blocking; note end-of-stream"""
        if self.sock is None or self.eof:
            return
        import socket
        while True:
            try:
                d = self.sock.recv(65536, socket.MSG_DONTWAIT)
            except (BlockingIOError, InterruptedError):
                return
            except OSError:
                self.eof = True
                return
            if not d:
                self.eof = True
                return
            self.buf += d

    def sees_eof(self):
        if self.conn is not None:
            # a real rpyc connection reads its own socket: let it process what arrived (the server's HANDLE_CLOSE, end-of-stream)
            try:
                self.conn.poll_all(0)
            except EOFError:
                pass
            except Exception:
                pass
            return bool(self.conn.closed)
        self.pump()
        return self.eof

    def sock_open(self):
        try:
            return self.sock is not None and self.sock.fileno() != -1
        except Exception:
            return False

    def next_message(self, bound):
        """-> decoded (kind, seq, args) | 'eof' | 'timeout'"""
        t0 = time.monotonic()
        while True:
            self.pump()
            u = None
            try:
                u = R.unframe(bytes(self.buf))
            except zlib.error:
                return "garbled"
            if u is not None:
                payload, flag, rest, nl = u
                self.buf = bytearray(rest)
                try:
                    return R.dec(payload)[0]
                except Exception:
                    return "garbled"
            if self.eof:
                return "eof"
            if time.monotonic() - t0 >= bound:
                return "timeout"
            if not _unframe_ready(self.buf):
                time.sleep(0.002)


def _unframe_ready(buf):
    if len(buf) < 5:
        return False
    n, flag = struct.unpack(">IB", bytes(buf[:5]))
    return len(buf) >= 5 + n + 1


class History:
    """one history against one real server"""

    def __init__(self, job):
        self.job = job
        self.cfg = job["cfg"]
        self.items = job["items"]
        self.expect = job.get("expect") or [None] * len(self.items)
        self.rec = Rec()
        self.clients = {}
        self.oracle = []           # violations of the property's own statement
        self.mismatch = []         # model / implementation differences
        self.obs = []
        self.replies = []
        self.sock_cid = None       # WeakKeyDictionary: server-side socket -> cid
        self.fd_seen = set()
        self.key_cid = {}
        self.sym2real, self.real2sym = {}, {}
        self.ref = {}              # reference endpoint semantics: per connection table (multiset), per instance counters
        self.closed_called = False
        self.close_returned = True
        self.tmp = None
        self.stats = {"needed_gc": 0}
        self.tainted = False
        self.addr_cid = {}
        self.nsock = 0
        self.sent = {}
        self.fast = bool(job.get("fast"))
        self.stalling = set()
        self.parked_cids = set()
        del THREAD_ERRORS[:]

    # ------------------------------------------------------------ set-up / tear-down
    def start(self):
        import tempfile, weakref
        import rpyc
        from rpyc.utils import server as S
        self.sock_cid = weakref.WeakKeyDictionary()
        cfg = self.cfg
        Svc = make_service(self.rec)
        import gc
        gc.collect()
        last = [None]

        def stable():
            cur = (nfds(), threading.active_count())
            ok = cur == last[0] and cur[1] == 1
            last[0] = cur
            return ok
        # what the previous history left must have drained before anything is counted against this server; if it has not (slow machine)
        # the descriptor / thread counts of this history are not judged at all (reported as baseline-unstable)
        self.unstable_baseline = not wait_until(stable, 10.0)
        self.base_fds = nfds()
        self.base_threads = threading.active_count()
        kw = {"logger": _debug_logger() if cfg.get("debuglog") else _quiet_logger(), "listener_timeout": 0.5}
        if cfg["transport"] == "unix":
            self.tmp = tempfile.mkdtemp(prefix="c17-")
            self.addr = os.path.join(self.tmp, "s")
            kw["socket_path"] = self.addr
        else:
            kw["hostname"] = "127.0.0.1"
            kw["port"] = 0
        if cfg["auth"]:
            kw["authenticator"] = {True: wrapping_authenticator, "first": detach_first_authenticator}.get(cfg.get("wrap"), toy_authenticator)
        # a nested request the server makes to a client waits for ever (the default would give up after 30 s: same thing, later)
        kw["protocol_config"] = {"sync_request_timeout": None}
        cls = {"threaded": S.ThreadedServer, "pool": S.ThreadPoolServer, "oneshot": S.OneShotServer}[cfg["kind"]]
        if cfg["kind"] == "pool":
            kw["nbThreads"] = cfg["nw"]
            kw["requestBatchSize"] = cfg["batch"]
        self.svc_arg = Svc if cfg["cls"] else Svc()
        self.srv = cls(self.svc_arg, **kw)
        if cfg["transport"] == "tcp":
            self.addr = ("127.0.0.1", self.srv.port)
        self.srv.clients = WatchSet(self.srv.clients)
        # how many accepted sockets the accept loop has handed to _accept_method (instance-side wrapper, nothing of the source changes)
        self.handed = []
        _orig_accept_method = self.srv._accept_method

        def _counted_accept_method(sock, _o=_orig_accept_method):
            self.handed.append(1)
            return _o(sock)
        self.srv._accept_method = _counted_accept_method
        self.thread = self.srv._start_in_thread()
        self.ref_inst = {}      # instance tag -> {"cnt":, "made":}

    def stop(self):
        import shutil
        self.rec.release.set()
        if self.rec.ctor_hold is not None:
            self.rec.ctor_hold[1].set()
        for cl in self.clients.values():
            self._hard_close(cl)
        try:
            t = threading.Thread(target=self.srv.close, daemon=True)
            t.start()
            t.join(FAST + 2)
        except Exception:
            pass
        self.thread.join(FAST)
        if self.tmp:
            shutil.rmtree(self.tmp, ignore_errors=True)

    def _hard_close(self, cl):
        try:
            if cl.sock is not None:
                cl.sock.close()
        except OSError:
            pass
        cl.sock = None
        cl.gone = True

    def B(self):
        return FAST if (self.fast or self.tainted) else BOUND

    # ------------------------------------------------------------ observation
    def attribute(self, cid=None):
        """server-side sockets and connections are attributed to clients by peer address (recorded when the server adds the
        socket to Server.clients / when on_connect runs)"""
        for ref, name in list(self.srv.clients.log):
            sk = ref()
            if sk is not None and sk not in self.sock_cid:
                self.sock_cid[sk] = self.addr_cid.get(name, -1)
        with self.rec.lock:
            keys = list(self.rec.connects)
            peers = dict(self.rec.peer_of)
        for k in keys:
            if k not in self.key_cid:
                c = self.addr_cid.get(peers.get(k), -1)
                self.key_cid[k] = c
                if c in self.clients:
                    self.clients[c].accepted = True
                    self.clients[c].key = k

    def observe(self):
        import select
        srv = self.srv
        d = {"active": bool(srv.active), "closed": bool(srv._closed), "lopen": srv.listener.fileno() != -1}
        cl = []
        for s in list(srv.clients):
            if self.cfg.get("wrap") and s.fileno() == -1 and self.cfg["kind"] != "pool":
                continue        # the original the authenticator detached: no descriptor, gone with the worker's `finally`
            c = self.sock_cid.get(s, -1)
            cl.append(c)
        d["clients"] = sorted(set(cl))
        d["clients_closed_socks"] = sum(1 for s in list(srv.clients) if s.fileno() == -1)
        fdmap, pollset, queue = [], [], []
        fd_cid = {}
        d["stale"] = []
        if self.cfg["kind"] == "pool":
            f2c = dict(srv.fd_to_conn)
            for fd, conn in f2c.items():
                self.fd_seen.add(fd)
                c = self.key_cid.get(getattr(conn, "_verif_key", None), -1)
                fd_cid[fd] = c
                fdmap.append(c)
            flags = select.POLLIN | select.POLLPRI | select.POLLERR | select.POLLHUP | select.POLLNVAL | 0x2000
            for fd in sorted(self.fd_seen):
                try:
                    srv.poll_object._poll.modify(fd, flags)
                    reg = True
                except (OSError, KeyError):
                    reg = False
                if reg:
                    if fd in fd_cid:
                        pollset.append(fd_cid[fd])
                    else:
                        d["stale"].append(["poll", fd])
            for fd in list(srv._active_connection_queue.queue):
                if fd is None:
                    continue
                if fd in fd_cid:
                    queue.append(fd_cid[fd])
                else:
                    d["stale"].append(["queue", fd])
        d["fdmap"], d["pollset"], d["queue"] = sorted(fdmap), sorted(pollset), sorted(queue)
        d["held"] = sorted(set(fdmap) - set(pollset) - set(queue))
        d["conn"] = {}
        with self.rec.lock:
            hooks = dict(self.rec.hooks)
            conn_of = dict(self.rec.conn_of)
        for cid, c in self.clients.items():
            e = {"authd": c.key is not None, "hooks": hooks.get(c.key, 0) if c.key is not None else 0, "gone": c.gone}
            if c.key is not None:
                conn = conn_of[c.key]()
                e["cclosed"] = True if conn is None else bool(conn.closed)
            else:
                e["cclosed"] = False
            e["shut"] = None if (c.gone or c.sock is None) else bool(c.sees_eof())
            d["conn"][str(cid)] = e
        # bytes the server has not read yet, per client (so that "the server has consumed what was sent" is observable)
        import fcntl, termios
        unread = {}
        try:
            for sk, c in list(self.sock_cid.items()):
                fd = sk.fileno()
                if fd != -1:
                    unread[str(c)] = struct.unpack("i", fcntl.ioctl(fd, termios.FIONREAD, b"\0\0\0\0"))[0]
            if self.cfg["kind"] == "pool":
                for fd, c in fd_cid.items():
                    unread[str(c)] = struct.unpack("i", fcntl.ioctl(fd, termios.FIONREAD, b"\0\0\0\0"))[0]
        except (OSError, ValueError):
            pass
        d["unread"] = unread
        d["fds"] = nfds() - self.base_fds
        d["threads"] = threading.active_count() - self.base_threads
        return d

    def matches(self, obs, exp):
        """the comparable part of the model's projection equals the observation"""
        diffs = []
        for k in ("active", "closed", "lopen", "clients", "fdmap"):
            if obs[k] != exp[k]:
                diffs.append((k, obs[k], exp[k]))
        if self.cfg["kind"] == "pool" and exp["active"]:
            for k in ("pollset", "queue", "held"):
                if obs[k] != exp[k]:
                    diffs.append((k, obs[k], exp[k]))
        for cid, e in exp["conn"].items():
            o = obs["conn"].get(cid)
            if o is None:
                diffs.append(("conn-missing", cid, e))
                continue
            for k in ("authd", "hooks"):
                if o[k] != e[k]:
                    diffs.append(("conn." + k, cid, o[k], e[k]))
            if e["authd"] and o["cclosed"] != e["cclosed"]:
                diffs.append(("conn.cclosed", cid, o["cclosed"], e["cclosed"]))
            if o["shut"] is not None and o["shut"] != e["shut"]:
                diffs.append(("conn.shut", cid, o["shut"], e["shut"]))
            if e.get("inlen") == 0 and not e["shut"] and not e["gone"] and obs["unread"].get(cid, 0) != 0:
                diffs.append(("conn.unread", cid, obs["unread"].get(cid), 0))
        for cid, o in obs["conn"].items():
            if cid not in exp["conn"] and (o["authd"] or o["hooks"]):
                diffs.append(("conn-unexpected", cid, o))
        return diffs

    def settle(self, idx, cid=None):
        """wait until the implementation shows what the model predicts (or the bound passes); record the observation"""
        exp = self.expect[idx]
        last = [None, None]

        def ok():
            self.attribute()
            o = self.observe()
            last[0] = o
            if exp is None:
                return False
            last[1] = self.matches(o, exp)
            return not last[1]
        if exp is None:
            # no model: let the server's threads work for a moment
            wait_until(ok, 0.3)
        else:
            wait_until(ok, self.B())
            if last[1]:
                self.mismatch.append({"item": idx, "diffs": [list(map(repr, x)) for x in last[1][:6]]})
                self.fast = True        # a difference has been established: the rest of this history need not wait long
        self.obs.append(last[0])
        return last[0]

    # ------------------------------------------------------------ the oracle (property statement on the real objects)
    def violation(self, sig, idx, observed, expected, what):
        if self.tainted:
            return
        self.nviol = getattr(self, "nviol", 0) + 1
        self.fast = True
        if self.nviol >= 2:
            self.tainted = True      # a history has told its story after two violations: do not keep waiting for more
        self.oracle.append({"sig": sig, "item": idx, "observed": observed, "expected": expected, "what": what})

    def eventually(self, pred, bound=None, gc_retry=True):
        v = wait_until(pred, self.B() if bound is None else bound)
        if not v and gc_retry:
            import gc
            gc.collect()
            v = wait_until(pred, 0.3)
            if v:
                self.stats["needed_gc"] += 1
        return v

    def live_clients(self):
        return [c for c in self.clients.values() if not c.gone and c.sock is not None]

    def check_residue(self, idx):
        """no sockets, descriptors or table entries for departed clients (evaluated when the server's threads have settled)"""
        if self.tainted:
            return
        time.sleep(0)
        self.refill0()
        if self.workers_all_blocked():
            return          # no worker is free (C16's finding F7; c17_no_residue carries the same guard)
        kind = self.cfg["kind"]
        srv = self.srv
        if self.parked_cids and not self.rec.release.is_set():
            return          # a worker the harness itself keeps busy inside a handler cannot have noticed its client's departure yet
        departed = set(c.cid for c in self.clients.values() if c.gone)

        def table_residue():
            o = self.observe()
            bad = []
            for c in o["clients"]:
                if c in departed or c == -1:
                    bad.append(("clients", c))
            for k in ("fdmap", "pollset", "queue"):
                if k == "queue" and srv._closed:
                    continue        # the queue of a closed pool is dead storage (numbers, no sockets); c17_no_residue_closed has the same scope
                for c in o[k]:
                    if c in departed or c == -1:
                        bad.append((k, c))
            for x in o["stale"]:
                if not (x[0] == "queue" and srv._closed):
                    bad.append(tuple(x))
            return bad
        bad = None

        def ok():
            nonlocal bad
            bad = table_residue()
            return not bad
        if not self.eventually(ok):
            where = sorted(set(b[0] for b in bad))
            closed_sock = any(s.fileno() == -1 for s in list(srv.clients))
            sig = "residue:%s:%s" % (kind, "+".join(where)) + (":closed-socket" if where == ["clients"] and closed_sock else "")
            self.violation(sig, idx, observed=repr(bad), expected="no entry for a departed client",
                           what="a table of the server still holds an entry for a client that has left")
        # every established connection of a departed client ran its hook exactly once
        def hooks_ok():
            with self.rec.lock:
                h = dict(self.rec.hooks)
            return all(h.get(c.key, 0) == 1 for c in self.clients.values() if c.gone and c.key is not None)
        if not self.eventually(hooks_ok):
            with self.rec.lock:
                h = dict(self.rec.hooks)
            got = {c.cid: h.get(c.key, 0) for c in self.clients.values() if c.gone and c.key is not None}
            self.violation("hook-count:%s:departed" % kind, idx, observed=got, expected="1 for each",
                           what="on_disconnect did not run exactly once for a connection whose client left")
        if all(c.gone for c in self.clients.values()):
            # descriptors: only the listener (while open) remains; threads: only the server's own
            want = 0 if srv._closed else 1

            def fds_ok():
                return nfds() - self.base_fds == want
            if not self.unstable_baseline and not self.eventually(fds_ok):
                self.violation("descriptors:%s:leak-after-all-clients-left" % kind, idx, observed=nfds() - self.base_fds, expected=want,
                               what="descriptors remain open after every client has left")
            if srv._closed:
                tw = 0
            else:
                tw = 1 + (self.cfg["nw"] + 1 if kind == "pool" else 0)

            def thr_ok():
                return threading.active_count() - self.base_threads == tw
            if not self.unstable_baseline and not self.eventually(thr_ok, gc_retry=False):
                self.violation("threads:%s:left-after-all-clients-left" % kind, idx, observed=threading.active_count() - self.base_threads, expected=tw,
                               what="worker threads remain after every client has left")

    def check_close(self, idx, first, after_close=None, why=None, subject=None, n_before=0):
        """close(): listener stopped, every connected client sees end-of-stream promptly, hooks ran once, nothing left; twice is harmless"""
        if self.tainted or self.job.get("probe") == "c16":
            if not self.tainted:
                t = threading.Thread(target=self.srv.close, daemon=True)
                t.start()
                t.join(self.B())
            return
        kind = self.cfg["kind"]
        srv = self.srv
        before = None
        if not first:
            before = self.observe()
        res = {}

        def run():
            try:
                srv.close()
                res["ok"] = True
            except BaseException as e:
                res["exc"] = repr(e)
        t = threading.Thread(target=run, daemon=True)
        t.start()
        t.join(self.B())
        hung = t.is_alive()
        if after_close is not None:
            after_close()
        self.rec.release.set()          # handlers the harness had parked may go on now
        if why == "authlate" and not hung and subject is not None:
            # evidence, not a timeout: either the client reads end-of-stream, or a connection is set up for it on the closed server
            def settled():
                return subject.sees_eof() or len(self.rec.connects) > n_before
            wait_until(settled, self.B())
            if len(self.rec.connects) > n_before and not subject.eof:
                # a connection was set up after close().  On the thread pool the accept loop itself finishes the handshake, registers the
                # connection and then leaves start(), whose own close() drops what the late accept registered: the client IS disconnected, a
                # moment later.  Judge by what the client ends up with, not by the instant at which we look (vp check run 10, seed 1: the
                # look fell between on_connect and that drop - false alarm of the machinery, corrected).
                if kind == "pool":
                    self.thread.join(self.B())
                wait_until(subject.sees_eof, self.B())
            if len(self.rec.connects) > n_before and not subject.eof:
                self.violation("close-misses-client-in-authentication:%s" % kind, idx,
                               observed={"closed": bool(srv._closed), "connection set up after close()": True, "Server.clients": len(list(srv.clients))},
                               expected="the client is disconnected", what="close() ran while the authenticator (which had replaced the accepted socket) was still "
                               "waiting for the client; the client then finished authenticating and the closed server serves it")
                self.tainted = True
                return
        if why == "race" and not hung:
            # the accept that was held inside its window now finishes; what it registered on the closed server is the evidence
            wait_until(lambda: (not self.thread.is_alive()) or list(srv.clients) or (kind == "pool" and dict(srv.fd_to_conn)), self.B())
            if kind == "pool":
                self.thread.join(self.B())      # start()'s own close() in its `finally` drops what a late accept registered
            kept = len(list(srv.clients)) + (len(dict(srv.fd_to_conn)) if kind == "pool" else 0)
            if kept:
                self.violation("close-misses-connection-being-accepted:%s" % kind, idx, observed={"closed": bool(srv._closed), "clients": len(list(srv.clients)),
                               "fd_to_conn": len(getattr(srv, "fd_to_conn", {}))}, expected="nothing registered after close()",
                               what="a close() that runs between accept()'s `active` test and clients.add(sock) misses the socket: the closed server registers and serves that client")
                self.tainted = True
                return
        if hung:
            self.close_returned = False
        elif "exc" in res:
            self.violation("close-raises:%s:%s" % (kind, res["exc"].split("(")[0]), idx, observed=res["exc"], expected="no exception",
                           what="Server.close() raised" if first else "a second Server.close() raised")
        if not first:
            if hung:
                self.violation("close-does-not-return:%s:second" % kind, idx, observed="still running after %.1fs" % self.B(), expected="returns", what="a second close() does not return")
                return
            after = self.observe()
            keys = ("active", "closed", "lopen", "clients", "fdmap", "fds")
            if any(before[k] != after[k] for k in keys) or not after["closed"]:
                self.violation("second-close-changes-state:%s" % kind, idx, observed={k: after[k] for k in keys}, expected={k: before[k] for k in keys},
                               what="closing twice is not harmless")
            return
        # listener
        if srv.listener.fileno() != -1 or srv.active or not srv._closed:
            self.violation("listener-open-after-close:%s" % kind, idx, observed=[srv.listener.fileno(), srv.active, srv._closed], expected=[-1, False, True],
                           what="the listener is not closed after close()")
        elif self.cfg["transport"] == "unix":
            # (TCP: another process may have been given the freed port meanwhile -- the closed listener descriptor above is the evidence there)
            s = self._raw_connect(0.5)
            if s is not None:
                # a unix/TCP connect must be refused once the listener is gone
                try:
                    s.close()
                except OSError:
                    pass
                self.violation("connect-succeeds-after-close:%s" % kind, idx, observed="connected", expected="refused", what="a new connection is accepted by the OS after close()")
        # every client that is still connected observes end-of-stream promptly
        left = []
        in_handshake = []
        if self.cfg.get("wrap") == "first" and self.cfg["auth"] and not hung:
            # clients the (socket-replacing) authenticator is still waiting for: the server has no handle on their socket
            frames = sys._current_frames()

            def in_auth():
                n = 0
                for f in sys._current_frames().values():
                    while f is not None:
                        if f.f_code.co_name == "detach_first_authenticator":
                            n += 1
                            break
                        f = f.f_back
                return n
            stalled = [c for c in self.live_clients() if c.connected and getattr(c, "auth", AUTH_OK) == AUTH_STALL and not c.accepted]
            if stalled and all(in_auth() > 0 for _ in range(3) if time.sleep(0.1) is None):
                in_handshake = [c for c in stalled if not c.sees_eof()]
            if in_handshake:
                self.violation("close-leaves-client-connected:%s:in-socket-replacing-handshake" % kind, idx,
                               observed=[(c.cid, "connected, authenticator still waiting (thread stacks)") for c in in_handshake],
                               expected="end-of-stream for every connected client",
                               what="close() cannot reach a client that the socket-replacing authenticator is still handshaking with: Server.clients holds only the "
                                    "detached original; the client stays connected to the closed server (pool: the accept thread stays inside the authenticator)")
                self.tainted = True
                return
        for c in self.live_clients():
            if not c.connected:
                continue
            if c.conn is not None:
                # a real rpyc client: its next request must fail with EOFError at once
                try:
                    c.conn.root.echo(1)
                    got = "answered"
                except EOFError:
                    got = "EOFError"
                except Exception as e:
                    got = type(e).__name__
                if got != "EOFError":
                    left.append((c.cid, got))
            elif c.accepted and c.cid not in self.sent and c.cid not in self.stalling and not left:
                # positive evidence instead of a timeout: ask once more -- an ANSWER means the connection is still being served
                got = self.ping_after_close(c)
                if got != "eof":
                    left.append((c.cid, got))
            elif not wait_until(c.sees_eof, self.B() if not left else 0.2):
                left.append((c.cid, "no end-of-stream"))
        if left:
            if why is None and self.cfg.get("wrap") and self.cfg["auth"] and kind in ("threaded", "oneshot"):
                why = "socket-replaced-by-authenticator"
            sig = ("close-misses-connection-being-accepted:%s" % kind) if why == "race" else \
                  "close-leaves-client-connected:%s%s" % (kind, ":" + why if why else "")
            self.violation(sig, idx, observed=left + (["close() itself did not return"] if hung else []),
                           expected="end-of-stream for every connected client",
                           what="Server.close() does not terminate the connections being served: the clients stay connected")
            self.tainted = True       # everything else that is wrong from here on follows from this
            return
        if hung:
            self.violation("close-does-not-return:%s" % kind, idx, observed="close() still running after %.1fs" % self.B(), expected="returns",
                           what="Server.close() does not return")
            self.tainted = True
            return
        # hooks: exactly once for every established connection
        def hooks_ok():
            with self.rec.lock:
                return all(v == 1 for v in self.rec.hooks.values())
        if not self.eventually(hooks_ok):
            with self.rec.lock:
                h = dict(self.rec.hooks)
            self.violation("hook-count:%s:after-close" % kind, idx, observed={self.key_cid.get(k, -1): v for k, v in h.items()}, expected="1 for each",
                           what="on_disconnect did not run exactly once for every served connection after close()")
        # tables, descriptors, threads
        def empty():
            return not list(srv.clients) and not (kind == "pool" and dict(srv.fd_to_conn))
        if not self.eventually(empty):
            self.violation("tables-not-empty-after-close:%s" % kind, idx, observed=[len(srv.clients), len(getattr(srv, "fd_to_conn", {}))], expected=[0, 0],
                           what="Server.clients / fd_to_conn are not empty after close()")
        def fds_ok():
            return nfds() - self.base_fds == sum(1 for c in self.clients.values() if c.sock_open())
        if not self.unstable_baseline and not self.eventually(fds_ok):
            self.violation("descriptors:%s:leak-after-close" % kind, idx, observed=nfds() - self.base_fds,
                           expected=sum(1 for c in self.clients.values() if c.sock_open()), what="the server still holds descriptors after close()")

        def thr_ok():
            return not self.thread.is_alive() and threading.active_count() - self.base_threads == 0
        if not self.unstable_baseline and not self.eventually(thr_ok, gc_retry=False):
            self.violation("threads:%s:alive-after-close" % kind, idx, observed=[self.thread.is_alive(), threading.active_count() - self.base_threads], expected=[False, 0],
                           what="server threads are still running after close()")

    # ------------------------------------------------------------ client actions
    def _raw_connect(self, timeout):
        import socket
        try:
            if self.cfg["transport"] == "unix":
                s = socket.socket(socket.AF_UNIX, socket.SOCK_STREAM)
                s.settimeout(timeout)
                self.nsock += 1
                s.bind(b"\0verif-c17-%d-%d-%d" % (os.getpid(), id(self) & 0xffffff, self.nsock))    # abstract name: the server can tell who is who
                s.connect(self.addr)
            else:
                s = socket.create_connection(self.addr, timeout=timeout)
                s.setsockopt(socket.IPPROTO_TCP, socket.TCP_NODELAY, 1)
            s.settimeout(None)
            return s
        except OSError:
            return None

    def do_connect(self, idx, cid, ckind, auth):
        cl = Client(cid, ckind)
        self.clients[cid] = cl
        if self.cfg["transport"] == "tcp" and self.srv.listener.fileno() == -1:
            s = None        # the port is free for anybody now: whoever answers there is not this server
        else:
            s = self._raw_connect(2.0)
        if s is None:
            cl.gone = True       # refused: the client never existed for the server
            self.replies.append(["refused"])
            self.settle(idx)
            return
        cl.sock, cl.connected = s, True
        cl.auth = auth if self.cfg["auth"] else AUTH_OK
        self.addr_cid[norm_addr(s.getsockname())] = cid
        if self.cfg["auth"] and auth != AUTH_STALL:
            try:
                s.sendall(b"OKAY" if auth == AUTH_OK else b"NOPE")
            except OSError:
                pass
        if ckind == "rpyc":
            import rpyc
            from rpyc.core.stream import SocketStream
            cl.conn = rpyc.connect_stream(SocketStream(s), config={"sync_request_timeout": self.B()})
        self.settle(idx, cid)
        self.attribute(cid)
        wb = (self.job.get("wb") or [False] * len(self.items))[idx]
        cause = None
        if wb and not cl.accepted:
            # a well-behaved client must be accepted: the server gets the full bound, unless its stacks show why it cannot
            def acc():
                self.attribute(cid)
                return cl.accepted
            _, cause = self.await_good(acc, True)
        self.replies.append(["connected", bool(cl.accepted), cause])

    def real_oid(self, target):
        t = tuple(target)
        if t in self.sym2real:
            return self.sym2real[t]
        return ("verif.bogus", 1000 + t[0], 2000 + t[1])

    def ref_serve(self, cid, q, target):
        """the reference semantics of the endpoint (the property's reading of 'own service instance, own table')"""
        owner = cid if self.cfg["cls"] else 0
        inst = self.ref_inst.setdefault(owner, {"cnt": 0, "made": 0})
        tb = self.ref.setdefault(cid, [])
        root = (owner, 0)
        t = tuple(target) if target is not None else None
        if q == QROOT:
            tb.append(root)
            return ["oid", root[0], root[1]]
        if q == QBUMP:
            if t in tb and t == root:
                inst["cnt"] += 1
                return ["val", inst["cnt"]]
            return ["err"]
        if q == QMAKE:
            if t in tb and t == root:
                inst["made"] += 1
                o = (owner, inst["made"])
                tb.append(o)
                return ["oid", o[0], o[1]]
            return ["err"]
        if q == QSTR:
            return ["ok"] if t in tb else ["err"]
        if q == QDEL:
            if t in tb:
                tb.remove(t)
                return ["ok"]
            return ["err"]
        return ["ok"]

    def request_bytes(self, cl, q, target, compressed=False):
        cl.seq += 1
        L = R
        if q == QROOT:
            args = (H["GETROOT"], (L.LABEL_VALUE, ()))
        elif q == QCLOSE:
            args = (H["CLOSE"], (L.LABEL_VALUE, ()))
        else:
            ref = (L.LABEL_LOCAL_REF, self.real_oid(target))
            if q == QBUMP:
                args = (H["CALLATTR"], (L.LABEL_TUPLE, (ref, (L.LABEL_VALUE, "bump"), (L.LABEL_VALUE, ()), (L.LABEL_VALUE, ()))))
            elif q == QMAKE:
                args = (H["CALLATTR"], (L.LABEL_TUPLE, (ref, (L.LABEL_VALUE, "make"), (L.LABEL_VALUE, ()), (L.LABEL_VALUE, ()))))
            elif q == QSTR:
                args = (H["STR"], (L.LABEL_TUPLE, (ref,)))
            else:
                args = (H["DEL"], (L.LABEL_TUPLE, (ref, (L.LABEL_VALUE, 1))))
        return R.frame(R.msg(R.MSG_REQUEST, cl.seq, args), compressed)

    def canon_reply(self, cid, m, want):
        """a decoded message -> canonical reply; run-time object ids are bound to the symbolic ids the reference expects"""
        if m in ("eof", "timeout", "garbled"):
            return [m]
        try:
            kind, seq, body = m
        except Exception:
            return ["garbled"]
        if kind == R.MSG_EXCEPTION:
            return ["err"]
        if kind != R.MSG_REPLY:
            return ["garbled"]
        label, value = body
        if label == R.LABEL_REMOTE_REF:
            real = (str(value[0]), value[1], value[2])
            if real in self.real2sym:
                s = self.real2sym[real]
                return ["oid", s[0], s[1]]
            if want and want[0] == "oid" and (want[1], want[2]) not in self.sym2real:
                self.sym2real[(want[1], want[2])] = real
                self.real2sym[real] = (want[1], want[2])
                return ["oid", want[1], want[2]]
            return ["oid", -1, -1]          # an id the reference does not expect here
        if label == R.LABEL_VALUE:
            if isinstance(value, int) and not isinstance(value, bool):
                return ["val", value]
            return ["ok"]
        return ["garbled"]

    def do_req(self, idx, cid, q, target, compressed=False):
        cl = self.clients[cid]
        want = self.ref_serve(cid, q, target)
        got = None
        if cl.sock is None:
            got = ["eof"]
        else:
            try:
                cl.sock.sendall(self.request_bytes(cl, q, target, compressed))
            except OSError:
                got = ["eof"]
        cause = None
        if got is None:
            wb = (self.job.get("wb") or [False] * len(self.items))[idx]
            exp = (self.job.get("expect_reply") or [True] * len(self.items))[idx]
            box = []

            def answered():
                while True:
                    m = cl.next_message(0)
                    if m == "timeout":
                        return False
                    if isinstance(m, tuple) and len(m) == 3 and (m[0] == R.MSG_REQUEST or m[1] != cl.seq):
                        continue    # the server's own HANDLE_CLOSE, or a reply to an earlier request nobody waited for
                    box.append(m)
                    return True
            ok, cause = self.await_good(answered, wb or exp)
            got = self.canon_reply(cid, box[0], want) if ok else ["timeout"]
        self.replies.append({"got": got, "ref": want, "cause": cause})
        self.settle(idx)

    def workers_all_blocked(self):
        """thread pool: at least nbThreads connected clients have sent an unfinished frame (each occupies a worker for good)"""
        if self.cfg["kind"] != "pool":
            return False
        n = len(self.blockers())
        return n >= self.cfg["nw"]

    def blockers(self):
        out = set(c for c, b in self.sent.items() if c in self.clients and not self.clients[c].gone and pending_incomplete(b))
        out |= set(c for c in self.stalling if c in self.clients and not self.clients[c].gone)
        return out

    def starvation_cause(self):
        """why a well-behaved client of a running thread pool is not being served, read off the server's thread stacks:
        every worker sits in SocketStream.read for a client that sent an unfinished frame, or the accept loop sits in the
        authenticator for a client that has not sent its credentials"""
        if self.cfg["kind"] != "pool" or self.closed_called:
            return None
        frames = sys._current_frames()

        def inside(t, fname, cname):
            f = frames.get(t.ident)
            while f is not None:
                if f.f_code.co_name == cname and f.f_code.co_filename.endswith(fname):
                    return True
                f = f.f_back
            return False
        stalled = [c for c in self.clients.values() if c.connected and not c.gone and getattr(c, "auth", AUTH_OK) == AUTH_STALL]
        if self.cfg["auth"] and stalled and inside(self.thread, "C17.py", "toy_authenticator"):
            return "accept-loop-blocked-by-pending-authentication"
        if 0 in dict(self.srv.fd_to_conn) and 0 in [x for x in list(self.srv._active_connection_queue.queue)] + [0] \
                and not any(inside(t, os.path.join("utils", "server.py"), "_serve_requests") for t in self.srv.workers):
            return "connection-on-descriptor-0-never-served"
        if self.workers_all_blocked() and all(inside(t, os.path.join("utils", "server.py"), "_serve_requests") for t in self.srv.workers):
            if all(inside(t, os.path.join("core", "stream.py"), "read") for t in self.srv.workers) and not (self.blockers() & self.stalling):
                return "workers-blocked-in-unfinished-reads"
            return "workers-blocked-by-stalling-clients"
        return None

    def await_good(self, done, expected):
        """wait until done() is true.  expected: the property / the model says it will happen -> generous bound; otherwise a short
        one.  Returns (value of done(), confirmed cause of starvation or None): the cause must show on three looks 0.2 s apart"""
        t0 = time.monotonic()
        limit = self.B() if expected else QUIET
        streak, last, tlook = 0, None, 0.0
        while True:
            v = done()
            if v:
                return v, None
            now = time.monotonic()
            if now - tlook >= 0.2:
                tlook = now
                cause = self.starvation_cause()
                streak = streak + 1 if (cause is not None and cause == last) else (1 if cause is not None else 0)
                last = cause
                if streak >= 3:
                    return v, cause
            if now - t0 > limit:
                return v, None
            time.sleep(0.005)

    def do_send(self, idx, cid, data):
        cl = self.clients[cid]
        self.sent[cid] = self.sent.get(cid, b"") + data
        if cl.sock is not None:
            try:
                cl.sock.sendall(data)
            except OSError:
                pass
        self.replies.append(None)
        self.settle(idx)

    def do_kill(self, idx, cid):
        """the client makes the server ask IT something (unsolicited reply carrying a remote reference -> the server's nested
        HANDLE_INSPECT request) and answers with an exception record for SystemExit"""
        cl = self.clients[cid]
        got = "no-request"
        if cl.sock is not None:
            try:
                cl.sock.sendall(R.frame(R.msg(R.MSG_REPLY, 7000 + idx, (R.LABEL_REMOTE_REF, ("verif.Evil", 4242, 1000000 + idx))), False))
                box = []

                def asked():
                    while True:
                        m = cl.next_message(0)
                        if m == "timeout":
                            return False
                        if isinstance(m, tuple) and len(m) == 3 and m[0] == R.MSG_REQUEST and m[2][0] == H["INSPECT"]:
                            box.append(m)
                            return True
                        if m in ("eof", "garbled"):
                            box.append(m)
                            return True
                ok, cause = self.await_good(asked, True)
                if ok and isinstance(box[0], tuple):
                    got = "asked"
                    cl.sock.sendall(R.frame(R.msg(R.MSG_EXCEPTION, box[0][1], (("builtins", "SystemExit"), (), (), "tb")), False))
                elif ok:
                    got = box[0]
            except OSError:
                got = "eof"
        self.replies.append(["kill", got])
        self.settle(idx)

    def refill0(self):
        """descriptor 0 is kept occupied (helper processes read their jobs from another number) except while `connect0` hands it to the server"""
        try:
            os.fstat(0)
        except OSError:
            fd = os.open(os.devnull, os.O_RDONLY)
            if fd != 0:
                os.dup2(fd, 0)
                os.close(fd)

    def ping(self, cl, bound=None):
        """-> 'answered' | 'eof' | 'silent'"""
        bound = self.B() if bound is None else bound
        try:
            cl.seq += 1
            cl.sock.sendall(R.frame(R.msg(R.MSG_REQUEST, cl.seq, (H["PING"], (R.LABEL_VALUE, (b"ping",)))), False))
        except (OSError, AttributeError):
            return "eof"
        t0 = time.monotonic()
        while time.monotonic() - t0 < bound:
            m = cl.next_message(0)
            if m == "eof":
                return "eof"
            if isinstance(m, tuple) and len(m) == 3 and m[0] in (R.MSG_REPLY, R.MSG_EXCEPTION) and m[1] == cl.seq:
                return "answered"
            if m == "timeout":
                time.sleep(0.003)
        return "silent"

    def _good_connect(self, cid, want_fd=None):
        cl = Client(cid, "raw")
        self.clients[cid] = cl
        cl.auth = AUTH_OK
        fillers = []
        if want_fd is not None and self.cfg["transport"] == "tcp":
            # steer the kernel: make `want_fd` the lowest free descriptor number when the server's accept() runs
            import socket
            try:
                s = socket.socket(socket.AF_INET, socket.SOCK_STREAM)
                while True:
                    fd = os.dup(s.fileno())
                    if fd >= want_fd:
                        os.close(fd)
                        break
                    fillers.append(fd)
                s.settimeout(5)
                s.connect(self.addr)
                s.settimeout(None)
                s.setsockopt(socket.IPPROTO_TCP, socket.TCP_NODELAY, 1)
            except OSError:
                s = None
        else:
            s = self._raw_connect(5.0)
        if s is None:
            cl.gone = True
            return cl
        cl.sock, cl.connected = s, True
        self.addr_cid[norm_addr(s.getsockname())] = cid
        if self.cfg["auth"]:
            try:
                s.sendall(b"OKAY")
            except OSError:
                pass

        def up():
            self.attribute()
            return cl.accepted
        wait_until(up, self.B())
        for fd in fillers:
            try:
                os.close(fd)
            except OSError:
                pass
        return cl

    def do_hookhold(self, idx, c, d, mode="fin"):
        """client c leaves; while ITS on_disconnect hook is still running (its descriptor number already free) client d connects"""
        old = self.clients[c]
        reached, go = threading.Event(), threading.Event()
        self.rec.hook_hold = (reached, go)
        if old.sock is not None:
            try:
                if mode == "rst":
                    import socket
                    old.sock.setsockopt(socket.SOL_SOCKET, socket.SO_LINGER, struct.pack("ii", 1, 0))
                old.sock.close()
            except OSError:
                pass
        old.sock, old.gone = None, True
        in_hook = reached.wait(self.B() if old.key is not None else 1.0)
        with self.rec.lock:
            old_fd = self.rec.fd_of.get(old.key)
        new = self._good_connect(d, want_fd=old_fd if in_hook else None)
        with self.rec.lock:
            fds = dict(self.rec.fd_of)
        reused = old.key is not None and new.key is not None and fds.get(old.key) is not None and fds.get(old.key) == fds.get(new.key)
        go.set()
        self.rec.hook_hold = None
        self.settle(idx)
        served = None
        if new.accepted and not self.closed_called and not self.workers_all_blocked():
            time.sleep(0.05)
            served = self.ping(new)
            if served != "answered":
                self.violation("good-client-dropped:%s%s" % (self.cfg["kind"], ":descriptor-number-reused" if reused else ""), idx,
                               observed={"newcomer": served, "in the departing client's hook": bool(in_hook), "same descriptor number": bool(reused)},
                               expected="the new client is served",
                               what="a client that connected while a departed client's disconnect hook was still running is dropped when that hook returns "
                                    "(the pool's tables are keyed by descriptor number, and the number had been given to the newcomer)")
                self.tainted = True
        self.replies.append(["hookhold", bool(in_hook), bool(reused), served])
        self.check_residue(idx)

    def do_knock(self, idx, cid):
        """a client that connects and resets at once: the listener hands out a socket whose peer is already gone"""
        import socket
        cl = Client(cid, "raw")
        self.clients[cid] = cl
        cl.auth = AUTH_OK
        s = self._raw_connect(5.0)
        if s is not None:
            try:
                self.addr_cid[norm_addr(s.getsockname())] = cid
                s.setsockopt(socket.SOL_SOCKET, socket.SO_LINGER, struct.pack("ii", 1, 0))
                s.close()
            except OSError:
                pass
        cl.gone = True
        self.replies.append(["knock"])
        time.sleep(0.05)
        self.settle(idx)
        if self.cfg["kind"] == "oneshot" and not self.tainted and self.job.get("probe") != "c16":
            # (the kernel may drop a reset connection before accept() sees it: then nothing was handed out and the server still waits)
            wait_until(lambda: bool(self.handed), 1.0)
            if self.handed:
                def down():
                    return self.srv._closed and not self.srv.active and self.srv.listener.fileno() == -1 and not self.thread.is_alive()
                if not self.eventually(down, gc_retry=False):
                    self.violation("oneshot-not-closed-after-its-client-left", idx, observed=[self.srv._closed, self.srv.active, self.thread.is_alive(), len(self.handed)],
                                   expected=[True, False, False], what="a one-shot server went on accepting after the one connection it was handed had ended "
                                                                       "(a client that reset before it was set up IS the one shot)")
                    self.tainted = True

    def do_classref(self, idx, cid):
        """the client shows the server a CLASS of its own (a remote reference whose id pack names a class): the server must ask THIS client
        what the class looks like -- what another connection said about a class of that name is none of this connection's business"""
        cl = self.clients[cid]
        asked = None
        if cl.sock is not None:
            try:
                cl.sock.sendall(R.frame(R.msg(R.MSG_REPLY, 7100 + idx, (R.LABEL_REMOTE_REF, ("verif.SharedName", 424242, 0))), False))
                cl.seq += 1
                ping_seq = cl.seq
                cl.sock.sendall(R.frame(R.msg(R.MSG_REQUEST, ping_seq, (H["PING"], (R.LABEL_VALUE, (b"after",)))), False))
                t0 = time.monotonic()
                while time.monotonic() - t0 < self.B():
                    m = cl.next_message(0)
                    if m in ("eof", "garbled"):
                        asked = m
                        break
                    if isinstance(m, tuple) and len(m) == 3:
                        if m[0] == R.MSG_REQUEST and m[2][0] == H["INSPECT"]:
                            asked = True
                            cl.sock.sendall(R.frame(R.msg(R.MSG_REPLY, m[1], (R.LABEL_VALUE, (("method_of_client_%d" % cid, "doc"),))), False))
                        elif m[0] in (R.MSG_REPLY, R.MSG_EXCEPTION) and m[1] == ping_seq:
                            if asked is None:
                                asked = False       # the frame BEFORE the ping was processed without a question to this client
                            break
                    elif m == "timeout":
                        time.sleep(0.003)
            except OSError:
                asked = "eof"
        if asked is False:
            self.violation("class-description-from-another-connection:%s" % self.cfg["kind"], idx, observed="the server did not ask this client about the class it showed",
                           expected="HANDLE_INSPECT sent to this client",
                           what="a connection uses what ANOTHER connection said about a class of the same name and id (per-connection state shared between clients)")
            self.tainted = True
        self.replies.append(["classref", asked])
        self.settle(idx)

    def do_nospawn(self, idx, cid):
        """a client connects while the process cannot start another thread (the per-user thread/process limit is reached by idle connections):
        rpyc.lib.spawn -- threading.Thread.start -- fails once with RuntimeError("can't start new thread"), as it does at RLIMIT_NPROC"""
        import rpyc.utils.server as SV
        real = SV.spawn
        fired = []

        def failing(*a, **k):
            if not fired:
                fired.append(1)
                raise RuntimeError("can't start new thread")
            return real(*a, **k)
        SV.spawn = failing
        try:
            cl = Client(cid, "raw")
            self.clients[cid] = cl
            cl.auth = AUTH_OK
            s = self._raw_connect(5.0)
            if s is not None:
                cl.sock, cl.connected = s, True
                self.addr_cid[norm_addr(s.getsockname())] = cid
            wait_until(lambda: bool(fired) , self.B())
            time.sleep(0.05)
            wait_until(lambda: not self.thread.is_alive(), 0.5)
        finally:
            SV.spawn = real
        if fired and (not self.thread.is_alive() or not self.srv.active) and not self.closed_called:
            self.violation("accept-loop-ended-on-spawn-failure:%s" % self.cfg["kind"], idx,
                           observed={"accept thread alive": self.thread.is_alive(), "active": bool(self.srv.active), "closed": bool(self.srv._closed)},
                           expected="the server gives that one client up and keeps running",
                           what="starting the worker thread for a new client failed (thread limit reached): the exception leaves accept(), start() closes the server "
                                "and every client is thrown out")
            self.tainted = True
        self.replies.append(["nospawn", bool(fired)])
        self.settle(idx, cid)

    def do_connect0(self, idx, cid):
        """a well-behaved client whose server-side socket gets descriptor number 0"""
        import socket
        cl = Client(cid, "raw")
        self.clients[cid] = cl
        cl.auth = AUTH_OK
        try:
            if self.cfg["transport"] == "unix":
                s = socket.socket(socket.AF_UNIX, socket.SOCK_STREAM)
                self.nsock += 1
                s.bind(b"\0verif-c17-%d-%d-%d" % (os.getpid(), id(self) & 0xffffff, self.nsock))
            else:
                s = socket.socket(socket.AF_INET, socket.SOCK_STREAM)
            if self.cfg["transport"] == "tcp":
                # (a unix listener has no timeout: its blocking accept() reserved a descriptor number when it was entered -- nothing to hand over)
                os.close(0)                  # the lowest free number is 0 now: accept() will hand it to the server
            s.settimeout(5)
            s.connect(self.addr)
            s.settimeout(None)
            cl.sock, cl.connected = s, True
            self.addr_cid[norm_addr(s.getsockname())] = cid
            if self.cfg["auth"]:
                s.sendall(b"OKAY")
        except OSError:
            cl.gone = True

        def up():
            self.attribute()
            return cl.accepted
        wait_until(up, self.B())
        with self.rec.lock:
            fd = self.rec.fd_of.get(cl.key)
        self.refill0()
        if fd != 0 or not self.thread.is_alive():
            # the descriptor juggling did not come out as intended (somebody else took number 0, or the accept loop tripped over it):
            # nothing in this history is judged from here on -- this op is about a client ON descriptor 0, nothing else
            self.tainted = True
            self.stats["connect0_unreliable"] = self.stats.get("connect0_unreliable", 0) + 1
            self.replies.append(["connect0-unreliable", fd])
            self.obs.append(None)
            return
        self.replies.append(["connected", bool(cl.accepted), None, fd])
        self.settle(idx, cid)

    def do_authlate(self, idx, cid):
        """a client is still in the authenticator's hands (which has replaced the accepted socket) when close() runs; it finishes authenticating afterwards"""
        cl = Client(cid, "raw")
        self.clients[cid] = cl
        cl.auth = AUTH_STALL
        s = self._raw_connect(5.0)
        if s is None:
            cl.gone = True
            self.replies.append(["refused"])
            self.settle(idx)
            return
        cl.sock, cl.connected = s, True
        self.addr_cid[norm_addr(s.getsockname())] = cid
        # the accept loop has handed it to its worker / the authenticator
        wait_until(lambda: len(self.srv.clients.log) > 0 and any(n == norm_addr(s.getsockname()) for _, n in list(self.srv.clients.log)), self.B())
        time.sleep(0.05)
        n0 = len(self.rec.connects)

        def finish_auth():
            try:
                s.sendall(b"OKAY")
            except OSError:
                pass
        first = not self.closed_called
        self.closed_called = True
        self.check_close(idx, first, after_close=finish_auth, why="authlate", subject=cl, n_before=n0)
        self.replies.append(["authlate"])
        self.settle(idx)

    def do_twin(self, idx, a, b):
        """two clients connect at the same time: the first one's worker is held inside the service constructor (between the server's
        preparation of the connection's configuration and Connection.__init__) until the second one's connection is set up"""
        reached, go = threading.Event(), threading.Event()
        self.rec.ctor_hold = (reached, go)
        cls = []
        for cid in (a, b):
            cl = Client(cid, "raw")
            self.clients[cid] = cl
            cl.auth = AUTH_OK
            s = self._raw_connect(5.0)
            if s is None:
                cl.gone = True
            else:
                cl.sock, cl.connected = s, True
                self.addr_cid[norm_addr(s.getsockname())] = cid
                if self.cfg["auth"]:
                    try:
                        s.sendall(b"OKAY")
                    except OSError:
                        pass
            cls.append(cl)
            if cid == a:
                reached.wait(self.B())           # a's worker is inside the constructor
            else:
                def up():
                    self.attribute()
                    return cl.accepted
                wait_until(up, self.B())         # b's connection exists
        go.set()
        self.rec.ctor_hold = None
        self.replies.append(["twin"])
        self.settle(idx)
        self.check_configs(idx)

    def check_configs(self, idx):
        """every connection was created with ITS OWN configuration: the endpoints and credentials of the socket it runs on"""
        with self.rec.lock:
            cf = dict(self.rec.config_of)
        for key, (real, told, cred) in sorted(cf.items()):
            if real is None:
                continue
            bad = told != real or (self.cfg["auth"] and cred != repr(real))
            if bad:
                self.violation("connection-configured-for-another-client:%s" % self.cfg["kind"], idx,
                               observed={"socket peer": repr(real), "config endpoints peer": repr(told), "config credentials": cred},
                               expected="the connection's own peer and credentials",
                               what="a connection set up while another client was connecting carries that other client's endpoints / credentials in its configuration")
                self.tainted = True
                return

    def do_park(self, idx, cid):
        """the client calls a method that does not return until the harness says so: its worker is busy, not reading the socket"""
        cl = self.clients[cid]
        with self.rec.lock:
            before = self.rec.parked
        if cl.sock is not None:
            try:
                root = self.real_oid((cid if self.cfg["cls"] else 0, 0))
                cl.seq += 1
                args = (H["CALLATTR"], (R.LABEL_TUPLE, ((R.LABEL_LOCAL_REF, root), (R.LABEL_VALUE, "park"), (R.LABEL_VALUE, ()), (R.LABEL_VALUE, ()))))
                cl.sock.sendall(R.frame(R.msg(R.MSG_REQUEST, cl.seq, args), False))
            except OSError:
                pass
        wait_until(lambda: self.rec.parked > before, self.B())
        self.stalling.add(cid)
        self.parked_cids.add(cid)
        self.sent[cid] = self.sent.get(cid, b"")
        self.replies.append(["park", self.rec.parked > before])
        self.settle(idx)

    def do_stall(self, idx, cid):
        """the client makes the server ask IT something (unsolicited reply with a remote reference -> nested HANDLE_INSPECT) and never answers"""
        cl = self.clients[cid]
        if cl.sock is not None:
            try:
                cl.sock.sendall(R.frame(R.msg(R.MSG_REPLY, 7000 + idx, (R.LABEL_REMOTE_REF, ("verif.Mute", 4343, 2000000 + idx))), False))
            except OSError:
                pass
        self.stalling.add(cid)
        self.sent[cid] = self.sent.get(cid, b"")
        self.replies.append(["stall"])
        self.settle(idx)

    def do_logbomb(self, idx, cid):
        """a request that fails in its handler (one argument too many) and carries an object of the CLIENT's by reference; the client then says
        nothing more.  Whatever the server does with that failure - answering it, logging it - must not make it wait for this client while it
        holds something its other threads need (seed C16-r9m2: the arguments' repr, a request to the silent client, inside the log handler's lock)"""
        cl = self.clients[cid]
        if cl.sock is not None:
            try:
                cl.seq += 1
                args = (R.LABEL_TUPLE, ((R.LABEL_REMOTE_REF, ("builtins.list", 4343, 3000000 + idx)), (R.LABEL_VALUE, "append"), (R.LABEL_VALUE, 1)))
                cl.sock.sendall(R.frame(R.msg(R.MSG_REQUEST, cl.seq, (H["GETATTR"], args)), False))
            except OSError:
                pass
        self.replies.append(["logbomb"])
        self.settle(idx)

    def do_emfile(self, idx, cid):
        """a client connects while the process has no descriptor left: accept() fails with EMFILE until the limit is lifted again"""
        import resource, socket
        cl = Client(cid, "raw")
        self.clients[cid] = cl
        cl.auth = AUTH_OK
        fillers = []
        soft, hard = resource.getrlimit(resource.RLIMIT_NOFILE)
        died = False
        try:
            if self.cfg["transport"] == "unix":
                s = socket.socket(socket.AF_UNIX, socket.SOCK_STREAM)
                self.nsock += 1
                s.bind(b"\0verif-c17-%d-%d-%d" % (os.getpid(), id(self) & 0xffffff, self.nsock))
            else:
                s = socket.socket(socket.AF_INET, socket.SOCK_STREAM)
            top = max(int(x) for x in os.listdir("/proc/self/fd"))
            while True:                      # no free descriptor number below the limit we are about to set
                fd = os.dup(0)
                fillers.append(fd)
                if fd > top:
                    top = fd
                    break
            resource.setrlimit(resource.RLIMIT_NOFILE, (top + 1, hard))
            try:
                s.settimeout(5)
                s.connect(self.addr)
                s.settimeout(None)
                cl.sock, cl.connected = s, True
                if self.cfg["auth"]:
                    s.sendall(b"OKAY")
            except OSError:
                cl.gone = True
            # the accept loop now meets EMFILE; give it a moment (a dead accept thread stays dead: that is the verdict, not the time)
            t0 = time.monotonic()
            while time.monotonic() - t0 < 1.0 and self.thread.is_alive():
                time.sleep(0.01)
            died = not self.thread.is_alive()
        finally:
            resource.setrlimit(resource.RLIMIT_NOFILE, (soft, hard))
            for fd in fillers:
                try:
                    os.close(fd)
                except OSError:
                    pass
        if cl.sock is not None:
            try:
                self.addr_cid[norm_addr(cl.sock.getsockname())] = cid
            except OSError:
                pass
        if (died or not self.srv.active) and not self.closed_called:
            self.violation("accept-loop-ended-on-oserror:%s" % self.cfg["kind"], idx, observed={"accept thread alive": self.thread.is_alive(), "active": bool(self.srv.active), "closed": bool(self.srv._closed)},
                           expected="the server keeps running and accepts the client once a descriptor is free",
                           what="accept() failed with EMFILE (descriptor limit reached by connections): the accept loop ended and start() closed the server, throwing every client out")
            self.tainted = True
        self.replies.append(["emfile", died])
        self.settle(idx, cid)

    def do_race(self, idx, cid):
        """close() runs to completion while accept() is between `if not self.active: return` and `self.clients.add(sock)`"""
        cl = Client(cid, "raw")
        self.clients[cid] = cl
        cl.auth = AUTH_OK
        reached, go = threading.Event(), threading.Event()
        self.srv.clients.hold = (reached, go)
        s = self._raw_connect(5.0)
        if s is None:
            cl.gone = True
            self.srv.clients.hold = None
            self.replies.append(["refused"])
            self.settle(idx)
            return
        cl.sock, cl.connected = s, True
        self.addr_cid[norm_addr(s.getsockname())] = cid
        if self.cfg["auth"]:
            try:
                s.sendall(b"OKAY")
            except OSError:
                pass
        busy_inline = self.cfg["kind"] == "oneshot" and len(self.rec.connects) > 0     # a one-shot server serving somebody never gets to accept
        in_window = reached.wait(1.0 if busy_inline else self.B())
        first = not self.closed_called
        self.closed_called = True
        self.check_close(idx, first, after_close=go.set, why="race" if in_window else None)
        go.set()
        self.replies.append(["race", bool(in_window)])
        self.settle(idx)

    def do_call(self, idx, cid, n):
        cl = self.clients[cid]
        try:
            got = cl.conn.root.echo(n)
        except EOFError:
            got = "EOFError"
        except Exception as e:
            got = type(e).__name__
        self.replies.append({"got": got, "ref": n})
        self.settle(idx)

    def do_leave(self, idx, cid, mode):
        import socket
        cl = self.clients[cid]
        if cl.sock is not None:
            try:
                if mode == "rst":
                    cl.sock.setsockopt(socket.SOL_SOCKET, socket.SO_LINGER, struct.pack("ii", 1, 0))
                    cl.sock.close()
                elif mode == "close":
                    if cl.conn is not None:
                        cl.conn.close()
                    else:
                        try:
                            cl.sock.sendall(self.request_bytes(cl, QCLOSE, None))
                        except OSError:
                            pass
                        exp_pre = (self.job.get("expect_pre") or {}).get(str(idx))
                        if exp_pre is not None:
                            def reached():
                                self.attribute()
                                return not self.matches(self.observe(), exp_pre)
                            wait_until(reached, self.B())
                        else:
                            time.sleep(0.3)
                        cl.sock.close()
                else:
                    cl.sock.close()
            except OSError:
                pass
            if cl.conn is not None and mode != "close":
                # drop the rpyc object without sending anything more
                try:
                    cl.conn._closed = True
                except Exception:
                    pass
        cl.sock = None
        cl.gone = True
        self.replies.append(None)
        self.settle(idx)
        self.check_oneshot(idx, cl)
        self.check_residue(idx)

    def check_oneshot(self, idx, cl):
        """a one-shot server serves exactly one connection and then shuts itself down"""
        if self.cfg["kind"] != "oneshot" or self.tainted or self.job.get("probe") == "c16":
            return
        with self.rec.lock:
            n = len(self.rec.connects)
        if n > 1:
            self.violation("oneshot-served-second-connection", idx, observed=n, expected="at most 1", what="a one-shot server set up more than one connection")
        if cl.accepted:
            def down():
                return self.srv._closed and not self.srv.active and self.srv.listener.fileno() == -1 and not self.thread.is_alive()
            if not self.eventually(down, gc_retry=False):
                self.violation("oneshot-not-closed-after-its-client-left", idx, observed=[self.srv._closed, self.srv.active, self.thread.is_alive()],
                               expected=[True, False, False], what="a one-shot server did not shut itself down after serving its one connection")
                self.tainted = True

    def ping_after_close(self, cl):
        """-> 'eof' | 'answered' | 'no end-of-stream'"""
        try:
            cl.seq += 1
            cl.sock.sendall(R.frame(R.msg(R.MSG_REQUEST, cl.seq, (H["PING"], (R.LABEL_VALUE, (b"still there?",)))), False))
        except OSError:
            return "eof"
        t0 = time.monotonic()
        while time.monotonic() - t0 < self.B():
            m = cl.next_message(0)
            if m == "eof":
                return "eof"
            if isinstance(m, tuple) and len(m) == 3 and m[0] in (R.MSG_REPLY, R.MSG_EXCEPTION) and m[1] == cl.seq:
                return "answered"
            if m == "timeout":
                time.sleep(0.003)
        return "no end-of-stream"

    def do_srvclose(self, idx):
        first = not self.closed_called
        self.closed_called = True
        self.check_close(idx, first)
        self.replies.append(None)
        self.settle(idx)
        if first and self.close_returned:
            self.check_residue(idx)

    # ------------------------------------------------------------ run
    def run(self):
        self.start()
        try:
            for idx, it in enumerate(self.items):
                op = it[0]
                if op == "connect":
                    self.do_connect(idx, it[1], it[2], it[3])
                elif op == "req":
                    self.do_req(idx, it[1], it[2], it[3], bool(it[4]) if len(it) > 4 else False)
                elif op == "send":
                    self.do_send(idx, it[1], bytes.fromhex(it[2]))
                elif op == "call":
                    self.do_call(idx, it[1], it[2])
                elif op == "kill":
                    self.do_kill(idx, it[1])
                elif op == "stall":
                    self.do_stall(idx, it[1])
                elif op == "logbomb":
                    self.do_logbomb(idx, it[1])
                elif op == "twin":
                    self.do_twin(idx, it[1], it[2])
                elif op == "nospawn":
                    self.do_nospawn(idx, it[1])
                elif op == "knock":
                    self.do_knock(idx, it[1])
                elif op == "classref":
                    self.do_classref(idx, it[1])
                elif op == "hookhold":
                    self.do_hookhold(idx, it[1], it[2], it[3] if len(it) > 3 else "fin")
                elif op == "connect0":
                    self.do_connect0(idx, it[1])
                elif op == "authlate":
                    self.do_authlate(idx, it[1])
                elif op == "park":
                    self.do_park(idx, it[1])
                elif op == "emfile":
                    self.do_emfile(idx, it[1])
                elif op == "race":
                    self.do_race(idx, it[1])
                elif op == "leave":
                    self.do_leave(idx, it[1], it[2])
                elif op == "srvclose":
                    self.do_srvclose(idx)
                self.refill0()
                self.extra_checks(idx, it)
                if self.failed_good_client(idx) or (self.tainted and self.job.get("probe") == "c16"):
                    break       # the rest of the history would only wait for the same missing answers
        finally:
            self.stop()
        return {"id": self.job.get("id"), "obs": self.obs, "replies": self.replies, "oracle": self.oracle, "mismatch": self.mismatch,
                "stats": self.stats, "thread_errors": [list(x) for x in THREAD_ERRORS], "unstable_baseline": bool(getattr(self, "unstable_baseline", False))}

    def failed_good_client(self, idx):
        wb = (self.job.get("wb") or [False] * len(self.items))[idx]
        rep = self.replies[idx] if idx < len(self.replies) else None
        if not wb or rep is None:
            return False
        if isinstance(rep, dict):
            return rep["got"] != rep["ref"]
        if isinstance(rep, list) and rep and rep[0] == "connected":
            return not rep[1]
        return False

    def extra_checks(self, idx, it):
        """hook for C16 (liveness of the accept loop and of well-behaved clients after every hostile event)"""
        chk = self.job.get("probe")
        if chk:
            chk_fn = PROBES.get(chk)
            if chk_fn:
                chk_fn(self, idx, it)


PROBES = {}


def close_before_start(job):
    """close() on a server that was created but never started, twice"""
    import tempfile, shutil
    from rpyc.utils import server as SV
    import rpyc
    kind = job["cfg"]["kind"]
    cls = {"threaded": SV.ThreadedServer, "pool": SV.ThreadPoolServer, "oneshot": SV.OneShotServer}[kind]
    oracle = []
    srv = cls(rpyc.Service, hostname="127.0.0.1", port=0, logger=_quiet_logger())
    for n in (1, 2):
        try:
            srv.close()
        except Exception as e:
            oracle.append({"sig": "close-before-start-raises:%s:%s" % (kind, type(e).__name__), "item": 0, "observed": repr(e), "expected": "no exception",
                           "what": "close() on a server that was never started raises (%s call)" % ("first" if n == 1 else "second")})
            break
    try:
        srv.listener.close()
    except Exception:
        pass
    return {"id": job.get("id"), "obs": [], "replies": [], "oracle": oracle, "mismatch": [], "stats": {}, "thread_errors": []}


def run_job(job):
    if job.get("special") == "close-before-start":
        return close_before_start(job)
    t0 = time.monotonic()
    res = History(job).run()
    res["wall"] = round(time.monotonic() - t0, 2)
    return res


def worker_main():
    """helper process: one JSON job per line on stdin, one JSON result per line on stdout"""
    out = os.fdopen(os.dup(1), "w")
    os.dup2(2, 1)                      # anything printed by library code goes to stderr
    threading.excepthook = _thread_excepthook
    try:
        import harness.C16  # noqa: F401  (registers its probes)
    except Exception:
        pass
    jobs_in = os.fdopen(os.dup(0), "r")     # descriptor 0 itself is handed to the server by `connect0`; it is otherwise kept on /dev/null
    nul = os.open(os.devnull, os.O_RDONLY)
    os.dup2(nul, 0)
    os.close(nul)
    for line in jobs_in:
        line = line.strip()
        if not line:
            continue
        job = json.loads(line)
        try:
            if job["cfg"]["kind"] == "forking":
                res = run_forking_job(job)
            else:
                res = run_job(job)
        except BaseException as e:
            import traceback
            res = {"id": job.get("id"), "crash": traceback.format_exc()[-1500:]}
        out.write(json.dumps(res, default=repr) + "\n")
        out.flush()


class Farm:
    """a few helper processes running jobs"""

    def __init__(self, n):
        env = dict(os.environ)
        env["PYTHONPATH"] = C.VERIF + ":" + C.REPO
        env["PYTHONHASHSEED"] = "0"
        env["PYTHONDONTWRITEBYTECODE"] = "1"
        self.errlog = open(os.path.join(C.BUILD, "c17-workers.log"), "ab")
        self.procs = [subprocess.Popen([sys.executable, "-c", "from harness import C17; C17.worker_main()"], stdin=subprocess.PIPE,
                                       stdout=subprocess.PIPE, stderr=self.errlog, env=env, cwd=C.VERIF) for _ in range(n)]

    def map(self, jobs, is_failure=None):
        """is_failure(job, result): once a failure has been established the remaining histories use the short bound"""
        results = [None] * len(jobs)
        lock = threading.Lock()
        nxt = [0]
        fast = [False]
        nfail = [0]

        def feed(p):
            while True:
                with lock:
                    i = nxt[0]
                    nxt[0] += 1
                if i >= len(jobs):
                    return
                if nfail[0] >= 12:
                    results[i] = {"skipped": True}      # the failure is established many times over: do not spend minutes on more of it
                    continue
                try:
                    if fast[0]:
                        jobs[i]["fast"] = True
                    p.stdin.write((json.dumps(jobs[i]) + "\n").encode())
                    p.stdin.flush()
                    line = p.stdout.readline()
                    results[i] = json.loads(line) if line else {"crash": "helper process died"}
                    if is_failure is not None and is_failure(jobs[i], results[i]):
                        fast[0] = True
                        nfail[0] += 1
                except Exception as e:
                    results[i] = {"crash": "helper: %r" % (e,)}
                    return
        ths = [threading.Thread(target=feed, args=(p,)) for p in self.procs]
        for t in ths:
            t.start()
        for t in ths:
            t.join()
        return results

    def close(self):
        for p in self.procs:
            try:
                p.stdin.close()
            except Exception:
                pass
        for p in self.procs:
            try:
                p.wait(5)
            except Exception:
                p.kill()
        self.errlog.close()


# ================================================================= the forking server (a process of its own)

FORK_SERVER_SRC = r'''
import os, signal, sys, json, time
sys.path.insert(0, %(repo)r)
import rpyc
from rpyc.utils.server import ForkingServer
import logging
lg = logging.getLogger("f"); lg.addHandler(logging.NullHandler()); lg.propagate = False; lg.setLevel(100)
hookfile = %(hookfile)r
class Svc(rpyc.Service):
    def on_connect(self, conn):
        with open(hookfile, "a") as f: f.write("c %%d\n" %% os.getpid())
    def on_disconnect(self, conn):
        with open(hookfile, "a") as f: f.write("d %%d\n" %% os.getpid())
    def exposed_echo(self, x): return x
srv = ForkingServer(Svc, hostname="127.0.0.1", port=0, logger=lg)
def on_usr1(sig, frm):
    t0 = time.time()
    srv.close()
    srv.close()
    with open(hookfile, "a") as f: f.write("closed %%d %%d %%.3f\n" %% (len(srv.clients), srv.listener.fileno(), time.time() - t0))
signal.signal(signal.SIGUSR1, on_usr1)
srv._listen()
sys.stdout.write(json.dumps({"port": srv.port, "pid": os.getpid()}) + "\n"); sys.stdout.flush()
try:
    while srv.active:
        srv.accept()
except EOFError:
    pass
with open(hookfile, "a") as f: f.write("loop-ended\n")
time.sleep(%(linger)r)
'''


def run_forking_job(job):
    """scripted scenario against a real ForkingServer in its own process: items are connect / call / leave / srvclose"""
    import tempfile, shutil, socket, signal
    import rpyc
    from rpyc.core.stream import SocketStream
    B = FAST if job.get("fast") else BOUND
    tmp = tempfile.mkdtemp(prefix="c17f-")
    hookfile = os.path.join(tmp, "hooks")
    open(hookfile, "w").close()
    src = FORK_SERVER_SRC % {"repo": C.REPO, "hookfile": hookfile, "linger": 0.2}
    p = subprocess.Popen([sys.executable, "-c", src], stdout=subprocess.PIPE, stderr=subprocess.DEVNULL, start_new_session=True)
    oracle, log = [], []
    conns = {}
    raws = []
    try:
        info = json.loads(p.stdout.readline())
        port = info["port"]
        try:
            base_parent_fds = len(os.listdir("/proc/%d/fd" % info["pid"]))
        except OSError:
            base_parent_fds = 10 ** 6

        def hooks():
            return open(hookfile).read().split("\n")
        closed = False
        for idx, it in enumerate(job["items"]):
            op = it[0]
            if op == "connect":
                try:
                    s = socket.create_connection(("127.0.0.1", port), timeout=2)
                    s.settimeout(None)
                    conns[it[1]] = rpyc.connect_stream(SocketStream(s), config={"sync_request_timeout": B})
                    n0 = sum(1 for l in hooks() if l.startswith("c "))
                    log.append("connected")
                except OSError:
                    log.append("refused")
            elif op == "call":
                try:
                    log.append(conns[it[1]].root.echo(it[2]))
                except EOFError:
                    log.append("EOFError")
                except Exception as e:
                    log.append(type(e).__name__)
                if not closed and log[-1] != it[2]:
                    oracle.append({"sig": "good-client-unanswered:forking", "item": idx, "observed": log[-1], "expected": it[2],
                                   "what": "a well-behaved client of the forking server is not answered"})
            elif op == "hostile":
                # a raw client sends hostile bytes (and stays, closes, or resets); then a fresh well-behaved client must be served
                try:
                    hs = socket.create_connection(("127.0.0.1", port), timeout=2)
                    hs.sendall(bytes.fromhex(it[2]))
                    if it[3] == "rst":
                        hs.setsockopt(socket.SOL_SOCKET, socket.SO_LINGER, struct.pack("ii", 1, 0))
                    if it[3] in ("fin", "rst"):
                        hs.close()
                    else:
                        raws.append(hs)
                    log.append("sent")
                except OSError:
                    log.append("refused")
                if not closed:
                    got = None
                    try:
                        ps = socket.create_connection(("127.0.0.1", port), timeout=2)
                        ps.settimeout(None)
                        pc = rpyc.connect_stream(SocketStream(ps), config={"sync_request_timeout": B})
                        got = pc.root.echo(4711)
                        pc.close()
                    except Exception as e:
                        got = type(e).__name__
                    if got != 4711:
                        oracle.append({"sig": "good-client-unanswered:forking", "item": idx, "observed": got, "expected": 4711,
                                       "what": "after a hostile client, a fresh well-behaved client of the forking server is not served"})
            elif op == "leave":
                c = conns.pop(it[1], None)
                if c is not None:
                    c.close()
                log.append("left")
            elif op == "leavepair":
                # two clients leave while the parent is not running (SIGSTOP stands for a parent that is busy / has the signal deferred):
                # both children end, their SIGCHLDs coalesce into ONE pending signal; when the parent runs again its handler must reap both
                os.kill(info["pid"], signal.SIGSTOP)
                try:
                    for cid in it[1:3]:
                        c = conns.pop(cid, None)
                        if c is not None:
                            c.close()
                    log.append("left2")
                    wait_until(lambda: child_states(info["pid"]).count("Z") >= 2, 5.0)
                finally:
                    os.kill(info["pid"], signal.SIGCONT)
                if not wait_until(lambda: child_states(info["pid"]).count("Z") == 0, B):
                    oracle.append({"sig": "residue:forking:zombie-children", "item": idx, "observed": child_states(info["pid"]), "expected": "no defunct child",
                                   "what": "children of the forking server whose clients have left stay defunct in the server's process table (two ended while "
                                           "the parent was not running: one SIGCHLD, the handler must reap every ended child)"})
            elif op == "srvclose":
                os.kill(info["pid"], signal.SIGUSR1)
                ok = wait_until(lambda: any(l.startswith("closed ") for l in hooks()), B)
                closed = True
                log.append("closed" if ok else "close-not-finished")
                if ok:
                    # what the parent reported right after close(); close(): Server.clients empty, listener descriptor gone
                    parts = [l for l in hooks() if l.startswith("closed ")][0].split()
                    if parts[1] != "0" or parts[2] != "-1":
                        oracle.append({"sig": "tables-not-empty-after-close:forking", "item": idx, "observed": parts[1:3], "expected": ["0", "-1"],
                                       "what": "the forking server's parent still holds client sockets or its listener after close()"})
                    try:
                        def pfds():
                            return len(os.listdir("/proc/%d/fd" % info["pid"]))
                        wait_until(lambda: pfds() <= base_parent_fds - 1, B)
                        nfd = pfds()
                        if nfd > base_parent_fds - 1:
                            oracle.append({"sig": "descriptors:forking:parent-leak-after-close", "item": idx, "observed": nfd, "expected": "<= %d" % (base_parent_fds - 1),
                                           "what": "the forking server's parent holds more descriptors after close() than before it accepted anybody (minus the listener)"})
                    except OSError:
                        pass
                if not ok:
                    oracle.append({"sig": "close-does-not-return:forking", "item": idx, "observed": "no report", "expected": "close returns", "what": "ForkingServer.close() did not finish"})
                # every connected client must now see end-of-stream
                left = []
                for cid, c in sorted(conns.items()):
                    try:
                        c.root.echo(1)
                        left.append((cid, "answered"))
                    except EOFError:
                        pass
                    except Exception as e:
                        left.append((cid, type(e).__name__))
                if left:
                    oracle.append({"sig": "close-leaves-client-connected:forking", "item": idx, "observed": left,
                                   "expected": "end-of-stream for every connected client",
                                   "what": "ForkingServer.close() does not reach the connections served by its child processes: the clients stay connected and served"})
                else:
                    nd = lambda: sum(1 for l in hooks() if l.startswith("d "))
                    nc = sum(1 for l in hooks() if l.startswith("c "))
                    if not wait_until(lambda: nd() == nc, B):
                        oracle.append({"sig": "hook-count:forking:after-close", "item": idx, "observed": [nc, nd()], "expected": "equal",
                                       "what": "on_disconnect did not run once per served connection after close()"})
        # departed clients: their child ran the hook once and ended -- and has been reaped by the parent
        if not closed and not wait_until(lambda: child_states(info["pid"]).count("Z") == 0, B):
            oracle.append({"sig": "residue:forking:zombie-children", "item": len(job["items"]), "observed": child_states(info["pid"]), "expected": "no defunct child",
                           "what": "children of the forking server whose clients have left stay defunct in the server's process table"})
        ndep = sum(1 for x in log if x == "left") + 2 * sum(1 for x in log if x == "left2")
        if not closed and not any(it[0] == "hostile" for it in job["items"]):
            nd = lambda: sum(1 for l in hooks() if l.startswith("d "))
            if not wait_until(lambda: nd() == ndep, B):
                oracle.append({"sig": "hook-count:forking:departed", "item": len(job["items"]), "observed": [ndep, nd()], "expected": "equal",
                               "what": "on_disconnect did not run once for every departed client"})
    finally:
        for c in list(conns.values()) + raws:
            try:
                c.close()
            except Exception:
                pass
        try:
            os.killpg(p.pid, signal.SIGKILL)
        except OSError:
            pass
        p.wait()
        shutil.rmtree(tmp, ignore_errors=True)
    return {"id": job.get("id"), "obs": [], "replies": log, "oracle": oracle, "mismatch": [], "stats": {}, "forking": True}


# ================================================================= generation

def garbage_payload(r):
    """a payload that is certainly not a protocol message for the real decoder nor for the reference decoder"""
    from rpyc.core import brine
    for _ in range(50):
        n = r.choice([1, 2, 3, 5, 8, 13, 40])
        b = bytes(r.randrange(256) for _ in range(n))
        bad = 0
        for dec in (lambda x: brine.load(x), lambda x: R.dec(x)[0]):
            try:
                v = dec(b)
                if not (isinstance(v, tuple) and len(v) == 3 and v[0] in (1, 2, 3)):
                    bad += 1
            except Exception:
                bad += 1
        if bad == 2:
            return b
    return b"\xff\xff"


def hostile_bytes(r, kind=None):
    """-> (label, bytes): what a misbehaving client may put on the wire"""
    kind = kind or r.choice(["garbage-frame", "bad-zlib", "truncated", "absurd-length", "short", "random", "empty-frame", "garbage-frame", "bad-zlib"])
    if kind == "garbage-frame":
        return kind, frame_raw(garbage_payload(r), 0)
    if kind == "bad-zlib":
        while True:
            body = bytes(r.randrange(256) for _ in range(r.choice([1, 4, 9, 30])))
            try:
                zlib.decompress(body)
            except zlib.error:
                return kind, frame_raw(body, r.choice([1, 1, 2, 255]))
    if kind == "truncated":
        n = r.choice([2, 10, 100, 4000])
        k = r.randrange(0, n)
        return kind, struct.pack(">IB", n, r.choice([0, 0, 1])) + bytes(r.randrange(256) for _ in range(k))
    if kind == "absurd-length":
        return kind, struct.pack(">IB", r.choice([0xFFFFFFFF, 0x7FFFFFFF, 0x10000000]), 0) + bytes(r.randrange(256) for _ in range(r.randrange(0, 9)))
    if kind == "short":
        return kind, bytes(r.randrange(256) for _ in range(r.randrange(1, 5)))
    if kind == "empty-frame":
        return kind, frame_raw(b"", 0)
    # random bytes with a non-zero first byte: a header promising at least 16 MB
    b = bytes([r.randrange(1, 256)]) + bytes(r.randrange(256) for _ in range(r.randrange(5, 40)))
    return "random", b


class Gen:
    """history generator with the symbolic bookkeeping needed to pick meaningful request targets"""

    def __init__(self, r, cfg):
        self.r, self.cfg = r, cfg
        self.items = []
        self.next_cid = 1
        self.alive = {}        # cid -> dict(kind, auth, served(bool: the server answers its requests), oids)
        self.closed = False
        self.inst = {}         # owner -> made
        self.tables = {}
        self.busy = None
        self.ever = []

    def owner(self, c):
        return c if self.cfg["cls"] else 0

    def connect(self, ckind=None, auth=None):
        r, cfg = self.r, self.cfg
        c = self.next_cid
        self.next_cid += 1
        if auth is None:
            auth = AUTH_OK if not cfg["auth"] else r.choice([AUTH_OK] * 6 + [AUTH_FAIL] * 2 + [AUTH_STALL])
        if ckind is None:
            ckind = "raw" if (auth != AUTH_OK and cfg["auth"]) else r.choice(["raw", "raw", "rpyc"])
        self.items.append(["connect", c, ckind, auth])
        ok = (auth == AUTH_OK or not cfg["auth"]) and not self.closed
        if cfg["kind"] == "oneshot" and self.ever:
            ok = False
        if self.busy is not None:
            ok = False
        if cfg["kind"] == "pool" and cfg["auth"] and auth == AUTH_STALL and not self.closed and self.busy is None:
            self.busy = c
        self.ever.append(c)
        self.alive[c] = {"ckind": ckind, "auth": auth, "served": ok, "blocked": False}
        self.tables[c] = []
        return c

    def good_req(self, c):
        r = self.r
        tb = self.tables[c]
        root = (self.owner(c), 0)
        if root not in tb or r.random() < 0.1:
            q, t = QROOT, None
        else:
            q = r.choice([QBUMP, QBUMP, QMAKE, QMAKE, QSTR, QDEL, QSTR])
            if q in (QBUMP, QMAKE):
                t = root if r.random() < 0.85 else r.choice(tb)
            else:
                others = [o for c2, t2 in self.tables.items() if c2 != c for o in t2]
                pick = r.random()
                if pick < 0.6 or not others:
                    t = r.choice(tb)
                elif pick < 0.9:
                    t = r.choice(others)          # an id harvested on another connection
                else:
                    t = (97, r.randrange(50, 60))  # an id nobody ever exported
        self.items.append(["req", c, q, list(t) if t is not None else None, int(r.random() < 0.1)])
        # symbolic effect (mirrors the reference semantics)
        if q == QROOT:
            tb.append(root)
        elif q == QMAKE and t == root and t in tb:
            self.inst[self.owner(c)] = self.inst.get(self.owner(c), 0) + 1
            tb.append((self.owner(c), self.inst[self.owner(c)]))
        elif q == QDEL and t in tb:
            tb.remove(t)

    def leave(self, c, mode=None):
        mode = mode or self.r.choice(["fin", "close", "rst"])
        if mode == "close" and self.alive[c]["ckind"] == "rpyc" and any(it[0] == "send" for it in self.items):
            mode = "fin"     # conn.close() sends HANDLE_CLOSE and hangs up at once: with workers possibly blocked the poller's view of that is a race
        self.items.append(["leave", c, mode])
        self.alive.pop(c)
        if self.busy == c:
            self.busy = None

    def authlate(self):
        c = self.next_cid
        self.next_cid += 1
        self.items.append(["authlate", c])
        self.ever.append(c)
        self.alive[c] = {"ckind": "raw", "auth": AUTH_STALL, "served": False, "blocked": False}
        self.tables[c] = []
        self.closed = True
        for a in self.alive.values():
            a["served"] = False

    def race(self):
        """close() inside the window of an accept"""
        c = self.next_cid
        self.next_cid += 1
        self.items.append(["race", c])
        self.ever.append(c)
        self.alive[c] = {"ckind": "raw", "auth": AUTH_OK, "served": False, "blocked": False}
        self.tables[c] = []
        self.closed = True
        for a in self.alive.values():
            a["served"] = False

    def srvclose(self):
        self.items.append(["srvclose"])
        self.closed = True
        for a in self.alive.values():
            a["served"] = False


def gen_cfg(r, kinds=("threaded", "pool", "oneshot")):
    kind = r.choice(kinds)
    auth = r.random() < 0.3
    return {"kind": kind, "transport": r.choice(["tcp", "tcp", "unix"]), "auth": auth, "cls": r.random() < 0.75,
            "nw": r.choice([1, 2, 2, 3]), "batch": r.choice([1, 2, 3, 10]), "wrap": (r.choice([True, "first"]) if auth and r.random() < 0.5 else False)}


def gen_history(r, quick=True, kinds=("threaded", "pool", "oneshot"), hostile=0.08):
    cfg = gen_cfg(r, kinds)
    g = Gen(r, cfg)
    nsteps = r.randrange(3, 12 if quick else 22)
    maxc = 1 + r.randrange(5)
    close_at = r.randrange(1, nsteps + 1) if r.random() < 0.75 else None     # otherwise: everybody leaves first
    g.connect()
    for step in range(nsteps):
        if close_at == step and not g.closed:
            if r.random() < 0.2 and g.busy is None and len(g.ever) < 6 and not (cfg["kind"] == "oneshot" and g.ever):
                g.race()
            elif cfg["auth"] and cfg.get("wrap") and cfg["kind"] != "pool" and r.random() < 0.4 and g.busy is None and len(g.ever) < 6 \
                    and not (cfg["kind"] == "oneshot" and g.ever):
                g.authlate()
            else:
                g.srvclose()
            if r.random() < 0.6:
                g.srvclose()
            continue
        served = [c for c, a in g.alive.items() if a["served"] and not a["blocked"]]
        if cfg["kind"] == "pool" and sum(1 for a in g.alive.values() if a["served"] and a["blocked"]) >= cfg["nw"]:
            served = []      # every pool worker sits in a read that never completes: nobody is served (C16's finding)
        x = r.random()
        if (x < 0.25 and len(g.ever) < maxc) or not g.alive:
            if len(g.ever) >= 6:
                break
            g.connect()
        elif x < 0.25 + hostile and g.alive:
            c = r.choice(list(g.alive))
            if g.alive[c]["ckind"] == "raw" and (not cfg["auth"] or g.alive[c]["auth"] == AUTH_OK):
                label, b = hostile_bytes(r)
                g.items.append(["send", c, b.hex()])
                if label in ("truncated", "absurd-length", "short", "random"):
                    g.alive[c]["blocked"] = True
                elif cfg["kind"] != "pool":
                    g.alive[c]["served"] = False      # a frame that raises ends the connection on a per-client worker
        elif x < 0.8 and served:
            c = r.choice(served)
            if g.alive[c]["ckind"] == "rpyc":
                g.items.append(["call", c, r.randrange(1000)])
            else:
                g.good_req(c)
        elif g.alive:
            g.leave(r.choice(list(g.alive)))
    if not g.closed:
        if r.random() < 0.5:
            for c in list(g.alive):
                g.leave(c)
        g.srvclose()
        g.srvclose()
    else:
        for c in list(g.alive):
            if r.random() < 0.7:
                g.leave(c)
    return cfg, g.items


def witnesses():
    """the design's witnesses and the boundary shapes, always run"""
    out = []
    for kind in ("threaded", "pool", "oneshot"):
        for transport in ("tcp", "unix"):
            base = {"kind": kind, "transport": transport, "auth": False, "cls": True, "nw": 2, "batch": 10}
            out.append((dict(base), [["connect", 1, "raw", 0], ["srvclose"], ["srvclose"]]))                       # F3's witness
            out.append((dict(base), [["connect", 1, "rpyc", 0], ["call", 1, 7], ["srvclose"], ["srvclose"]]))
            out.append((dict(base), [["connect", 1, "raw", 0], ["req", 1, QROOT, None, 0], ["connect", 2, "raw", 0], ["leave", 1, "fin"], ["leave", 2, "rst"],
                                     ["srvclose"], ["srvclose"]]))
            out.append((dict(base, auth=True), [["connect", 1, "raw", AUTH_FAIL], ["leave", 1, "fin"], ["connect", 2, "raw", AUTH_OK], ["req", 2, QROOT, None, 0],
                                                ["leave", 2, "close"], ["srvclose"]]))
            out.append((dict(base, auth=True), [["connect", 1, "raw", AUTH_FAIL], ["leave", 1, "fin"], ["srvclose"], ["srvclose"]]))
            out.append((dict(base, auth=True), [["connect", 1, "raw", AUTH_STALL], ["srvclose"], ["leave", 1, "fin"]]))
            out.append((dict(base), [["connect", 1, "raw", 0], ["send", 1, struct.pack(">IB", 100, 0).hex()], ["srvclose"], ["leave", 1, "fin"]]))   # blocked reader + close
            out.append((dict(base), [["connect", 1, "raw", 0], ["send", 1, struct.pack(">IB", 100, 0).hex()], ["leave", 1, "rst"], ["srvclose"]]))
    out.append(({"kind": "oneshot", "transport": "tcp", "auth": False, "cls": True, "nw": 1, "batch": 1},
                [["connect", 1, "raw", 0], ["connect", 2, "raw", 0], ["req", 1, QROOT, None, 0], ["leave", 1, "fin"], ["connect", 3, "raw", 0], ["srvclose"]]))
    # close() on a server that was created and never started
    for kind in ("threaded", "pool", "oneshot"):
        out.append(({"kind": kind, "transport": "tcp", "auth": False, "cls": True, "nw": 2, "batch": 10, "special": "close-before-start"}, []))
    # close() with several clients connected, one or two of which have vanished (reset) while their worker was busy in a handler:
    # shutting THEIR sockets down fails; everybody else must still be disconnected
    for n, gone in ((3, [2]), (4, [1]), (4, [2, 3]), (5, [3]), (5, [1, 4]), (6, [2]), (6, [5]), (3, [1])):
        its = []
        for c in range(1, n + 1):
            its += [["connect", c, "raw", 0], ["req", c, QROOT, None, 0]]
        for c in gone:
            its += [["park", c], ["leave", c, "rst"]]
        its += [["srvclose"], ["srvclose"]]
        out.append(({"kind": "threaded", "transport": "tcp", "auth": False, "cls": True, "nw": 2, "batch": 10}, its))
    for kind in ("threaded", "pool", "oneshot"):
        for transport in ("tcp", "unix"):
            base = {"kind": kind, "transport": transport, "auth": True, "cls": True, "nw": 2, "batch": 10, "wrap": True}
            # an authenticator that hands back another socket object (TLS does): close() must still reach the client
            out.append((dict(base), [["connect", 1, "raw", 0], ["req", 1, QROOT, None, 0], ["srvclose"], ["srvclose"]]))
            out.append((dict(base), [["connect", 1, "rpyc", 0], ["call", 1, 3], ["connect", 2, "raw", 0], ["leave", 2, "fin"], ["srvclose"]]))
            out.append((dict(base), [["connect", 1, "raw", 0], ["req", 1, QROOT, None, 0], ["leave", 1, "close"], ["connect", 2, "raw", AUTH_FAIL], ["srvclose"]]))
            # close() while the (socket-replacing) authenticator still waits for the client, who finishes authenticating afterwards
            for w in (True, "first"):
                out.append((dict(base, wrap=w), [["authlate", 1], ["srvclose"]]))
                if kind != "oneshot":
                    out.append((dict(base, wrap=w), [["connect", 1, "raw", 0], ["req", 1, QROOT, None, 0], ["authlate", 2], ["leave", 1, "fin"]]))
            # close() inside the window of accept()
            base = {"kind": kind, "transport": transport, "auth": False, "cls": True, "nw": 2, "batch": 10}
            out.append((dict(base), [["race", 1], ["srvclose"]]))
            out.append((dict(base), [["connect", 1, "raw", 0], ["req", 1, QROOT, None, 0], ["race", 2], ["leave", 1, "fin"]]))
    # the one-shot server's single client is one that reset before it was accepted (getpeername fails while it is being set up): that WAS
    # the one shot - the server is closed, a later client is not served (seed C17-r9m1: with the try/finally of OneShotServer._accept_method
    # gone, accept()'s guard against a worker that cannot be started swallows the OSError and the loop serves a second client)
    for transport in ("tcp", "unix"):
        base = {"kind": "oneshot", "transport": transport, "auth": False, "cls": True, "nw": 2, "batch": 10}
        out.append((dict(base), [["knock", 1], ["connect", 2, "raw", 0], ["req", 2, QROOT, None, 0]]))
    # no thread can be started for a client (model event ESpawnFail): nothing of it stays behind, close() afterwards ends the others
    for transport in ("tcp", "unix"):
        base = {"kind": "threaded", "transport": transport, "auth": False, "cls": True, "nw": 2, "batch": 10}
        out.append((dict(base), [["connect", 1, "raw", 0], ["req", 1, QROOT, None, 0], ["nospawn", 2], ["req", 1, QBUMP, [1, 0], 0], ["srvclose"]]))
        out.append((dict(base), [["nospawn", 1], ["connect", 2, "raw", 0], ["req", 2, QROOT, None, 0], ["leave", 2, "fin"], ["nospawn", 3], ["srvclose"], ["srvclose"]]))
    return out


def child_states(pid):
    """the process states (R, S, Z ...) of the direct children of pid, read off /proc"""
    out = []
    for d in os.listdir("/proc"):
        if d.isdigit():
            try:
                st = open("/proc/%s/stat" % d).read()
            except OSError:
                continue
            f = st[st.rindex(")") + 2:].split()
            if len(f) > 1 and f[1] == str(pid):
                out.append(f[0])
    return out


def forking_jobs(r, n):
    jobs = [{"kind": "forking", "transport": "tcp", "auth": False, "cls": True, "nw": 0, "batch": 0}]
    out = [(dict(jobs[0]), [["connect", 1, "rpyc", 0], ["call", 1, 5], ["srvclose"]]),
           (dict(jobs[0]), [["connect", 1, "rpyc", 0], ["connect", 2, "rpyc", 0], ["call", 2, 1], ["leave", 1, "close"], ["srvclose"]]),
           (dict(jobs[0]), [["connect", 1, "rpyc", 0], ["call", 1, 3], ["leave", 1, "close"], ["connect", 2, "rpyc", 0], ["leave", 2, "close"]]),
           # two children end while the parent is not running: one SIGCHLD for both (seed C17-r9m2: the handler reaps one child per signal)
           (dict(jobs[0]), [["connect", 1, "rpyc", 0], ["connect", 2, "rpyc", 0], ["call", 1, 1], ["call", 2, 2], ["leavepair", 1, 2], ["connect", 3, "rpyc", 0], ["call", 3, 3], ["leave", 3, "close"]]),
           (dict(jobs[0]), [["connect", 1, "rpyc", 0], ["connect", 2, "rpyc", 0], ["connect", 3, "rpyc", 0], ["leavepair", 2, 3], ["call", 1, 7], ["srvclose"]])]
    for _ in range(n):
        items, alive, nxt = [], [], 1
        for _ in range(r.randrange(2, 7)):
            x = r.random()
            if x < 0.4 or not alive:
                items.append(["connect", nxt, "rpyc", 0]); alive.append(nxt); nxt += 1
            elif x < 0.7:
                items.append(["call", r.choice(alive), r.randrange(100)])
            else:
                c = r.choice(alive); alive.remove(c); items.append(["leave", c, "close"])
        if r.random() < 0.7:
            items.append(["srvclose"])
        out.append((dict(jobs[0]), items))
    return out


# ================================================================= parent side: model, comparison, reporting

def key_of(cfg, items):
    return (tuple(sorted(cfg.items())), json.dumps(items))


def nontrivial(cfg, items):
    ops = [it[0] for it in items]
    n_conn = ops.count("connect")
    if "race" in ops or "authlate" in ops:
        return True
    if "srvclose" in ops:
        i = ops.index("srvclose")
        alive = set()
        for it in items[:i]:
            if it[0] == "connect":
                alive.add(it[1])
            elif it[0] == "leave":
                alive.discard(it[1])
        if alive:
            return True
    return n_conn >= 1 and ops.count("leave") >= 1 and len(items) >= 3


def pending_incomplete(data):
    """bytes a client sent -> True when they end inside a frame (a reader of that connection blocks)"""
    buf = bytes(data)
    while True:
        if not buf:
            return False
        if len(buf) < 5:
            return True
        n, flag = struct.unpack(">IB", buf[:5])
        if len(buf) < 5 + n + 1:
            return True
        buf = buf[5 + n + 1:]


def well_behaved(cfg, items, j):
    """is the client of item j a well-behaved client of a running server at that point (by the history alone)?
    authenticated, speaks only well-formed requests, the server was not closed, and (one-shot) it is the first client"""
    it = items[j]
    if it[0] not in ("connect", "req", "call", "emfile", "connect0"):
        return False
    c = it[1]
    first = None
    seen_connect = it[0] in ("connect", "emfile", "connect0")
    for k in range(j):
        o = items[k]
        if o[0] == "srvclose":
            return False
        if o[0] in ("connect", "emfile", "race") and first is None:
            first = o[1]
        if o[0] == "emfile" and o[1] == c:
            seen_connect = True
        if o[0] == "connect" and o[1] == c:
            seen_connect = True
            if cfg["auth"] and o[3] != AUTH_OK:
                return False
        if o[0] in ("send", "kill", "stall", "park", "classref", "logbomb") and o[1] == c:
            return False
        if o[0] == "twin" and c in (o[1], o[2]):
            seen_connect = True
        if (o[0] == "hookhold" and o[2] == c) or (o[0] == "connect0" and o[1] == c):
            seen_connect = True
        if o[0] == "hookhold" and o[1] == c:
            return False
        if o[0] == "twin" and first is None:
            first = o[1]
        if o[0] == "leave" and o[1] == c:
            return False
    if it[0] == "connect":
        if cfg["auth"] and it[3] != AUTH_OK:
            return False
        if first is None:
            first = c
    if cfg["kind"] == "oneshot" and first != c:
        return False
    return seen_connect


def clean_history(items):
    """nothing in it explains an exception in a server thread: only well-formed requests, graceful leaves, no close()"""
    for it in items:
        if it[0] in ("send", "kill", "stall", "park", "emfile", "race", "srvclose", "hostile", "authlate", "nospawn", "knock", "classref", "logbomb"):
            return False
        if it[0] == "leave" and it[2] == "rst":
            return False
        if it[0] == "connect" and it[3] != AUTH_OK:
            return False
    return True


def compared_floor(ctx, floor=0.75):
    """finding a regression that silently switches the correspondence off: the share of events compared with the model must stay above a floor"""
    tot = ctx.dist.get("events:total", 0)
    cmp_ = ctx.dist.get("events:compared-with-model", 0)
    ctx.coverage_extra["events_compared_with_model"] = "%d of %d" % (cmp_, tot)
    if tot and cmp_ < floor * tot:
        ctx.tie_broken("correspondence:coverage-below-floor", "only %d of %d events were compared with the model (floor %.0f%%)" % (cmp_, tot, 100 * floor))


def evaluate(ctx, label, batch, model, facts, farm, probe=None, nontrivial_fn=None):
    """batch: list of (cfg, items).  Runs the model, the real servers, compares, reports."""
    jobs, cases, snaps = [], [], []
    for i, (cfg, items) in enumerate(batch):
        job = {"id": i, "cfg": cfg, "items": items, "wb": [probe == "c16" and well_behaved(cfg, items, j) for j in range(len(items))]}
        if probe:
            job["probe"] = probe
        if cfg.get("special"):
            job["special"] = cfg["special"]
        if cfg["kind"] != "forking" and not cfg.get("special"):
            case, snap, pre = model_case(cfg, facts, items)
            cases.append(case)
            snaps.append(snap)
            job["_pre"] = pre
        else:
            cases.append(None)
            snaps.append(None)
        jobs.append(job)
    mouts = [None] * len(batch)
    fuel_out = []
    cfg_of = [b[0] for b in batch]
    if model is not None:
        idx = [i for i, c in enumerate(cases) if c is not None]
        outs = model.batch([cases[i] for i in idx])
        for i, o in zip(idx, outs):
            mouts[i] = o
    for i, job in enumerate(jobs):
        if mouts[i] is not None:
            exp = []
            starved = False
            for j, s in enumerate(snaps[i]):
                q, st = mouts[i][s]
                if not q:
                    fuel_out.append((cfg_of[i], j))
                itj = job["items"][j]
                if itj[0] in ("authlate", "classref", "knock", "logbomb"):
                    starved = True       # (knock: whether accept() or the reset comes first is the kernel's business)
                if itj[0] == "nospawn" and (not facts[10] or cfg_of[i]["kind"] != "threaded"):
                    starved = True       # without the guard the server shuts itself down while its threads are still busy with the
                                         # other clients: who wins is thread timing (the oracle reports the closed server); the op's
                                         # fault injection (rpyc.utils.server.spawn) only exists for the threaded server
                if itj[0] == "connect0" and not facts[9]:
                    starved = True       # the client on descriptor 0 is never served on this tree: the model serves every queued connection
                if itj[0] == "hookhold" and not facts[7]:
                    starved = True       # the model's table keys are never reused
                if itj[0] == "connect" and itj[3] == AUTH_STALL and cfg_of[i].get("wrap") == "first" and cfg_of[i]["auth"]:
                    starved = True       # a client inside a socket-replacing handshake is out of close()'s reach: the model has it in Server.clients       # the model has no "authentication finishes later" event
                if job["items"][j][0] == "park":
                    starved = True       # a worker busy inside a handler does not see its client leave until the handler returns
                if job["items"][j][0] == "emfile" and not facts[5]:
                    starved = True       # the server shuts itself down while the client it just accepted is being set up: who wins is thread timing
                if job["items"][j][0] == "race" and not facts[6]:
                    starved = True       # the model takes accept() as one step: it has no prediction for the race on a tree without the re-check
                exp.append(project(st) if (q and not starved) else None)
                if q and st[0] and st[7]:
                    # quiescent with a non-empty active queue: every worker is stuck.  From here on the order in which freed
                    # workers pick queued connections depends on thread timing; the model follows one order only -> stop comparing
                    starved = True
            job["expect"] = exp
            job["_compared"] = sum(1 for e in exp if e is not None)
            job["expect_pre"] = {}
            for k, si in job["_pre"].items():
                q, st = mouts[i][si]
                if q and exp[k] is not None:
                    job["expect_pre"][str(k)] = project(st)
            job["expect_reply"] = [items_j[0] != "req" or reply_expected(mouts[i], snaps[i], j, items_j) is not None
                                   for j, items_j in enumerate(job["items"])]
    known = set(k.get("signature") for k in ctx.known if k.get("status") == "known")

    def is_failure(job, res):
        if res is None or "crash" in res or res.get("mismatch"):
            return True
        if any(v["sig"] not in known for v in res.get("oracle", [])):
            return True
        for j, rep in enumerate(res.get("replies", [])):
            if job["wb"][j] and isinstance(rep, dict) and rep["got"] != rep["ref"] and not rep.get("cause"):
                return True
            if job["wb"][j] and isinstance(rep, list) and rep and rep[0] == "connected" and not rep[1] and not (len(rep) > 2 and rep[2]):
                return True
        return False
    compared = [job.pop("_compared", 0 if mouts[k] is None else len(job["items"])) for k, job in enumerate(jobs)]
    for cfgx, j in fuel_out[:3]:
        ctx.tie_broken("model:drain-out-of-fuel", "the model did not reach quiescence within its fuel at event %d of a history on %r" % (j, cfgx))
    for job in jobs:
        job.pop("_pre", None)
    results = farm.map(jobs, is_failure)
    for i, ((cfg, items), res) in enumerate(zip(batch, results)):
        case = {"cfg": cfg, "items": items, "probe": probe}
        nt = (nontrivial_fn or nontrivial)(cfg, items)
        ctx.case(key_of(cfg, items), nontrivial=nt, sample={"cfg": cfg, "items": items[:8]})
        ctx.count("%s:%s:%s" % (label, cfg["kind"], cfg["transport"]))
        for it in items:
            ctx.count("item:" + it[0] + (":" + str(it[2]) if it[0] == "leave" else ""))
        if res is not None and res.get("skipped"):
            ctx.count("not-run:failure-already-established")
            continue
        if res is None or "crash" in res:
            ctx.tie_broken("harness:history-crashed", "%r\n%s" % (case, (res or {}).get("crash")))
            continue
        for v in res["oracle"]:
            ctx.violation(v["sig"], case, observed=v["observed"], expected=v["expected"], what="%s (event %d of the history)" % (v["what"], v["item"]))
        # every well-behaved client is accepted and answered as its own endpoint would (the property's statement; no model involved)
        for j, rep in enumerate(res["replies"]):
            if probe != "c16" or not well_behaved(cfg, items, j) or cfg["kind"] == "forking":
                continue        # (C16's statement; C17's runs check C17's statement only)
            if isinstance(rep, list) and rep and rep[0] == "connected" and not rep[1]:
                cause = ":" + rep[2] if len(rep) > 2 and rep[2] else ""
                ctx.violation("good-client-not-accepted:%s%s" % (cfg["kind"], cause), case,
                              observed="no connection was set up" + (" (server thread stacks: %s)" % rep[2] if cause else " within %.0fs" % BOUND),
                              expected="accepted", what="a running server does not accept a well-behaved client (event %d)" % j)
                break
            if isinstance(rep, dict) and rep["got"] != rep["ref"]:
                unanswered = rep["got"] in (["timeout"], ["eof"], "EOFError", "AsyncResultTimeout", "TimeoutError")
                if unanswered:
                    cause = ":" + rep["cause"] if rep.get("cause") else ""
                    ctx.violation("good-client-unanswered:%s%s" % (cfg["kind"], cause), case,
                                  observed="%r%s" % (rep["got"], " (server thread stacks: %s)" % rep["cause"] if cause else " after %.0fs" % BOUND), expected=rep["ref"],
                                  what="a well-behaved client's request is not answered (event %d)" % j)
                else:
                    ctx.violation("good-client-wrong-answer:%s" % cfg["kind"], case, observed=rep["got"], expected=rep["ref"],
                                  what="a well-behaved client is not answered as its own endpoint would (event %d)" % j)
                break
        if cfg["kind"] == "forking" or cfg.get("special"):
            continue
        if mouts[i] is None:
            continue
        ctx.model_traces += 1
        if res.get("unstable_baseline"):
            ctx.count("baseline-unstable:descriptor-and-thread-counts-not-judged")
        ctx.count("events:total", len(items))
        ctx.count("events:compared-with-model", min(compared[i], len(res.get("obs", []))))
        for nm, ty in res.get("thread_errors", []):
            ctx.count("thread-exception:" + ty)
        if res.get("thread_errors") and clean_history(items):
            ctx.tie_broken("harness:unexpected-thread-exception", "a server thread ended with %r in a history without any hostile event or close: cfg %r items %r"
                           % (res["thread_errors"][:3], cfg, items))
        if res["mismatch"]:
            m = res["mismatch"][0]
            ctx.tie_broken("correspondence:server-state", "cfg %r items %r: event %d: %s" % (cfg, items, m["item"], m["diffs"]))
        # replies: model vs implementation
        for j, rep in enumerate(res["replies"]):
            if j >= compared[i]:
                break       # (schedule-dependent from here on, see above)
            if isinstance(rep, dict) and items[j][0] == "req":
                want = reply_expected(mouts[i], snaps[i], j, items[j])
                got = rep["got"]
                if want is None:
                    if got not in (["eof"], ["timeout"]):
                        ctx.tie_broken("correspondence:reply", "cfg %r items %r: event %d: model: not served, implementation: %r" % (cfg, items, j, got))
                elif got != want:
                    ctx.tie_broken("correspondence:reply", "cfg %r items %r: event %d: model %r implementation %r" % (cfg, items, j, want, got))


def reply_expected(mout, snap, j, item):
    """the reply the model sends for request item j (None: the model does not serve it)"""
    q, st = mout[snap[j]]
    c = item[1]
    before = 0
    if j > 0:
        q0, st0 = mout[snap[j - 1]]
        for cc in st0[9]:
            if cc[0] == c:
                before = len(cc[8])
    for cc in st[9]:
        if cc[0] == c:
            out = cc[8]
            if len(out) > before:
                return model_reply(out[before])
    return None


def run(ctx):
    r = ctx.rng
    model = C.Model("server")
    model = model if model.available() else None
    if model is None:
        ctx.tie_broken("runner:server", "extracted model not built")
    facts = gen_facts()
    ctx.coverage_extra["facts"] = dict(zip(FACT_NAMES, facts))
    ctx.coverage_extra["rule"] = (
        "a case is one history against one real server: kind in threaded/pool/one-shot (uniform), TCP loopback (2/3) or unix socket, toy authenticator 30%, service "
        "registered as class 75% / instance, pool of 1-3 workers with batch 1/2/3/10; 3-11 (quick) / 3-21 events by up to 5 clients: connect (raw-protocol client or real "
        "rpyc client; authentication ok/fail/never finished), well-formed request (getroot, bump, make, str, del on own, foreign or never-exported ids; 10% compressed), "
        "hostile bytes 8% (garbage frame, corrupt zlib, truncated frame, absurd length, 1-4 bytes, random), leave (FIN / HANDLE_CLOSE+FIN / RST via SO_LINGER 0); "
        "close() at a random point in 75% of the histories (then again in 60%), otherwise after everybody left or with everybody connected, always twice at the end; plus "
        "fixed witnesses for every kind x transport, and scripted scenarios against a real ForkingServer in its own process. non-trivial = close() while a client is connected, "
        "or at least one connect and one leave; distinct by configuration and event list")
    n_rand, n_fork = (330, 6) if ctx.quick else (3000, 60)
    farm = Farm(min(8, max(2, C.NCPU // 2)))
    try:
        evaluate(ctx, "witness", witnesses(), model, facts, farm)
        batch = [gen_history(r, ctx.quick) for _ in range(n_rand)]
        evaluate(ctx, "random", batch, model, facts, farm)
        evaluate(ctx, "forking", forking_jobs(r, n_fork), None, facts, farm)
        compared_floor(ctx)
    finally:
        farm.close()


def replay(ctx, rep):
    case = rep["case"] or {}
    model = C.Model("server")
    model = model if model.available() else None
    farm = Farm(1)
    try:
        evaluate(ctx, "replay", [(case["cfg"], case["items"])], model if case["cfg"]["kind"] != "forking" else None, gen_facts(), farm, probe=case.get("probe"))
    finally:
        farm.close()
