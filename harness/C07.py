"""C07 — a hostile peer cannot step outside what the service exposes.

A raw-protocol peer (built on harness/refcodec.py, nothing of rpyc on its side) sends generated sessions of
well-framed messages to a REAL rpyc Connection (default configuration) whose root service and every object it can
lend are canaries: every attribute access (instance and class level), call, repr/str/hash/dir/iteration/truth test
is logged.  A second real Connection to the same service supplies identifiers "harvested from another connection".
For every message BOTH
  * the property's own statement is evaluated on the real objects (`oracle`): only policy-allowed names are ever
    looked up by a peer-chosen name, only objects lent to this peer on this connection (or obtained from them through
    permitted operations in the same request) are touched, the table of lent objects only grows by such objects,
    nothing is pickled/unpickled/imported/executed (sys.addaudithook + wrapped pickle entry points + sys.modules
    delta), every request is answered exactly once with its own sequence number or the connection ends, everything
    else is ignored or ends the connection, a reference that is not in the table is refused with KeyError and
    touches nothing;
  * the extracted Coq model (coq/model/Hostile.v, run_hostile) runs the same session over a description of the
    same canary world and is compared with the implementation: outcome kind + sequence number, reply package /
    exception class, canary log, table contents with counts, requests the server sent back, connection state."""
import hashlib, json, struct, sys
from harness import common as C
from harness import refcodec as R
from harness.memstream import MemStream

META = {
    "level": "proof",
    "level_text": "Theorems in props/C07.v over ALL sequences of messages (any brine value as a message, any script of peer answers to the "
                  "server's own nested requests, arbitrary interference by other connections between messages), ALL service semantics (what an "
                  "operation on an object does, returns or raises -- including the objects an exception carries -- is an arbitrary function over an "
                  "abstract service state; only hypothesis: operations on plain values do not conjure service objects) and ALL handler tables "
                  "expressible in the handler language: the event trace is well-formed against a ghost replay (every object reference is resolved "
                  "through this connection's table, the table only changes by lend/decref/clear events, every object touched, probed, lent, pickled "
                  "or repr()-ed for an exception report was handed out by the service in that request), every by-name access passed the C06 decision "
                  "under the default configuration, no pickle while allow_pickle is off, no import and no constructor from exception payloads, no "
                  "module-level __getattr__ hook run by netref.class_factory (generated lookup mode; refuted for the getattr form), one outcome per "
                  "message with the request's own sequence number, undecodable responses are dropped (EOFError / non-Exception still end the "
                  "connection).  The handler bodies are DATA regenerated from the source on every run (tools/pygen/handlers.py) and equated with the "
                  "table the interpreter runs; the language cannot express a by-name access that bypasses _access_attr.  Proof is the right level: "
                  "the claim is about every message sequence and every service.",
    "level_note": "Trusted: Coq kernel, pygen (handler-body translator), extraction + driver, harness (canaries, raw peer). Reading of 'the policy "
                  "denies' as in DESIGN: nameless operations on held references and constant-name introspection by the implementation are capabilities. "
                  "SCOPE of 'all sequences of messages': the theorems quantify over every list of messages, but they describe a connection only up to "
                  "the first message the model does not describe (outcome OUnm, absorbing: c07_unmodelled_is_absorbing). A session becomes unmodelled "
                  "at: a by-name access of a policy-allowed name on a PLAIN VALUE (GETATTR/CALLATTR/CMP on 5, 'abc': Python's own attribute, a bound "
                  "method is lent), a CALL/CALLATTR with non-empty keyword pairs, a frozenset payload of two or more items where order matters, "
                  "nesting deeper than 64, a float release count, a tuple as callee with a non-iterable *args, odd shapes of the INSPECT answer. The "
                  "generator hits these in about 4-5 %% of quick sessions (counted per run in coverage.model_scope); a further ~4 %% are cut at the first "
                  "operation whose TARGET is a peer proxy (modelled as one scripted exchange, flag approx). PARTIAL: (1) one atomic step per message: "
                  "requests the peer sends while the server waits for the answer to its own nested request (reentrant serve) are outside EVERY "
                  "theorem and never compared with the model; the oracle alone judges them (about 4 %% of sessions carry one, plus a hand-written "
                  "case); (2) theorem 7 (state untouched) is true of the model by construction and counts probes/on_disconnect/payload repr as "
                  "service code; (3) dir()/str() for a CHAINED (caught) exception in the traceback text is an event without a provenance proof (ECtx); "
                  "(4) closed-after-OEnd is Connection.serve_all's try/finally (typed fact; the harness runs the real serve_all around the exception). "
                  "Known finding: exception replies carry str()/repr() of objects the raised exception carries (exception-payload-repr). "
                  "netref.class_factory: module hooks (fixed d03f463) and reads of a never-lent module global (generated fact class_reads_object, "
                  "theorem guarded by it, refutation for the present form, patch proposed) are modelled.",
    "technique": "translator tie (handler bodies as terms of a small language, = by reflexivity) + trace-invariant proofs by induction over messages and "
                 "over the handler language + differential correspondence of the extracted model against a real Connection under a raw-protocol fuzzer "
                 "with canary objects and audit hooks",
    "gen": ["handlers", "protocol", "consts", "attrpolicy", "vinegar", "colls", "netref"],
    # _dispatch, _dispatch_request, _unbox, _box, _request_handlers and every _handle_* are read by tools/pygen/handlers.py into typed
    # items that match their text exactly (tie lemmas), so their plain shape snapshots (owned by other checks) are not repeated here
    "shapes": ["handlers.*",
               "protocol.Connection._access_attr", "protocol.Connection._check_attr", "protocol.Connection._unbox_exc",
               "protocol.Connection._netref_factory", "protocol.Connection.serve_all", "protocol.Connection.serve", "protocol.Connection._cleanup",
               "protocol.Connection.__init__", "protocol.Connection._send_exc", "protocol.Connection._box_exc", "protocol.Connection._dispatch_response",
               "protocol.Connection._seq_request_callback", "protocol.Connection._send", "colls.RefCountingColl.*", "colls.WeakValueDict.*",
               "vinegar.dump_after_fast_path", "vinegar._box_exc", "vinegar._unbox_exc", "vinegar.load", "vinegar._get_exception_class",
               "netref.class_factory", "netref._make_method", "netref.module.statements", "netref.class.*", "netref.BaseNetref.__init__",
               "netref.NetrefClass.*"],
    "models": ["hostile"],
    "model_files": ["Hostile"],
    "assumptions": [
        "what a permitted call / attribute / hook / repr / iteration of a service object does is the service's own code (arbitrary in the theorems)",
        "nameless operations on a held reference (call, repr, str, hash, dir, iteration, truth test, inspect, instance check, release) and the "
        "implementation's constant-name introspection are part of what the service exposes for every object it hands out",
        "one message is handled at a time; nested requests of the peer while the server waits are outside the model (oracle only)",
        "hasattr probes of _check_attr, type(), get_id_pack, repr()/dir() of exception payloads and on_disconnect are reads in the model: they "
        "do not change the abstract service state (theorem 7 is therefore partial: it speaks of refusals that happen before any of them)",
        "Python's own operations on plain values cannot conjure service objects (hypothesis val_closed of the trace theorems)",
        "outcome OUnm = the model does not describe this message; from then on it says nothing about the connection (absorbing); operations "
        "whose target is a peer proxy and proxies re-created for an id pack seen before are approximated (flag approx): the harness compares "
        "only the prefix before either",
        "objects carried by an exception that service code raised (arguments, attributes, AttributeError.obj attached by CPython 3.10+) count "
        "as handed out by the service: vinegar.dump sends their repr() (known finding exception-payload-repr)",
        "OEnd implies closed for Connection.serve_all (try/finally close()); a caller driving serve() itself must close on its own",
    ],
}

import rpyc
import rpyc.lib
from rpyc.core import netref, consts
from rpyc.core.channel import Channel
from rpyc.core.protocol import Connection, DEFAULT_CONFIG

# ====================================================================== value templates (JSON-able)
# ["none"] ["notimpl"] ["ellipsis"] ["bool",b] ["int","<dec>"] ["float","<hex8>"] ["complex","<hex16>"] ["bytes","<hex>"]
# ["str",[cps]] ["tuple",[..]] ["fset",[..]] ["slice",a,b,c] ["id",idx,var] (id pack of world object idx) ["id2",k,var] (k-th id harvested on the 2nd connection)


def T(v):
    """python brine value -> template"""
    t = type(v)
    if v is None: return ["none"]
    if v is NotImplemented: return ["notimpl"]
    if v is Ellipsis: return ["ellipsis"]
    if t is bool: return ["bool", bool(v)]
    if t is int: return ["int", str(v)]
    if t is float: return ["float", struct.pack(">d", v).hex()]
    if t is complex: return ["complex", (struct.pack(">d", v.real) + struct.pack(">d", v.imag)).hex()]
    if t is bytes: return ["bytes", v.hex()]
    if t is str: return ["str", [ord(c) for c in v]]
    if t is tuple: return ["tuple", [T(x) for x in v]]
    if t is frozenset: return ["fset", [T(x) for x in sorted(v, key=repr)]]
    if t is slice: return ["slice", T(v.start), T(v.stop), T(v.step)]
    if t is list and v and isinstance(v[0], str): return v          # already a template
    raise TypeError(t)


VARS = ["exact", "float_cid", "float_iid", "bool_like", "bump_iid", "bump_cid", "other_name", "bytes_name", "extra", "short", "swap", "nested"]


def vary(idp, var):
    n, c, i = idp
    if var == "exact": return (n, c, i)
    if var == "float_cid": return (n, float(c), i)
    if var == "float_iid": return (n, c, float(i))
    if var == "bool_like": return (n, c, complex(i, 0))
    if var == "bump_iid": return (n, c, i + 8)
    if var == "bump_cid": return (n, c + 8, i)
    if var == "other_name": return (n + "x", c, i)
    if var == "bytes_name": return (n.encode(), c, i)
    if var == "extra": return (n, c, i, 0)
    if var == "short": return (n, c)
    if var == "swap": return (n, i, c)
    if var == "nested": return ((n, c, i),)
    raise ValueError(var)


def render(t, ids, ids2):
    k = t[0]
    if k == "none": return None
    if k == "notimpl": return NotImplemented
    if k == "ellipsis": return Ellipsis
    if k == "bool": return bool(t[1])
    if k == "int": return int(t[1])
    if k == "float": return struct.unpack(">d", bytes.fromhex(t[1]))[0]
    if k == "complex":
        b = bytes.fromhex(t[1]); return complex(struct.unpack(">d", b[:8])[0], struct.unpack(">d", b[8:])[0])
    if k == "bytes": return bytes.fromhex(t[1])
    if k == "str": return "".join(map(chr, t[1]))
    if k == "tuple": return tuple(render(x, ids, ids2) for x in t[1])
    if k == "fset": return frozenset(render(x, ids, ids2) for x in t[1])
    if k == "slice": return slice(render(t[1], ids, ids2), render(t[2], ids, ids2), render(t[3], ids, ids2))
    if k == "id": return vary(ids[t[1] % len(ids)], t[2])
    if k == "id2": return vary(ids2[t[1] % len(ids2)], t[2]) if ids2 else ("none.None", 1, 2)
    raise ValueError(k)


def fbits(x):
    return struct.pack(">d", x)


def to_sx(o):
    """python brine value -> s-expression of model/Brine.v pv_of_sx (frozensets in sorted-by-repr order)"""
    t = type(o)
    if o is None: return [0]
    if o is NotImplemented: return [1]
    if o is Ellipsis: return [2]
    if t is bool: return [3, o]
    if t is int: return [4, o]
    if t is float: return [5, fbits(o)]
    if t is complex: return [6, fbits(o.real) + fbits(o.imag)]
    if t is bytes: return [7, o]
    if t is str: return [8, [ord(c) for c in o]]
    if t is tuple: return [9, [to_sx(x) for x in o]]
    if t is frozenset: return [10, [to_sx(x) for x in sorted(o, key=repr)]]
    if t is slice: return [11, to_sx(o.start), to_sx(o.stop), to_sx(o.step)]
    raise TypeError(t)


WILD = ("<any>",)


def from_sx(x):
    k = x[0]
    if k == 0: return None
    if k == 1: return NotImplemented
    if k == 2: return Ellipsis
    if k == 3: return bool(x[1])
    if k == 4: return x[1]
    if k == 5: return struct.unpack(">d", x[1])[0]
    if k == 6: return complex(*struct.unpack(">dd", x[1]))
    if k == 7: return x[1]
    if k == 8: return "".join(map(chr, x[1]))
    if k == 9: return tuple(from_sx(y) for y in x[1])
    if k == 10: return frozenset(from_sx(y) for y in x[1])
    if k == 11: return slice(from_sx(x[1]), from_sx(x[2]), from_sx(x[3]))
    return WILD


def canon(o):
    t = type(o)
    if o is WILD: return ("wild",)
    if o is None: return ("none",)
    if o is NotImplemented: return ("notimpl",)
    if o is Ellipsis: return ("ellipsis",)
    if t is bool: return ("bool", o)
    if t is int: return ("int", o)
    if t is float: return ("float", fbits(o).hex())
    if t is complex: return ("complex", fbits(o.real).hex(), fbits(o.imag).hex())
    if t is bytes: return ("bytes", o.hex())
    if t is str: return ("str", tuple(map(ord, o)))
    if t is tuple: return ("tuple", tuple(canon(x) for x in o))
    if t is frozenset: return ("fset", tuple(sorted((canon(x) for x in o), key=repr)))
    if t is slice: return ("slice", canon(o.start), canon(o.stop), canon(o.step))
    return ("other", t.__name__)


def canon_match(model, impl):
    """model canon may contain ("wild",) which matches any plain value"""
    if model == ("wild",):
        return True
    if model[0] != impl[0]:
        return False
    if model[0] in ("tuple", "fset"):
        return len(model[1]) == len(impl[1]) and all(canon_match(a, b) for a, b in zip(model[1], impl[1]))
    if model[0] == "slice":
        return all(canon_match(a, b) for a, b in zip(model[1:], impl[1:]))
    return model == impl


def cps(s):
    return [ord(c) for c in s]


# ====================================================================== canaries
LOG = []                 # (object index, what)
BUILDING = [True]        # while set, nothing is logged and lookups fall through (class construction, bookkeeping)
DESC = {}                # id(obj) -> runtime record
# names the implementation itself looks up on objects, independent of anything the peer says (regenerated list: see noise_names())
PASS = {"__class__", "__dict__", "__mro__", "__name__", "__module__", "__qualname__", "__bases__"}
SENTINEL = "<no object>"


class CustomExc(Exception):
    pass


class CustomBase(BaseException):
    pass


XCODES = {"TypeError": TypeError, "ValueError": ValueError, "AttributeError": AttributeError, "KeyError": KeyError,
          "EOFError": EOFError, "IndexError": IndexError, "StopIteration": StopIteration, "TimeoutError": TimeoutError,
          "kbd": KeyboardInterrupt, "sysexit": SystemExit, "base": CustomBase, "exc": CustomExc}
XSX = {"TypeError": [0, 0], "ValueError": [0, 1], "AttributeError": [0, 2], "KeyError": [0, 3], "EOFError": [0, 4],
       "TimeoutError": [0, 6], "StopIteration": [0, 7], "IndexError": [0, 8], "kbd": [1], "sysexit": [2], "base": [3], "exc": [4]}


def _missing(name):
    # a plain AttributeError: when it leaves a canary's __getattribute__ CPython (3.10+) attaches the canary as .obj, and the
    # reporting of the error (traceback suggestions: dir(obj); vinegar.dump: repr(obj)) then reaches the canary -- as for any object
    return AttributeError(name)


def _log(o, what):
    d = DESC.get(id(o))
    LOG.append((d["idx"] if d else "?", what))


def _value(d, aval, missing):
    k = aval[0]
    if k == "v":
        return d["world"].value(aval[1])
    if k == "o":
        x = d["world"].objs[aval[1]]
        LOG.append((aval[1], "yield"))
        return x
    if k == "x":
        if aval[1] == "carry":
            # service code raises an exception that carries one of its objects (never lent, never returned)
            LOG.append((aval[2], "carried"))
            raise CustomExc(d["world"].objs[aval[2]])
        raise XCODES[aval[1]]("canary")
    raise missing


def _lookup(o, name, real):
    d = DESC.get(id(o))
    if d is None or BUILDING[0]:
        return real(o, name)
    _log(o, "getattr:" + name)
    for k, v in d["attrs"]:
        if k == name:
            return _value(d, v, _missing(name))
    if name in PASS:
        return real(o, name)
    if name == "on_disconnect" and d["idx"] == 0:
        return lambda conn: None
    if name.startswith("_rpyc_") and name[6:] in ("getattr", "setattr", "delattr") and d["cls"]:
        # type(obj)._rpyc_xxx: defined by this class for its instances?
        if d["ihooks"][("getattr", "setattr", "delattr").index(name[6:])]:
            return _make_hook(name[6:9])
    raise _missing(name)


def _make_hook(kind):
    def hook(self, name, *rest):
        _log(self, "hook:%s:%s" % (kind, name))
        d = DESC[id(self)]
        return _value(d, d["hookres"], _missing(name))
    return hook


def _setattr(o, name, value):
    if BUILDING[0] or id(o) not in DESC:
        return object.__setattr__(o, name, value) if not isinstance(o, type) else type.__setattr__(o, name, value)
    _log(o, "setattr:" + name)


def _delattr(o, name):
    if BUILDING[0] or id(o) not in DESC:
        return object.__delattr__(o, name) if not isinstance(o, type) else type.__delattr__(o, name)
    _log(o, "delattr:" + name)


def _op(o, what):
    _log(o, "op:" + what)
    return DESC[id(o)]


class MetaMeta(type):
    def __getattribute__(cls, name):
        if BUILDING[0]:
            return type.__getattribute__(cls, name)
        LOG.append(("META", "getattr:" + name))
        if name in PASS:
            return type.__getattribute__(cls, name)
        raise _missing(name)


class _Ops(object):
    """the special methods shared by instance canaries (defined on the class) and class canaries (defined on the metaclass)"""
    __slots__ = ()


def _mk_ops(getattribute):
    ns = {}

    def __call__(self, *a, **k):
        d = _op(self, "call")
        return _value(d, d["call"], TypeError("not callable"))

    def __repr__(self):
        return _op(self, "repr")["repr"]

    def __str__(self):
        return _op(self, "str")["str"]

    def __dir__(self):
        return list(_op(self, "dir")["dir"])

    def __iter__(self):
        d = _op(self, "iter")
        if d["iter"] is None:
            raise TypeError("not iterable")
        return iter([_value(d, a, TypeError("item")) for a in d["iter"]])

    def __bool__(self):
        return _op(self, "bool")["bool"]

    def __reduce_ex__(self, proto):
        _op(self, "pickle")
        raise TypeError("canaries do not pickle")

    ns.update(__call__=__call__, __repr__=__repr__, __str__=__str__, __dir__=__dir__, __iter__=__iter__, __bool__=__bool__,
              __reduce_ex__=__reduce_ex__, __getattribute__=getattribute, __setattr__=_setattr, __delattr__=_delattr)
    return ns


class CanaryMeta(type, metaclass=MetaMeta):
    locals().update(_mk_ops(lambda cls, name: _lookup(cls, name, type.__getattribute__)))

    def __instancecheck__(cls, inst):
        if BUILDING[0]:
            return type.__instancecheck__(cls, inst)
        _op(cls, "isinstance")
        return False


class CanaryBase(object, metaclass=CanaryMeta):
    """instances of these are NOT callable (no __call__ on the class): callable(obj) is False, obj() is Python's own TypeError"""
    locals().update({k: v for k, v in _mk_ops(lambda self, name: _lookup(self, name, object.__getattribute__)).items() if k != "__call__"})

    def __hash__(self):
        d = _op(self, "hash")
        return _value(d, d["hash"], TypeError("unhashable"))


class CanaryCallable(CanaryBase):
    __call__ = _mk_ops(None)["__call__"]


class World(object):
    """the python realisation of a world description (list of object descriptions; index 0 is the root service; last is META)"""

    def __init__(self, descs):
        BUILDING[0] = True
        self.descs = descs
        n = len(descs)
        self.objs = [None] * n
        self.meta = n - 1
        self.objs[self.meta] = CanaryMeta
        for i, d in enumerate(descs[:-1]):
            if d["cls"]:
                self.objs[i] = CanaryMeta("K%d" % i, (CanaryCallable if d.get("icall", True) else CanaryBase,), {"__module__": "harness.C07"})
        for i, d in enumerate(descs[:-1]):
            if not d["cls"]:
                self.objs[i] = object.__new__(self.objs[d["type"]])
        self.ids = []
        for i, o in enumerate(self.objs):
            d = descs[i]
            DESC[id(o)] = {"idx": i, "cls": d["cls"], "type": d["type"], "attrs": [(k, v) for k, v in d["attrs"]], "hooks": d["hooks"], "ihooks": d.get("ihooks", [0, 0, 0]),
                           "hookres": d["hookres"], "call": d["call"], "iter": d["iter"], "repr": d["repr"], "str": d["str"],
                           "hash": d["hash"], "dir": sorted(set(d["dir"])), "bool": d["bool"], "world": self}
        for i, o in enumerate(self.objs):
            self.ids.append(rpyc.lib.get_id_pack(o) if i != self.meta else ("harness.C07.CanaryMeta", id(CanaryMeta), 0))
        self.methods = [tuple(rpyc.lib.get_methods(netref.LOCAL_ATTRS, o)) for o in self.objs]
        self.ids2 = []
        BUILDING[0] = False

    def canon_ids(self):
        out = []
        for i, (n, c, k) in enumerate(self.ids):
            d = self.descs[i]
            out.append((n, 1000 + (i if d["cls"] else d["type"]), 0 if d["cls"] else 2000 + i))
        return out

    def value(self, t):
        return render(t, self.ids, self.ids2)

    def dispose(self):
        for o in self.objs:
            DESC.pop(id(o), None)


# ---------------------------------------------------------------------- audit
_audit = {"on": False, "events": []}
WATCH = ("import", "exec", "compile", "pickle.find_class", "os.system", "os.exec", "os.posix_spawn", "subprocess.Popen", "marshal.loads",
         "ctypes.dlopen", "socket.connect", "open")


def _hook(ev, args):
    if _audit["on"] and ev in WATCH:
        if ev == "import":
            if args and args[0] in sys.modules:
                return
            _audit["events"].append("import:%s" % (args[0] if args else "?"))
        elif ev == "open":
            _audit["events"].append("open:%s" % (args[0] if args else "?",))
        elif ev == "compile":
            # CPython's traceback module parses the failing source line (ast.parse) to place the ^^^ markers: benign, recognised by its caller
            f = sys._getframe(1)
            while f is not None:
                if f.f_code.co_filename.endswith("traceback.py"):
                    return
                f = f.f_back
            _audit["events"].append("compile")
        else:
            _audit["events"].append(ev)


sys.addaudithook(_hook)


class _PickleWatch(object):
    NAMES = ("dumps", "loads", "dump", "load", "Pickler", "Unpickler")

    def __enter__(self):
        import pickle
        self.mod = pickle
        self.saved = {n: getattr(pickle, n) for n in self.NAMES}
        self.calls = []

        def wrap(n, f):
            def g(*a, **k):
                self.calls.append(n)
                return f(*a, **k)
            return g
        for n, f in self.saved.items():
            setattr(pickle, n, wrap(n, f))
        return self

    def __exit__(self, *a):
        for n, f in self.saved.items():
            setattr(self.mod, n, f)


class FakeTime(object):
    """stands in for the `time` module inside rpyc.lib: waiting for an answer that never comes takes no real time"""

    def __init__(self):
        self.t = 1000.0

    def time(self):
        return self.t

    def sleep(self, x):
        self.t += max(0, x)


# ====================================================================== the raw peer
class Peer(object):
    def __init__(self, root, clock):
        self.mine, self.theirs = MemStream.pair("peer", "impl")
        self.conn = Connection(root, Channel(self.theirs, compress=True), config={})
        self.clock = clock
        self.theirs.on_idle = self.on_idle
        self.out, self.asks, self.script = [], [], []
        self.ended = None
        self.closed_by_serve = None
        self.interleave = None      # optional: a request sent by the peer while the server waits for its answer

    def send_raw(self, payload):
        self.mine.write(R.frame(payload, False))

    def send(self, msg):
        self.send_raw(R.enc(msg))

    def drain(self):
        got = []
        while True:
            try:
                u = R.unframe(self.mine.inbox)
            except Exception:
                break
            if u is None:
                break
            pl, flag, rest, nl = u
            self.mine.inbox[:] = rest
            got.append(R.dec(pl)[0])
        return got

    def on_idle(self):
        progressed = False
        for m in self.drain():
            self.out.append(m)
            if isinstance(m, tuple) and len(m) == 3 and m[0] == R.MSG_REQUEST and m[2][0] not in (R.H["DEL"], R.H["CLOSE"]):
                self.asks.append(m[2][0])
                if self.interleave is not None:
                    nested, self.interleave = self.interleave, None
                    self.send(nested)
                    progressed = True
                ans = self.script.pop(0) if self.script else ["silent"]
                if ans[0] == "silent":
                    continue
                self.send((R.MSG_REPLY if ans[0] == "reply" else R.MSG_EXCEPTION, m[1], ans[1]))
                progressed = True
        if not progressed:
            self.clock.t += 100.0
        return progressed

    def pump(self):
        """one message at a time through serve(); when an exception leaves serve() the REAL Connection.serve_all is run around that
        exception (its own handlers and its finally decide what happens to the connection)"""
        while self.theirs.inbox and not self.conn.closed:
            try:
                self.conn.serve(0)
            except BaseException as e:
                self.ended = e
                self.closed_by_serve = self.conn.closed

                def failing_serve(*a, **k):
                    raise e
                self.conn.serve = failing_serve          # instance attribute: serve_all's `self.serve(None)` meets the same exception
                try:
                    self.conn.serve_all()
                except BaseException:
                    pass
                finally:
                    try:
                        del self.conn.serve
                    except AttributeError:
                        pass
                break
        self.out += self.drain()

    def exchange(self, payload, script, interleave=None):
        self.script = list(script)
        self.out, self.asks, self.ended = [], [], None
        self.interleave = interleave
        if self.conn.closed or self.theirs.closed or self.mine.closed:
            return self.out             # this connection is over: nothing is read any more
        self.send_raw(payload)
        self.pump()
        return self.out


def table_of(conn):
    try:
        return {k: (v[0], v[1]) for k, v in conn._local_objects._dict.items()}
    except Exception:
        return {}


# ====================================================================== modules with a module-level __getattr__ (PEP 562)
import atexit, importlib, os, shutil, tempfile, types
try:
    import concurrent.futures          # as any asyncio application has it: ProcessPoolExecutor / ThreadPoolExecutor are served by its __getattr__ hook
except Exception:
    pass
HOOK_MOD, LAZY_MOD = "c07mod_hook", "c07mod_lazy"
_HOOK = {"ran": [], "dir": None}


def _install_hook_module():
    d = tempfile.mkdtemp(prefix="c07-")
    _HOOK["dir"] = d
    with open(os.path.join(d, LAZY_MOD + ".py"), "w") as f:
        f.write("class Lazy(object):\n    pass\n")
    sys.path.insert(0, d)
    importlib.invalidate_caches()
    m = types.ModuleType(HOOK_MOD)

    def __getattr__(name):
        _HOOK["ran"].append(name)
        if name in ("Lazy", "LazyNone"):
            lazy = importlib.import_module(LAZY_MOD)
            if name == "Lazy":
                return lazy.Lazy
        raise AttributeError(name)
    m.__getattr__ = __getattr__
    m.Plain = type("Plain", (object,), {})
    sys.modules[HOOK_MOD] = m

    def cleanup():
        sys.modules.pop(HOOK_MOD, None)
        sys.modules.pop(LAZY_MOD, None)
        if d in sys.path:
            sys.path.remove(d)
        shutil.rmtree(d, ignore_errors=True)
    atexit.register(cleanup)


_install_hook_module()
# an imported module of the application with service objects as globals (settings.vault ...): the objects are never lent by that fact
GLOBALS_MOD = "c07mod_globals"
sys.modules[GLOBALS_MOD] = types.ModuleType(GLOBALS_MOD)
atexit.register(lambda: sys.modules.pop(GLOBALS_MOD, None))
GLOBAL_NAMES = [GLOBALS_MOD + ".vault", GLOBALS_MOD + ".Vault"]        # an instance / a class of the session's world
# what the model is told about sys.modules: module -> names served by its hook (with the modules the hook imports) / plainly present
MODEL_MODS = [[HOOK_MOD, [["Lazy", [LAZY_MOD]], ["LazyNone", [LAZY_MOD]], ["Plain", None]]]]
HOOK_NAMES = [GLOBALS_MOD + ".vault", GLOBALS_MOD + ".Vault", GLOBALS_MOD + ".vault", GLOBALS_MOD + ".nosuch", HOOK_MOD + ".Lazy", HOOK_MOD + ".LazyNone", HOOK_MOD + ".Plain", HOOK_MOD + ".nosuch", HOOK_MOD, "concurrent.futures.ProcessPoolExecutor",
              "concurrent.futures.ThreadPoolExecutor", "concurrent.futures.nosuch"]


def mods_sx():
    return [[cps(m), [[cps(n), ([2, [cps(i) for i in imps]] if imps is not None else [0])] for n, imps in ns]] for m, ns in MODEL_MODS]


# ====================================================================== world generation
SAFE = sorted(DEFAULT_CONFIG["safe_attrs"])
EXPOSED_NAMES = ["exposed_get", "exposed_val", "exposed_obj", "exposed_", "exposed_exposed_get", "exposed___eq__", "exposed_secret"]
PLAIN_NAMES = ["get", "val", "obj", "secret", "x", "_priv", "__dict__x", "name"]
SAFE_USED = ["__eq__", "__ne__", "__lt__", "__cmp__", "__len__", "__getitem__", "__getslice__", "__iter__", "__exit__", "__enter__", "__hash__",
             "__repr__", "__str__", "__doc__", "__new__", "next", "__next__", "__format__", "__setitem__", "__bool__", "__call__x"]
DENIED = ["secret", "_priv", "__dict__", "__class__", "__init__", "__globals__", "__subclasses__", "__reduce_ex__", "__getattribute__",
          "__code__", "__self__", "__func__", "__mro__", "__bases__", "__module__", "__name__", "func_globals", "____conn__",
          "____id_pack__", "_rpyc_getattr", "on_disconnect", "__call__", "__getattr__", "__setattr__", "__delattr__", "__weakref__", "keys", ""]
UNI = ["exposé", "exposed_é", "еxposed_get", "exposed_get\x00", "\ud800", "EXPOSED_GET", " exposed_get"]
PLAIN_VALUES = [0, 1, -1, 5, 255, 2**70, True, False, None, "", "a", "text", b"", b"bytes", (), (1, 2), (1, (2, "x")), 1.5, 0.0, frozenset(), slice(1, 2, 3)]


def gen_aval(r, n_objs, allow_x=True, allow_none=True):
    c = r.random()
    if not allow_none:
        c = c * 0.85
    if c < 0.35:
        return ["v", T(r.choice(PLAIN_VALUES))]
    if c < 0.85:
        return ["o", r.randrange(n_objs)]
    if c < 0.95 and allow_x:
        if r.random() < 0.25:
            return ["x", "carry", r.randrange(n_objs)]          # an exception that carries a service object
        return ["x", r.choice(["TypeError", "ValueError", "KeyError", "exc", "StopIteration", "AttributeError", "base", "kbd", "sysexit", "IndexError"])]
    return ["none"]


def gen_world(r):
    """2..4 classes, 2..6 instances, META last; object 0 is the root service (an instance)"""
    n_cls = r.randint(1, 3)
    n_inst = r.randint(2, 5)
    n = n_inst + n_cls
    kinds = [False] * n_inst + [True] * n_cls          # instances first, then classes, then META
    descs = []
    for i in range(n):
        cls = kinds[i]
        attrs = []
        pool = EXPOSED_NAMES + PLAIN_NAMES + SAFE_USED
        for _ in range(r.choice([0, 1, 2, 3, 4, 6])):
            nm = r.choice(pool) if r.random() < 0.9 else r.choice(UNI[:3])
            if nm not in [a[0] for a in attrs]:
                attrs.append([nm, gen_aval(r, n, allow_x=False, allow_none=False)])   # hasattr == membership (C06's abstraction)
        if i == 0:
            for nm in ("exposed_get", "exposed_obj", "secret"):
                if nm not in [a[0] for a in attrs]:
                    attrs.append([nm, ["o", r.randrange(n)]])
        d = {"cls": cls, "type": (n_inst + r.randrange(n_cls)) if not cls else n, "attrs": attrs, "hooks": [0, 0, 0], "ihooks": [0, 0, 0],
             "hookres": gen_aval(r, n), "call": gen_aval(r, n) if r.random() < 0.6 else ["none"],
             "iter": [gen_aval(r, n, allow_x=False, allow_none=False) for _ in range(r.choice([0, 1, 2, 3, 5]))] if r.random() < 0.5 else None,
             "repr": "<canary %d>" % i, "str": "canary-%d" % i, "hash": ["v", T(r.choice([i, 7, 2**40]))] if r.random() < 0.8 else ["none"],
             "dir": sorted(set(r.sample(PLAIN_NAMES + EXPOSED_NAMES, r.randint(0, 3)))), "bool": r.random() < 0.7}
        if cls and r.random() < 0.2:
            d["ihooks"] = [int(r.random() < 0.7), int(r.random() < 0.5), int(r.random() < 0.5)]
        descs.append(d)
    for d in descs:
        if d["cls"]:
            d["icall"] = r.random() < 0.6            # are this class's instances callable?
    for d in descs:
        if not d["cls"]:
            d["hooks"] = list(descs[d["type"]]["ihooks"])
            if not descs[d["type"]]["icall"]:
                d["call"] = ["none"]
    descs.append({"cls": True, "type": n, "attrs": [], "hooks": [0, 0, 0], "ihooks": [0, 0, 0], "hookres": ["none"], "call": ["none"], "iter": None,
                  "repr": "<meta>", "str": "<meta>", "hash": ["none"], "dir": [], "bool": True})
    return descs


def aval_sx(a, world):
    if a[0] == "v":
        return [0, to_sx(render(a[1], world.canon_ids(), canon_ids2(world)))]
    if a[0] == "o":
        return [1, a[1]]
    if a[0] == "x":
        return [2, [5, [a[2]]]] if a[1] == "carry" else [2, XSX[a[1]]]
    return [9]


def canon_ids2(world):
    rev = {idp: c for idp, c in zip(world.ids, world.canon_ids())}
    return [rev.get(i, i) for i in world.ids2]


def world_sx(world):
    cids = world.canon_ids()
    out = []
    for i, d in enumerate(world.descs):
        hv = d["hash"]
        if d["cls"]:
            hv = ["any"]                       # hash(class) is its address
        out.append([to_sx(cids[i]), d["type"], int(d["cls"]),
                    [[cps(k), aval_sx(v, world)] for k, v in d["attrs"]],
                    [int(x) for x in d["hooks"]], aval_sx(d["hookres"], world), aval_sx(d["call"], world),
                    [1, [aval_sx(a, world) for a in d["iter"]]] if d["iter"] is not None else [0],
                    cps(d["repr"]), cps(d["str"]), [3] if hv[0] == "any" else aval_sx(hv, world),
                    [cps(x) for x in sorted(set(d["dir"]))], int(d["bool"]), to_sx(world.methods[i]),
                    int(d["cls"] or bool(world.descs[d["type"]].get("icall", True)))])
    return out


BUILTIN_NAMES = sorted(netref.builtin_classes_cache.keys())
EXC_NAMES = sorted(n for n, v in vars(__import__("builtins")).items() if isinstance(v, type) and issubclass(v, BaseException))


# ====================================================================== message generation
def V(t): return ["tuple", [["int", "1"], t]]
def L(t): return ["tuple", [["int", "3"], t]]
def RR(t): return ["tuple", [["int", "4"], t]]
def TT(items): return ["tuple", [["int", "2"], ["tuple", list(items)]]]


class Gen(object):
    def __init__(self, r, descs):
        self.r, self.descs = r, descs
        self.n = len(descs) - 1            # without META
        self.lent = [0]                    # indices the peer probably holds by now
        self.fresh = 0
        self.remote_ids = []
        self.late = False

    # ---- pieces
    def ref_idx(self):
        r = self.r
        return r.choice(self.lent) if r.random() < 0.85 else r.randrange(self.n)

    def ref(self, idx=None):
        r = self.r
        c = r.random()
        if c < 0.80:
            return L(["id", self.ref_idx() if idx is None else idx, "exact"])
        if c < 0.86:
            return L(["id", r.randrange(self.n + 1), "exact"])             # never lent / stale / META
        if c < 0.92:
            return L(["id2", r.randrange(8), "exact"])                      # harvested on the other connection
        if c < 0.97:
            return L(["id", self.ref_idx(), r.choice(VARS[1:])])            # forged from a real one
        return L(T(r.choice([("builtins.object", 1, 2), 0, None, "id", (), (1, 2, 3), b"abc", ("x",) * 3, slice(1, 2), 2**64, 1.5])))

    def remote(self):
        r = self.r
        c = r.random()
        if c < 0.5:
            return RR(T((r.choice(BUILTIN_NAMES), r.randrange(1, 99), r.randrange(0, 99)))), []
        self.fresh += 1
        name = r.choice(["foo.Bar", "os.system", "harness.C07.K0", "builtins.eval", "subprocess.Popen", "nosuch", "a.b.c.d", "ast.Num",
                         "rpyc.core.protocol.Connection", "5"] + HOOK_NAMES)
        first = name if r.random() < 0.9 else r.choice([5, None, True])
        k = r.random()
        if k < 0.25:
            tail = (r.randrange(1, 9), 0)                      # a class of the peer: its netref class is cached per connection once INSPECT was answered
        elif k < 0.35 and self.remote_ids:
            first, tail = r.choice(self.remote_ids)            # an id pack used before (weak proxy cache / class cache)
        else:
            tail = (r.randrange(1, 99), 100000 + self.fresh)
        idp = T((first,) + tuple(tail))
        if isinstance(first, str):
            self.remote_ids.append((first, tuple(tail)))
        if c < 0.55:
            idp = T(r.choice([(), ("x",), 5, None, "abc", b"abcd", ("a", "b"), frozenset([1, 2, 3])]))
            return RR(idp), []
        a = r.random()
        if a < 0.4:
            ans = [["reply", V(T(()))]]
        elif a < 0.5:
            ans = [["reply", V(T((("meth", None), ("other", None))))]]
        elif a < 0.6:
            ans = [["silent"]]
        elif a < 0.85:
            ans = [["exc", self.exc_payload()]]
        else:
            ans = [["reply", r.choice([V(T(5)), self.ref(), V(T((1, 2))), V(T(((5, None),))), V(T((("__slots__", None), ("__init__", None))))])]]
        return RR(idp), ans

    def exc_payload(self):
        r = self.r
        c = r.random()
        name = r.choice(["ValueError", "KeyboardInterrupt", "SystemExit", "TypeError", "KeyError", "GeneratorExit", "StopIteration", "NoSuchError",
                         "OSError", "Exception", "BaseException", "object", "eval", "UnicodeDecodeError"])
        mod = "builtins" if r.random() < 0.7 else r.choice(["os", "subprocess", "nosuchmod", "harness.C07", "pickle", "colorsys", "chunk", "builtins.x"])
        if c < 0.6:
            return T(((mod, name), ("arg", 1), (("k", "v"), ("_remote_version", r.choice(["5.0.1", "4.0", "x"]))), "tb text"))
        if c < 0.7:
            return T(1)
        if c < 0.75:
            return T("string exception")
        if c < 0.85:
            pool = [("__class__", 5), ("__dict__", ()), ("args", (1,)), ("with_traceback", 1), ("__reduce__", "x"), ("__suppress_context__", 5),
                    ("__suppress_context__", True), ("_remote_version", 5), ("_remote_version", b"5.0"), ("__traceback__", None), ("__cause__", 1),
                    ("args", 5), (5, 1), ("__notes__", (1,))]
            return T(((mod, name), (), tuple(r.sample(pool, r.randint(1, 4))), "tb"))
        return T(r.choice([(), (1, 2, 3, 4), ((1, 2), 3, 4, 5), (("builtins",), (), (), ""), (("builtins", 5), (), (), ""), None, 2,
                           (("builtins", "ValueError"), (), 5, ""), (("builtins", "ValueError"), (), ((1, 2, 3),), ""),
                           (("builtins", "ValueError"), (), (("_remote_version", 5),), ""), (("builtins", "ValueError"), (), (), 5),
                           (("builtins", "ValueError"), (), (("_remote_version", "9.0"),), 5), ((b"builtins", "ValueError"), (), (), "")]))

    def target(self):
        """a boxed target object + the answers it needs"""
        r = self.r
        c = r.random()
        if c < 0.78:
            return self.ref(), []
        if c < 0.90:
            return V(T(r.choice(PLAIN_VALUES))), []
        if c < 0.97:
            return self.remote()
        return TT([self.ref(), V(T(1))]), []

    def name(self, idx=None):
        r = self.r
        c = r.random()
        have = [a[0] for a in self.descs[idx]["attrs"]] if idx is not None and idx < len(self.descs) else []
        if c < 0.30 and have:
            nm = r.choice(have)
            if nm.startswith("exposed_") and r.random() < 0.6:
                nm = nm[len("exposed_"):]
        elif c < 0.45:
            nm = r.choice(EXPOSED_NAMES + PLAIN_NAMES)
        elif c < 0.60:
            nm = r.choice(SAFE_USED) if r.random() < 0.7 else r.choice(SAFE)
        elif c < 0.82:
            nm = r.choice(DENIED)
        elif c < 0.87:
            nm = r.choice(UNI)
        elif c < 0.93:
            nm = r.choice(EXPOSED_NAMES + DENIED + SAFE_USED).encode() if r.random() < 0.7 else r.choice([b"\xff", b"exposed_\xc3", b"\xed\xa0\x80"])
        else:
            return r.choice([V(T(5)), V(T(None)), V(T(("exposed_get",))), self.ref(), V(T(1.5)), V(T(True)), TT([V(T("exposed_get"))])])
        return V(T(nm))

    def args_pkg(self):
        r = self.r
        c = r.random()
        if c < 0.45:
            return V(T(())), []
        if c < 0.60:
            return V(T(tuple(r.choice(PLAIN_VALUES[:14]) for _ in range(r.randint(1, 3))))), []
        if c < 0.80:
            items, ans = [], []
            for _ in range(r.randint(1, 3)):
                t, a = self.target()
                items.append(t); ans += a
            return TT(items), ans
        if c < 0.88:
            return self.ref(), []                      # *args over a lent object
        return r.choice([V(T(5)), V(T("ab")), V(T(b"xy")), V(T(None)), V(T(frozenset([1]))), V(T(slice(1, 2)))]), []

    def kwargs_pkg(self):
        r = self.r
        c = r.random()
        if c < 0.75:
            return V(T(()))
        if c < 0.85:
            return self.ref()
        return r.choice([V(T((("k", 1),))), V(T(5)), V(T("ab")), V(T(b"")), V(T("")), V(T(None)), V(T(((1, 2),))), TT([])])

    def seq(self):
        r = self.r
        c = r.random()
        if c < 0.7:
            return T(r.randrange(0, 1000))
        return T(r.choice([0, -1, 2**40, 2**100, None, "seq", (1, 2), True, 1.5, b"s", -2**63]))

    # ---- requests
    def request(self):
        r = self.r
        hname = r.choice(list(R.H))
        if hname == "CLOSE" and not (self.late and r.random() < 0.5):
            hname = r.choice(["GETATTR", "CALLATTR", "CALL", "CMP"])
        h = R.H[hname]
        ans = []
        tidx = self.ref_idx()
        use_idx = r.random() < 0.8
        tgt, a0 = (self.ref(tidx), []) if use_idx else self.target()
        ans += a0
        d = self.descs[tidx]
        if hname == "PING":
            t, a = self.target(); items = [t]; ans += a
        elif hname in ("CLOSE", "GETROOT"):
            items = []
        elif hname in ("REPR", "STR", "HASH", "DIR"):
            items = [tgt]
        elif hname == "DEL":
            items = [tgt] + ([V(T(r.choice([1, 1, 1, 0, 2, 100, -1, True, None, "1", 1.0, (1,)])))] if r.random() < 0.6 else []) \
                if r.random() < 0.9 else [tgt, self.ref()]
        elif hname in ("GETATTR", "DELATTR"):
            items = [tgt, self.name(tidx if use_idx else None)]
        elif hname == "SETATTR":
            t, a = self.target(); ans += a
            items = [tgt, self.name(tidx if use_idx else None), t]
        elif hname == "CALL":
            p, a = self.args_pkg(); ans += a
            items = [tgt, p] + ([self.kwargs_pkg()] if r.random() < 0.7 else [])
        elif hname == "CALLATTR":
            p, a = self.args_pkg(); ans += a
            items = [tgt, self.name(tidx if use_idx else None), p] + ([self.kwargs_pkg()] if r.random() < 0.7 else [])
        elif hname == "CMP":
            t, a = self.target(); ans += a
            opn = V(T(r.choice(["__eq__", "__ne__", "__lt__", "__cmp__", "__hash__", "__new__", "__doc__", "__repr__"]))) if r.random() < 0.6 \
                else self.name(d["type"] if use_idx else None)
            items = [tgt, t] + ([opn] if r.random() < 0.85 else [])
        elif hname == "PICKLE":
            items = [tgt, V(T(r.choice([0, 2, -1, 5, None])))]
        elif hname == "INSPECT":
            c = r.random()
            if c < 0.7:
                items = [V(["id", tidx, "exact" if r.random() < 0.8 else r.choice(VARS)])]
            elif c < 0.8:
                items = [V(["id2", r.randrange(8), "exact"])]
            else:
                items = [r.choice([V(T(5)), self.ref(), V(T(())), V(T(("builtins.int", 1, 2)))])]
        elif hname == "BUFFITER":
            items = [tgt, r.choice([V(T(r.choice([0, 1, 2, 3, 10, 2**62, True])))] * 4 + [V(T(r.choice([None, -1, 1.5, "2", 2**64, (1,)]))), self.ref()])]
        elif hname == "OLDSLICING":
            nm1 = V(T(r.choice(["__getitem__", "__setitem__", "__delitem__"]))) if r.random() < 0.6 else self.name(tidx if use_idx else None)
            nm2 = V(T(r.choice(["__getslice__", "__setslice__", "__delslice__"]))) if r.random() < 0.6 else self.name(tidx if use_idx else None)
            p, a = self.args_pkg(); ans += a
            items = [tgt, nm1, nm2, r.choice([V(T(0)), V(T(None)), self.ref()]), r.choice([V(T(None)), V(T(3)), self.ref()]), p]
        elif hname == "CTXEXIT":
            items = [tgt, r.choice([V(T(None)), V(T(0)), V(T(1)), V(T("x")), V(T(())), V(T((1,))), self.ref(), V(T(0.0)), V(T(b"")),
                                    V(self.exc_payload()), V(self.exc_payload()), V(self.exc_payload()), TT([V(T(1)), self.ref()])])]
        elif hname == "INSTANCECHECK":
            cached = [V(T((n, t[0], r.choice([0, 0, 5])))) for n, t in self.remote_ids if t[1] == 0][-3:]
            other = r.choice([V(T((r.choice(BUILTIN_NAMES), 1, 2)))] * 3 + cached * 2 + [V(T(("foo.Bar", 1, 2))), V(["id", self.ref_idx(), "exact"]), V(T(5)), V(T(())),
                             V(T(("x",))), V(T("ab")), V(T(b"ab")), self.ref(), V(T((5, 6))), V(T(None))])
            items = [tgt, other]
        else:
            items = [tgt]
        # arity / shape faults
        c = r.random()
        if c < 0.04 and items:
            items = items[:-1]
        elif c < 0.14:
            # EXTRA trailing arguments beyond the published arity (the handler is called with the peer's tuple splatted): TypeError replies
            items = items + [r.choice([V(T(x)) for x in (1, True, 0, False, None, "x", "", (), (1,), 1.5, b"\x01", -1)] + [self.ref()])
                             for _ in range(r.choice([1, 1, 1, 2, 3]))]
        if r.random() < 0.03:
            args = r.choice([V(T(5)), V(T("ab")), self.ref(), T(5), T(()), T((1, 2, 3)), T((9, ())), T(("a", "b")), T(b"\x01\x05"), T((2, 5)), T((2, ((1,),))),
                             T((2, "ab")), T((2, b"ab")), T((True, 7)), T((1.0, 7)), T((3,))])
        else:
            args = TT(items)
        hv = T(h)
        if r.random() < 0.06:
            hv = T(r.choice([0, 21, -1, 2**64, "4", None, float(h), bool(h == 1), (h,), bytes([h]), 1.5, complex(h, 0), h + 256, "PING"]))
        raw = ["tuple", [hv, args]]
        if r.random() < 0.02:
            raw = T(r.choice([(), (h,), (h, (1, ()), 3), 5, None, "ab", b"ab"]))
        # bookkeeping of what the peer probably holds afterwards (only steers generation)
        if hname == "GETROOT" and 0 not in self.lent:
            self.lent.append(0)
        for _, v in d["attrs"]:
            if v[0] == "o" and v[1] not in self.lent and r.random() < 0.5:
                self.lent.append(v[1])
        for v in [d["call"]] + (d["iter"] or []):
            if v[0] == "o" and v[1] not in self.lent and r.random() < 0.3:
                self.lent.append(v[1])
        kind = T(1) if r.random() < 0.97 else T(r.choice([True, 1.0, complex(1, 0)]))
        return {"m": ["tuple", [kind, self.seq(), raw]], "answers": ans, "what": "request:" + hname}

    def other(self):
        r = self.r
        c = r.random()
        if c < 0.3:
            t, a = self.target()
            return {"m": ["tuple", [T(2), self.seq(), t]], "answers": a, "what": "reply"}
        if c < 0.6:
            return {"m": ["tuple", [T(3), self.seq(), self.exc_payload()]], "answers": [], "what": "exception"}
        if not self.late:
            return self.request()
        if c < 0.8:
            t, a = self.target()
            return {"m": ["tuple", [T(r.choice([0, 4, -1, 99, None, "1", (1,), 2.5, b"\x01"])), self.seq(), t]], "answers": a, "what": "badkind"}
        return {"m": T(r.choice([(), (1,), (1, 2), (1, 2, 3, 4), 5, None, "abc", b"abc", b"ab", "ab", frozenset([1, 2, 3]), slice(1, 2, 3), 1.5,
                                 ((1, 2), 3), (1, 2, 5), (1, 2, (3,)), (1, 2, None), (1, None, (3, 4))])), "answers": [], "what": "malformed"}

    def session(self, nmsg):
        r = self.r
        msgs = [{"m": ["tuple", [T(1), T(r.randrange(100)), ["tuple", [T(R.H["GETROOT"]), TT([])]]]], "answers": [], "what": "request:GETROOT"}]
        for i in range(nmsg - 1):
            self.late = i >= (nmsg - 1) * 0.75 or r.random() < 0.1
            m = self.request() if r.random() < 0.9 else self.other()
            msgs.append(m)
        return msgs


HARVEST = [("GETROOT", []), ("GETATTR", ["exposed_get"]), ("GETATTR", ["exposed_obj"]), ("CALLATTR", ["exposed_get"])]


def harvest(world, clock):
    """ids handed out on a second connection to the same service"""
    p2 = Peer(world.objs[0], clock)
    ids = []
    root = None
    for hname, extra in HARVEST:
        if hname == "GETROOT":
            args = (R.LABEL_TUPLE, ())
        elif root is None:
            continue
        elif hname == "GETATTR":
            args = (R.LABEL_TUPLE, ((R.LABEL_LOCAL_REF, root), (R.LABEL_VALUE, extra[0])))
        else:
            args = (R.LABEL_TUPLE, ((R.LABEL_LOCAL_REF, root), (R.LABEL_VALUE, extra[0]), (R.LABEL_VALUE, ()), (R.LABEL_VALUE, ())))
        out = p2.exchange(R.enc((R.MSG_REQUEST, 1, (R.H[hname], args))), [])
        for m in out:
            if isinstance(m, tuple) and len(m) == 3 and m[0] == R.MSG_REPLY:
                for idp in find_refs(m[2]):
                    if idp not in ids:
                        ids.append(idp)
                    if root is None:
                        root = idp
        if p2.conn.closed:
            break
    return p2, ids


def find_refs_deep(v):
    """every (LABEL_REMOTE_REF, id pack) anywhere inside an outgoing message body"""
    out = []
    if isinstance(v, tuple):
        if len(v) == 2 and type(v[0]) is int and v[0] == R.LABEL_REMOTE_REF and isinstance(v[1], tuple) and len(v[1]) == 3 and isinstance(v[1][0], str):
            out.append(v[1])
        for x in v:
            out += find_refs_deep(x)
    return out


def find_refs(pkg):
    out = []
    if isinstance(pkg, tuple) and len(pkg) == 2:
        if pkg[0] == R.LABEL_REMOTE_REF:
            out.append(pkg[1])
        elif pkg[0] == R.LABEL_TUPLE and isinstance(pkg[1], tuple):
            for x in pkg[1]:
                out += find_refs(x)
    return out


# ====================================================================== running one session against the implementation
STD = {"TypeError", "ValueError", "AttributeError", "KeyError", "EOFError", "TimeoutError", "StopIteration", "IndexError"}
BASE_ONLY = {"KeyboardInterrupt", "SystemExit", "GeneratorExit", "BaseException", "BaseExceptionGroup"}


def exc_class(payload):
    """the exception record on the wire -> the model's class of exception"""
    if payload == 1:
        return "std:StopIteration"
    try:
        (mod, name) = payload[0]
    except Exception:
        return "exc"
    if mod == "builtins":
        if name in ("UnicodeDecodeError", "UnicodeEncodeError", "UnicodeError"):
            return "std:UnicodeError"
        if name in STD:
            return "std:" + name
        if name in BASE_ONLY:
            return "base"
    if mod == "harness.C07" and name == "CustomBase":
        return "base"
    return "exc"


def exc_class_of(e):
    n = type(e).__name__
    if isinstance(e, (UnicodeError,)):
        return "std:UnicodeError"
    if type(e).__module__ == "builtins" and n in STD:
        return "std:" + n
    if type(e) is KeyboardInterrupt:
        return "kbd"
    if type(e) is SystemExit:
        return "sysexit"
    if not isinstance(e, Exception):
        return "base"
    return "exc"


CLS_MODE = [2]        # how netref.class_factory looks the class up (0: getattr, runs module hooks; 2: the module's __dict__), regenerated in run()


CLS_READS = [1]       # does class_factory read attributes of the object it found (regenerated in run())
VARIANT = [[0], 0]     # (_handle_cmp's name guard: [0] none / [1, [names]]; _handle_ctxexit catches BaseException), regenerated in run()


def variant_facts():
    try:
        from tools.pygen import handlers as TH
        import ast as _ast
        g, ctxall = TH.facts(C.REPO)["variants"]
        names = None
        if g is not None:
            names = [x.value for x in _ast.walk(_ast.parse(g.replace("%string", "").replace(";", ",").replace("(Some ", "(").strip(), mode="eval")) if isinstance(x, _ast.Constant)]
        return ([1, names] if names is not None else [0]), int(ctxall)
    except Exception:
        return None


def class_mode():
    try:
        from tools.pygen import handlers as TH
        return {"Vinegar.LkGetattr": 0, "Vinegar.LkDict": 2}[TH.class_lookup_mode(C.REPO)]
    except Exception:
        return None


def noise_names():
    """names the implementation looks up by itself (regenerated from the source by tools/pygen/handlers.py)"""
    try:
        from tools.pygen import handlers as TH
        return set(TH.facts(C.REPO)["const_names"])
    except Exception:
        return None


FALLBACK_NOISE = {"____id_pack__", "____conn__", "__class__", "__name__", "__module__", "__mro__", "__dict__", "__bases__", "keys",
                  "_rpyc_getattr", "_rpyc_setattr", "_rpyc_delattr", "on_disconnect", "__qualname__", "__class_getitem__"}


def allowed_name(n):
    return n.startswith(DEFAULT_CONFIG["exposed_prefix"]) or n in DEFAULT_CONFIG["safe_attrs"]


class Session(object):
    def __init__(self, case):
        self.case = case
        self.clock = FakeTime()
        self.saved_time = rpyc.lib.time
        rpyc.lib.time = self.clock
        self.world = World(case["world"])
        self.peer2, self.world.ids2 = harvest(self.world, self.clock)
        del LOG[:]
        self.peer = Peer(self.world.objs[0], self.clock)
        # the last instance and the first class of the world are also bound as globals of an imported module
        insts = [i for i, d in enumerate(case["world"][:-1]) if not d["cls"]]
        clss = [i for i, d in enumerate(case["world"][:-1]) if d["cls"]]
        self.globals = {GLOBALS_MOD + ".vault": insts[-1], GLOBALS_MOD + ".Vault": clss[0]}
        BUILDING[0] = True
        gm = sys.modules[GLOBALS_MOD]
        gm.vault, gm.Vault = self.world.objs[insts[-1]], self.world.objs[clss[0]]
        BUILDING[0] = False
        self.lent = set()          # id packs this connection was observed to send to the peer (the harness's own record)
        self.rev = {idp: c for idp, c in zip(self.world.ids, self.world.canon_ids())}
        self.obj_of_id = {idp: i for i, idp in enumerate(self.world.ids)}

    def close(self):
        rpyc.lib.time = self.saved_time
        BUILDING[0] = True
        gm = sys.modules[GLOBALS_MOD]
        gm.__dict__.pop("vault", None)
        gm.__dict__.pop("Vault", None)
        try:
            for p in (self.peer, self.peer2):
                try:
                    p.conn.close()
                except BaseException:
                    pass
        finally:
            self.world.dispose()
            BUILDING[0] = False

    def canon_pkg(self, v):
        """replace real id packs by canonical ones inside a wire value"""
        if isinstance(v, tuple):
            if v in self.rev:
                return self.rev[v]
            return tuple(self.canon_pkg(x) for x in v)
        return v

    def step(self, msg):
        """send one message; returns the observation record"""
        w = self.world
        if "raw" in msg:
            payload = bytes.fromhex(msg["raw"])
            real = None
        else:
            real = render(msg["m"], w.ids, w.ids2)
            payload = R.enc(real)
        script = [[a[0]] + ([render(a[1], w.ids, w.ids2)] if len(a) > 1 else []) for a in msg.get("answers", [])]
        inter = render(msg["interleave"], w.ids, w.ids2) if msg.get("interleave") else None
        before = table_of(self.peer.conn)
        dead = self.peer.conn.closed
        mods_before = set(sys.modules)
        del LOG[:]
        _audit["events"].clear()
        del _HOOK["ran"][:]
        with _PickleWatch() as pw:
            _audit["on"] = True
            try:
                out = self.peer.exchange(payload, script, inter)
            finally:
                _audit["on"] = False
        log = list(LOG)
        del LOG[:]
        after = table_of(self.peer.conn)
        lent_before = set(self.lent)
        for m in out:
            if isinstance(m, tuple) and len(m) == 3:
                for idp in find_refs_deep(m[2]):
                    self.lent.add(idp)
        return {"real": real, "out": out, "log": log, "before": before, "after": after, "ended": self.peer.ended,
                "lent_before": lent_before, "lent_after": set(self.lent),
                "closed": self.peer.conn.closed, "dead": dead, "asks": list(self.peer.asks), "closed_by_serve": self.peer.closed_by_serve, "audit": list(_audit["events"]),
                "pickle": list(pw.calls), "newmods": self._newmods(mods_before), "hook_ran": list(_HOOK["ran"])}

    @staticmethod
    def _newmods(before):
        new = sorted(set(sys.modules) - before)
        sys.modules.pop(LAZY_MOD, None)          # the next message starts without it again
        return new


# ====================================================================== the oracle: the property's own statement on the real objects
def oracle(ctx, sess, case, k, msg, obs, noise):
    w = sess.world
    real = obs["real"]
    if obs["dead"]:
        return "dead"

    def bad(sig, what, observed=None, expected=None):
        ctx.violation(sig, {"world": case["world"], "msgs": case["msgs"][:k + 1]}, observed=observed, expected=expected, what=what)

    try:
        k0, s0, a0 = real               # msg, seq, args = brine.load(data): any 3-element iterable
        triple = (k0, s0, a0)
    except Exception:
        triple = None
    if isinstance(real, frozenset):
        triple = None                   # iteration order of a frozenset is the interpreter's: the oracle does not guess which element is the kind
    is_request = triple is not None and isinstance(triple[0], (int, float, complex)) and triple[0] == 1
    if is_request:
        real = triple
    hname = "?"
    if is_request:
        try:
            hname = [n for n, v in R.H.items() if v == real[2][0]][0]
        except Exception:
            hname = "invalid"
    # (1) names: every attribute access made by name is allowed by the policy, and is a read.
    # The implementation's own constant-name lookups are expected noise -- except on the object a by-name request names, for the
    # very name the peer sent (there the policy refuses such a name before anything but hasattr(obj, "exposed_" + name) happens)
    peer_name, name_targets = None, set()
    NAME_POS = {"GETATTR": [1], "SETATTR": [1], "DELATTR": [1], "CALLATTR": [1], "CMP": [2], "OLDSLICING": [1, 2]}
    if is_request and hname in NAME_POS:
        try:
            items = real[2][1][1]
            tgt = items[0]
            if type(tgt[0]) is int and tgt[0] == R.LABEL_LOCAL_REF and tgt[1] in sess.obj_of_id:
                ti = sess.obj_of_id[tgt[1]]
                name_targets = {w.descs[ti]["type"]} if hname == "CMP" else {ti}
                names = []
                for pos in NAME_POS[hname]:
                    nv = items[pos][1] if (len(items) > pos and type(items[pos][0]) is int and items[pos][0] == R.LABEL_VALUE) else None
                    if isinstance(nv, bytes):
                        nv = nv.decode("utf8", "replace")
                    if isinstance(nv, str):
                        names.append(nv)
                peer_name = set(names)
        except Exception:
            peer_name, name_targets = None, set()
    # ... unless the object's own _rpyc_*attr hook served the name (C06: the object decides): whatever the implementation looks up on
    # the target AFTER its hook ran is bookkeeping on the hook's result (get_id_pack / isinstance when the result is boxed, dict(kwargs)
    # when it is the same object again); a lookup of the peer's name BEFORE any hook entry is the request's own by-name access
    hooked_at = {}
    for pos, (idx, what) in enumerate(obs["log"]):
        if what.startswith("hook:") and idx in name_targets and idx not in hooked_at:
            hooked_at[idx] = pos
    for pos, (idx, what) in enumerate(obs["log"]):
        kind, _, nm = what.partition(":")
        if kind == "getattr" and nm in noise and peer_name and nm in peer_name and idx in name_targets and not allowed_name(nm) \
                and not (idx in hooked_at and pos > hooked_at[idx]):
            bad("attr-policy-bypass:%s" % hname, "the name the peer sent (one the implementation also uses itself) was looked up on the target object",
                observed=(idx, what), expected="AttributeError before the object is asked for that name")
        if kind in ("setattr", "delattr"):
            bad("write-access:%s:%s" % (kind, hname), "an attribute was %s under the default configuration" % ("set" if kind == "setattr" else "deleted"),
                observed=(idx, what), expected="AttributeError, nothing touched")
        elif kind == "getattr" and nm not in noise and not allowed_name(nm):
            bad("attr-policy-bypass:%s" % hname, "an attribute whose name the policy denies was looked up on a service object",
                observed=(idx, what), expected="only exposed_*/safe names (and the implementation's constant introspection names)")
        elif kind == "hook":
            pass        # the object's own _rpyc_*attr decides (C06)
    # (2) objects: only what this peer holds on this connection (or got from it in this request) is touched
    held = set()
    for key, (o, cnt) in obs["before"].items():
        i = DESC.get(id(o), {}).get("idx")
        if i is not None and key in obs["lent_before"]:      # in the table AND observed to have been sent on THIS connection
            held.add(i)
    if is_request and hname == "GETROOT":
        held.add(0)
    closure = set(held)
    carried_unheld = set()
    for idx, what in obs["log"]:
        if idx == "META" or idx == "?":
            continue
        if what == "yield":
            closure.add(idx)
            continue
        if what == "carried":
            if idx not in closure:
                carried_unheld.add(idx)
            continue
        ok = idx in closure or any(w.descs[j]["type"] == idx for j in closure if j < len(w.descs))
        if not ok and idx in carried_unheld and what in ("op:repr", "op:str"):      # repr(arg) in the record, str(exc) in the traceback text
            # vinegar.dump sends repr() of what the exception carries: an object the service attached to its exception, never lent
            bad("exception-payload-repr:unlent-object", "the exception reply carries repr() of an object that was never lent or returned (it travels in the "
                "exception the service raised)", observed=(idx, what), expected="nothing of an object the peer holds no reference to")
            continue
        if what == "getattr:on_disconnect" and idx == 0:
            ok = True
        if not ok and what.startswith("getattr:") and what[8:] in noise and GLOBALS_MOD + "." in repr(obs["real"]) \
                and (idx in sess.globals.values() or any(w.descs[g]["type"] == idx for g in sess.globals.values())):
            # netref.class_factory looked the peer-declared type name up in an imported module and asked the object it found for attributes
            bad("class-lookup-reads-unlent-global", "netref.class_factory read attributes of an object that was never lent: the module global a "
                "peer-declared dotted type name is bound to", observed=(idx, what), expected="the found object is accepted or rejected by a test on its type only")
            continue
        if not ok:
            bad("touched-unlent-object:%s" % hname, "an object that was never sent to this peer on this connection was touched",
                observed=(idx, what, sorted(closure)), expected="KeyError for a reference that is not in this connection's table")
    # (3) the table only grows by objects held legitimately, under their own id pack
    for key, (o, cnt) in obs["after"].items():
        i = DESC.get(id(o), {}).get("idx")
        if key not in obs["before"]:
            if i is None:
                continue        # an object of the interpreter itself (bound method of a plain value ...): Python's own semantics
            if i not in closure and not any(w.descs[j]["type"] == i for j in closure):
                bad("table-grew-unauthorised:%s" % hname, "an object the peer had no way to reach was added to the table of lent objects",
                    observed=(i, repr(key)[:80]), expected="only results of permitted operations are lent")
        if i is not None and key not in obs["lent_after"]:
            ctx.count("note:table-entry-never-seen-on-the-wire")      # lent but not (yet) sent: a release matter (C10), not a C07 violation
        if i is not None and w.ids[i] != key:
            bad("table-key-mismatch", "a table entry maps an id pack to a different object", observed=(i, repr(key)[:80]), expected=repr(w.ids[i])[:80])
    # (4) nothing pickled / unpickled / imported / executed
    hook_import = bool(obs["hook_ran"]) or any(m.startswith("concurrent.futures.") or m.startswith("multiprocessing") for m in obs["newmods"])
    if obs["pickle"]:
        bad("pickle-used:%s" % hname, "the process pickled or unpickled while allow_pickle is off", observed=obs["pickle"], expected="ValueError('pickling is disabled')")
    for ev in obs["audit"]:
        if ev.startswith("open:") and (ev.endswith(".py") or ev.endswith(".py'")):
            continue           # linecache reading source lines for the traceback text
        if hook_import:
            continue           # reported above under its own signature
        bad("audit:%s:%s" % (ev.split(":")[0], hname), "an import / code execution / process / unpickling event was triggered by the peer", observed=ev, expected="none")
    if hook_import:
        # the peer-declared type name of a proxy reached a module-level __getattr__ (PEP 562) through netref.class_factory
        bad("class-lookup-runs-module-hook", "netref.class_factory ran a module's __getattr__ hook for a peer-chosen name (modules imported: %s)"
            % (obs["newmods"] or "none this time"), observed={"hook_called_with": obs["hook_ran"], "new_modules": obs["newmods"][:8]},
            expected="the peer-named class is looked up in the module's own namespace only; nothing is imported")
    elif obs["newmods"]:
        bad("module-imported:%s" % hname, "sys.modules grew while serving the peer", observed=obs["newmods"], expected="no import")
    # (5) one answer per request with its own sequence number, nothing else is answered; or this connection ends
    answers = [m for m in obs["out"] if isinstance(m, tuple) and len(m) == 3 and m[0] in (R.MSG_REPLY, R.MSG_EXCEPTION)]
    if is_request and not msg.get("interleave"):
        if not obs["closed"] and obs["ended"] is None:
            if len(answers) != 1 or canon(answers[0][1]) != canon(real[1]):
                bad("request-not-answered-once:%s" % hname, "a request was not answered exactly once with its own sequence number",
                    observed=[repr(a[:2]) for a in answers], expected=repr(real[1]))
        elif len(answers) > 1:
            bad("request-answered-twice:%s" % hname, "more than one answer", observed=[repr(a[:2]) for a in answers], expected="at most one")
    elif not is_request and answers and not isinstance(obs["real"], frozenset) and not msg.get("interleave"):
        bad("non-request-answered", "something that is not a request was answered", observed=[repr(a[:2]) for a in answers], expected="ignored or connection ends")
    if is_request and obs["ended"] is not None and not msg.get("interleave"):
        e = obs["ended"]
        # what may leave serve() while a peer's REQUEST is handled: the transport's EOFError (incl. the peer's own CLOSE), or a
        # KeyboardInterrupt that local code itself raised (propagate_KeyboardInterrupt_locally); never an exception object that
        # was rebuilt from a record the peer sent, never anything else
        forged = hasattr(e, "_remote_tb") or (isinstance(e, (KeyboardInterrupt, SystemExit)) and type(e) not in (KeyboardInterrupt, SystemExit))
        if forged or not (isinstance(e, EOFError) or type(e) is KeyboardInterrupt):
            bad("exception-escapes-serve:%s" % ("peer-forged-" + type(e).__name__ if forged else type(e).__name__),
                "an exception left Connection.serve() while a peer request was handled (the hosting thread is taken down) instead of being answered",
                observed=repr(e)[:200], expected="MSG_EXCEPTION with the request's sequence number")
    if obs["ended"] is not None and not obs["closed"]:
        bad("ended-but-open", "an exception left serve() and Connection.serve_all left the connection open", observed=repr(obs["ended"]), expected="closed")
    if obs["ended"] is not None:
        ctx.count("ended:closed-by-%s" % ("serve" if obs.get("closed_by_serve") else "serve_all"))
    if obs["closed"] and obs["after"]:
        bad("closed-with-table", "the connection ended but still holds lent objects", observed=len(obs["after"]), expected=0)
    # (6) a reference that is not in this connection's table is refused and nothing is touched
    if is_request and isinstance(real[2], tuple) and len(real[2]) == 2 and isinstance(real[2][1], tuple) and len(real[2][1]) == 2 \
            and real[2][1][0] == R.LABEL_TUPLE and isinstance(real[2][1][1], tuple) and hname not in ("invalid", "?"):
        items = real[2][1][1]
        first_bad = None
        for it in items:
            if isinstance(it, tuple) and len(it) == 2 and type(it[0]) is int and it[0] == R.LABEL_LOCAL_REF:
                try:
                    present = it[1] in obs["before"] and it[1] in obs["lent_before"]
                except TypeError:
                    present = False
                if not present:
                    first_bad = it[1]
                    break
            elif not (isinstance(it, tuple) and len(it) == 2 and type(it[0]) is int and it[0] == R.LABEL_VALUE):
                break           # other labels may fail first / need the peer
        if first_bad is not None:
            touched = [(i, x) for i, x in obs["log"] if i != "META"]
            ok = len(answers) == 1 and answers[0][0] == R.MSG_EXCEPTION and exc_class(answers[0][2]) == "std:KeyError" and not touched \
                and set(obs["after"]) == set(obs["before"])
            if not ok:
                bad("forged-reference-not-refused:%s" % hname, "a reference that is not in this connection's table was not refused with KeyError without effect",
                    observed=([repr(a[:2]) for a in answers], touched[:4]), expected="MSG_EXCEPTION KeyError, no object touched, table unchanged")
    return hname


# ====================================================================== model side
LOGMAP = {"call": "op:call", "repr": "op:repr", "str": "op:str", "hash": "op:hash", "dir": "op:dir", "iter": "op:iter", "bool": "op:bool",
          "dict": "op:iter", "isinstance": "op:isinstance", "pickle": "op:pickle"}
PERMW = {0: "getattr:", 1: "setattr:", 2: "delattr:"}


def model_log(events, world):
    out, asks = [], []
    for e in events:
        tag = e[0].decode()
        if tag == "probe":
            out.append((e[1], "getattr:" + "".join(map(chr, e[2]))))
        elif tag == "attr":
            out.append((e[1], PERMW[e[2]] + "".join(map(chr, e[3]))))
        elif tag == "hook":
            out.append((e[1], "hook:%s:%s" % (("get", "set", "del")[e[2]], "".join(map(chr, e[3])))))
        elif tag == "touch":
            op = e[2].decode()
            cls = world.descs[e[1]]["cls"] if e[1] < len(world.descs) else False
            if op == "hash" and cls:
                continue
            if op == "isinstance" and not cls:
                continue
            if op == "call" and not cls and not world.descs[world.descs[e[1]]["type"]].get("icall", True):
                continue                                    # not callable: Python's own TypeError, nothing of the object runs
            if op == "funcstr" and not cls:
                out.append((e[1], "op:str"))        # no __qualname__ on an instance: CPython falls back to str(callee)
            if op in LOGMAP:
                out.append((e[1], LOGMAP[op]))
        elif tag == "payload":
            if e[1] != len(world.descs) - 1:          # the metaclass itself has default repr/dir
                out.append((e[1], "op:" + e[2].decode()))
        elif tag == "ask":
            asks.append(e[1])
    return out, asks


def impl_log(log, noise, meta):
    out = []
    for idx, what in log:
        if what in ("yield", "carried"):
            continue
        if idx == "META":
            idx = meta
        kind, _, nm = what.partition(":")
        if kind == "getattr" and nm in noise:
            continue
        out.append((idx, what))
    return out


def compare(ctx, sess, case, k, msg, obs, mres, noise, hname):
    """model vs implementation for one message; returns False when the session can no longer be compared"""
    w = sess.world
    outc, events, mtable, mclosed, mapprox = mres
    kind = outc[0].decode()
    if kind in ("unmodelled", "badinput") or mapprox:
        ctx.count("model:" + ("approx" if mapprox and kind != "unmodelled" else kind))
        return False
    where = "session %s msg %d (%s)" % (case.get("id", "?"), k, msg.get("what", "?"))
    answers = [m for m in obs["out"] if isinstance(m, tuple) and len(m) == 3 and m[0] in (R.MSG_REPLY, R.MSG_EXCEPTION)]
    # outcome
    if obs["ended"] is not None:
        impl_out = ("end", exc_class_of(obs["ended"]).replace("std:", "std:"))
        if isinstance(obs["ended"], EOFError) and hname == "CLOSE":
            impl_out = ("closed",)
    elif obs.get("dead"):
        impl_out = ("dead",)
    elif not answers:
        impl_out = ("closed",) if obs["closed"] else ("ignored",)
    elif answers[0][0] == R.MSG_REPLY:
        impl_out = ("reply", canon(answers[0][1]), canon(sess.canon_pkg(answers[0][2])))
    else:
        impl_out = ("exc", canon(answers[0][1]), exc_class(answers[0][2]))

    def xcls(x):
        t = x[0].decode()
        return "std:" + x[1].decode() if t == "std" else {"kbd": "base", "sysexit": "base", "base": "base", "exc": "exc"}[t]
    if kind == "reply":
        model_out = ("reply", canon(from_sx(outc[1])), canon(from_sx(outc[2])))
        same = impl_out[0] == "reply" and model_out[1] == impl_out[1] and canon_match(model_out[2], impl_out[2])
    elif kind == "exc":
        model_out = ("exc", canon(from_sx(outc[1])), xcls(outc[2]))
        same = model_out == impl_out
    elif kind == "end":
        t = outc[1][0].decode()
        model_out = ("end", "std:" + outc[1][1].decode() if t == "std" else t)
        same = model_out == impl_out
    else:
        model_out = (kind,)
        same = model_out == impl_out
    ok = True
    if not same:
        ctx.tie_broken("correspondence:outcome", "%s: model %r impl %r" % (where, model_out, impl_out))
        ok = False
    # canary log
    ml, masks = model_log(events, w)
    il = impl_log(obs["log"], noise, len(w.descs) - 1)
    if ml != il:
        ctx.tie_broken("correspondence:canary-log", "%s: model %r impl %r" % (where, ml, il))
        ok = False
    mimp = sorted("".join(map(chr, e[1])) for e in events if e[0] == b"clsimport")
    iimp = sorted(m for m in obs.get("newmods", []) if m == LAZY_MOD)
    if mimp != iimp:
        ctx.tie_broken("correspondence:class-lookup-import", "%s: model %r impl %r" % (where, mimp, iimp))
        ok = False
    mglob = sorted(set(e[1] for e in events if e[0] == b"globalread"))
    iglob = sorted(set(i for i, what in obs["log"] if what == "getattr:__class__" and i in obs.get("globals", {}).values()
                       and GLOBALS_MOD + "." in repr(obs["out"])))
    if mglob and not set(mglob) <= set(iglob) or (iglob and not mglob and CLS_READS[0] == 0 and False):
        ctx.tie_broken("correspondence:class-lookup-global-read", "%s: model %r impl %r" % (where, mglob, iglob))
        ok = False
    if masks != obs["asks"]:
        ctx.tie_broken("correspondence:nested-requests", "%s: model %r impl %r" % (where, masks, obs["asks"]))
        ok = False
    # table
    mt = sorted((repr(canon(from_sx(e[0]))), e[1], e[2]) for e in mtable)
    it = []
    foreign = False
    for key, (o, cnt) in obs["after"].items():
        i = DESC.get(id(o), {}).get("idx")
        if i is None:
            foreign = True
            continue
        it.append((repr(canon(sess.canon_pkg(key))), i, cnt))
    it.sort()
    if mt != it:
        ctx.tie_broken("correspondence:table", "%s: model %r impl %r" % (where, mt, it))
        ok = False
    if bool(mclosed) != bool(obs["closed"]):
        ctx.tie_broken("correspondence:closed", "%s: model %r impl %r" % (where, bool(mclosed), obs["closed"]))
        ok = False
    ctx.model_traces += 1
    return ok and not foreign


def msg_sx(sess, msg):
    w = sess.world
    cids, cids2 = w.canon_ids(), canon_ids2(w)
    m = to_sx(render(msg["m"], cids, cids2))
    ans = []
    for a in msg.get("answers", []):
        if a[0] == "reply":
            ans.append([0, to_sx(render(a[1], cids, cids2))])
        elif a[0] == "exc":
            ans.append([1, to_sx(render(a[1], cids, cids2))])
        else:
            ans.append([2])
    return [m, ans]


def run_case(ctx, case, noise, model_jobs=None):
    """one session: implementation + oracle now; the model input is queued and compared in finish_models"""
    sess = Session(case)
    try:
        observations = []
        for k, msg in enumerate(case["msgs"]):
            obs = sess.step(msg)
            hname = oracle(ctx, sess, case, k, msg, obs, noise)
            observations.append((obs, hname))
            key = hashlib.sha1(json.dumps([case["world"], msg["m"] if "m" in msg else msg["raw"], msg.get("answers")], sort_keys=True).encode()).hexdigest()
            ctx.case(key, nontrivial=True, sample={"message": repr(obs["real"])[:160], "what": msg.get("what"),
                                                   "answer": [repr(m)[:100] for m in obs["out"][:2]], "log": obs["log"][:4]})
            ctx.count(msg.get("what", "?"))
            if obs["ended"] is not None:
                ctx.count("ended:" + type(obs["ended"]).__name__)
        modelable = all("m" in m and not m.get("interleave") for m in case["msgs"])
        if model_jobs is not None and modelable:
            sx = ["session", [CLS_MODE[0], VARIANT[0], VARIANT[1], CLS_READS[0], [[cps(n), i] for n, i in sorted(sess.globals.items())]], world_sx(sess.world), [cps(n) for n in BUILTIN_NAMES], [cps(n) for n in EXC_NAMES], mods_sx(),
                  [msg_sx(sess, m) for m in case["msgs"]]]
            # what the comparison needs after the python objects are gone
            snap = {"descs": case["world"], "rev": dict(sess.rev)}
            slim = []
            for obs, hname in observations:
                after = []
                foreign = False
                for key2, (o, cnt) in obs["after"].items():
                    i = DESC.get(id(o), {}).get("idx")
                    after.append((key2, i, cnt))
                slim.append(({"out": obs["out"], "log": obs["log"], "after": after, "ended": obs["ended"], "closed": obs["closed"], "dead": obs["dead"],
                              "newmods": obs["newmods"], "globals": dict(sess.globals),
                              "asks": obs["asks"]}, hname))
            model_jobs.append((case, sx, snap, slim))
    finally:
        sess.close()


class _Snap(object):
    """what compare() needs of a finished session"""

    def __init__(self, snap):
        self.rev = snap["rev"]
        self.world = self

        class D(object):
            pass
        self.descs = snap["descs"]

    def canon_pkg(self, v):
        if isinstance(v, tuple):
            if v in self.rev:
                return self.rev[v]
            return tuple(self.canon_pkg(x) for x in v)
        return v


def finish_models(ctx, model, jobs, noise):
    if not jobs:
        return
    outs = model.batch([j[1] for j in jobs])
    for (case, sx, snap, slim), res in zip(jobs, outs):
        sess = _Snap(snap)
        if not isinstance(res, list) or len(res) != len(slim):
            ctx.tie_broken("correspondence:model-output", "session %s: %r" % (case.get("id"), res)[:300])
            continue
        for k, ((obs, hname), mres) in enumerate(zip(slim, res)):
            if not (isinstance(mres, list) and len(mres) == 5):
                ctx.tie_broken("correspondence:model-output", "session %s msg %d: %r" % (case.get("id"), k, mres))
                break
            obs2 = dict(obs)
            obs2["after"] = {key: (_Obj(i), cnt) for key, i, cnt in obs["after"]}
            if not compare(ctx, sess, case, k, case["msgs"][k], obs2, mres, noise, hname):
                break


class _Obj(object):
    """stands for world object i after the session is gone"""

    def __init__(self, i):
        self.i = i
        if i is not None:
            DESC[id(self)] = {"idx": i}
        _Obj.keep.append(self)
    keep = []


def gen_case(r, ident, quick):
    descs = gen_world(r)
    g = Gen(r, descs)
    n = r.choice([4, 8, 12, 16, 20, 30]) if not quick else r.choice([4, 8, 12, 16, 24])
    msgs = g.session(n)
    if r.random() < 0.04:
        # the peer does not wait for the server: it sends a request of its own while the server waits for the answer to its nested request
        for m in msgs:
            if m.get("answers") and "m" in m:
                tgt = L(["id", r.randrange(len(descs)), "exact"])
                m["interleave"] = ["tuple", [T(1), T(7000 + r.randrange(100)),
                                             ["tuple", [T(R.H[r.choice(["GETATTR", "REPR", "CALL", "DEL"])]), TT([tgt, V(T(r.choice(DENIED + EXPOSED_NAMES)))])]]]]
                break
    return {"id": ident, "world": descs, "msgs": msgs}


def special_cases(r):
    """hand-picked sessions: the historical hole's shape, interleaved peer requests, undecodable messages"""
    out = []
    descs = gen_world(r)
    descs[0]["attrs"] = [["exposed_get", ["o", 1]], ["secret", ["o", 1]], ["_priv", ["v", T(5)]]]
    g = Gen(r, descs)
    root = L(["id", 0, "exact"])
    req = lambda h, items, seq=5, answers=(), **kw: dict({"m": ["tuple", [T(1), T(seq), ["tuple", [T(R.H[h]), TT(items)]]]], "answers": list(answers), "what": "request:" + h}, **kw)
    msgs = [req("GETROOT", [])]
    for nm in ("secret", "_priv", "__class__", "__dict__", "__init__"):
        msgs.append(req("CMP", [root, root, V(T(nm))]))
        msgs.append(req("GETATTR", [root, V(T(nm))]))
        msgs.append(req("CALLATTR", [root, V(T(nm)), V(T(())), V(T(()))]))
        msgs.append(req("OLDSLICING", [root, V(T(nm)), V(T(nm)), V(T(0)), V(T(None)), V(T(()))]))
        msgs.append(req("SETATTR", [root, V(T(nm)), V(T(1))]))
        msgs.append(req("DELATTR", [root, V(T(nm))]))
    msgs.append(req("PICKLE", [root, V(T(2))]))
    out.append({"id": "special-names", "world": descs, "msgs": msgs})
    # the peer sends a request of its own while the server waits for the answer to its nested INSPECT
    msgs = [req("GETROOT", [])]
    nested = ["tuple", [T(1), T(77), ["tuple", [T(R.H["GETATTR"]), TT([root, V(T("secret"))])]]]]
    msgs.append(req("PING", [RR(T(("foo.Bar", 1, 424242)))], answers=[["reply", V(T(()))]], interleave=nested))
    nested2 = ["tuple", [T(1), T(78), ["tuple", [T(R.H["GETATTR"]), TT([L(["id", 1, "exact"]), V(T("exposed_get"))])]]]]
    msgs.append(req("PING", [RR(T(("foo.Baz", 1, 424243)))], answers=[["silent"]], interleave=nested2))
    out.append({"id": "special-interleave", "world": descs, "msgs": msgs})
    # every handler with one extra trailing argument (truthy and falsy) beyond its published arity, denied names where a name goes
    base = {"PING": [V(T(1))], "CLOSE": None, "GETROOT": [], "GETATTR": [root, V(T("secret"))], "DELATTR": [root, V(T("secret"))],
            "SETATTR": [root, V(T("secret")), V(T(1))], "CALL": [root, V(T(())), V(T(()))], "CALLATTR": [root, V(T("_priv")), V(T(())), V(T(()))],
            "REPR": [root], "STR": [root], "CMP": [root, root, V(T("__dict__"))], "HASH": [root], "DIR": [root], "PICKLE": [root, V(T(2))],
            "DEL": None, "INSPECT": [V(["id", 0, "exact"])], "BUFFITER": [root, V(T(1))],
            "OLDSLICING": [root, V(T("secret")), V(T("_priv")), V(T(0)), V(T(None)), V(T(()))], "CTXEXIT": [root, V(T(None))],
            "INSTANCECHECK": [root, V(T(("builtins.int", 1, 2)))]}
    msgs = [req("GETROOT", [])]
    for h, items in base.items():
        if items is None:
            continue
        for extra in (True, 1, "x", False, None, 0):
            msgs.append(req(h, items + [V(T(extra))]))
        msgs.append(req(h, items + [V(T(1)), V(T(1))]))
    out.append({"id": "special-extra-args", "world": descs, "msgs": msgs})
    # exception records forged by the peer that name KeyboardInterrupt / SystemExit: as the CTXEXIT argument and as the answer to the
    # server's nested INSPECT inside a request -- they are answered like any other exception, they never leave serve()
    msgs = [req("GETROOT", [])]
    for cls in ("KeyboardInterrupt", "SystemExit", "GeneratorExit", "BaseException"):
        rec = T((("builtins", cls), (), (), "tb"))
        msgs.append(req("CTXEXIT", [root, V(rec)]))
        msgs.append(req("PING", [RR(T(("foo.Forged" + cls, 1, 5)))], answers=[["exc", rec]]))
        msgs.append(req("GETATTR", [RR(T(("foo.Forged2" + cls, 1, 6))), V(T("exposed_get"))], answers=[["exc", rec]]))
    out.append({"id": "special-forged-interrupt", "world": descs, "msgs": msgs})
    # a peer-owned proxy as the attribute NAME: declared as an instance of a text subclass that exists on this side (enum.StrEnum), with
    # the methods _check_attr would call on a name (startswith, __hash__, __radd__) answered by the peer -- a name must be exactly str
    import pickle as _pickle
    strname = RR(T(("enum.StrEnum", 1, 4242)))
    # INSPECT -> methods; name.startswith -> GETATTR answered with a function proxy, its CALL -> False; name in safe_attrs -> HASH;
    # prefix + name -> __radd__ of the declared class, answered with a denied name (twice: hasattr probe and the final name)
    answers = [["reply", V(T((("__radd__", None),)))], ["reply", RR(T(("builtins.function", 1, 9001)))], ["reply", V(T(False))], ["reply", V(T(12345))],
               ["reply", V(T("secret"))], ["reply", V(T("secret"))], ["reply", V(T("secret"))], ["reply", V(T("secret"))]]
    msgs = [req("GETROOT", [])]
    for h, items in (("GETATTR", [root, strname]), ("CALLATTR", [root, strname, V(T(())), V(T(()))]), ("DELATTR", [root, strname]),
                     ("SETATTR", [root, strname, V(T(1))]), ("CMP", [root, root, strname])):
        strname = RR(T(("enum.StrEnum", 1, 4242 + len(msgs))))
        items = [strname if (isinstance(x, list) and x[0] == "tuple" and x[1][0] == ["int", "4"]) else x for x in items]
        msgs.append(req(h, items, answers=answers))
    out.append({"id": "special-proxy-as-name", "world": descs, "msgs": msgs})
    # __array__ on a peer-owned proxy whose class declares that method: netref's __array__ would unpickle what the peer answers
    blob = _pickle.dumps((1, 2), 2)
    msgs = [req("GETROOT", [])]
    for k, nm in enumerate(("__array__", "__array_struct__", "__reduce_ex__")):
        arr = RR(T(("foo.Arr", 1, 5000 + k)))
        msgs.append(req("CALLATTR", [arr, V(T(nm)), V(T(())), V(T(()))],
                        answers=[["reply", V(T(((nm, None),)))], ["exc", T((("builtins", "AttributeError"), ("x",), (), ""))], ["reply", V(T(blob))], ["reply", V(T(blob))]]))
        msgs.append(req("GETATTR", [RR(T(("foo.Arr2", 1, 6000 + k))), V(T(nm))],
                        answers=[["reply", V(T(((nm, None),)))], ["exc", T((("builtins", "AttributeError"), ("x",), (), ""))], ["reply", V(T(blob))]]))
    out.append({"id": "special-proxy-array", "world": descs, "msgs": msgs})
    # the per-connection cache of peer classes: once INSPECT was answered for an id pack with instance id 0, INSTANCECHECK against that
    # name reaches the service's __instancecheck__, and a second proxy of the same class needs no INSPECT
    cidx = [i for i, d in enumerate(descs[:-1]) if d["cls"]][0]
    descs2 = json.loads(json.dumps(descs))
    descs2[0]["attrs"] = [["exposed_get", ["o", cidx]]]
    clsref = L(["id", cidx, "exact"])
    msgs = [req("GETROOT", []), req("GETATTR", [root, V(T("get"))]),
            req("INSTANCECHECK", [clsref, V(T(("foo.Cached", 7, 0)))]),
            req("PING", [RR(T(("foo.Cached", 7, 0)))], answers=[["reply", V(T(()))]]),
            req("INSTANCECHECK", [clsref, V(T(("foo.Cached", 7, 5)))]),
            req("INSTANCECHECK", [clsref, clsref]),          # the handler subscripts its second argument: a class is asked for __class_getitem__
            req("PING", [RR(T(("foo.Cached", 7, 0)))]),
            req("PING", [RR(T((HOOK_MOD + ".Lazy", 3, 0)))], answers=[["reply", V(T(()))]]),
            req("PING", [RR(T(("concurrent.futures.ProcessPoolExecutor", 3, 77)))], answers=[["reply", V(T(()))]])]
    out.append({"id": "special-classcache", "world": descs2, "msgs": msgs})
    # bytes that are not a brine value at all
    msgs = [req("GETROOT", []), {"raw": "ff", "what": "undecodable"}]
    out.append({"id": "special-undecodable", "world": descs, "msgs": msgs})
    msgs = [req("GETROOT", []), {"raw": "1101", "what": "undecodable"}]
    out.append({"id": "special-truncated", "world": descs, "msgs": msgs})
    return out


# ------------------------------------------------------------------------------------------------ two connections in one process
def cross_connection_phase(ctx):
    """What ONE connection's configuration allows must not widen what ANOTHER connection's peer can reach.  A process holds a trusted
    connection (instantiate_custom_exceptions / import_custom_exceptions on: the operator's choice for that peer) over which an
    application exception class legitimately arrives, and a default-configuration connection to a hostile peer who then names the
    same class in an exception record (CTXEXIT argument; exception reply to a request of the server's own).  Under the default
    configuration no code of the application's class may run and the service must see a stand-in, whatever happened on the other
    connection before (seed C07-r9m1: a module-level cache of resolved classes in vinegar.load)."""
    import socket, sys, threading, types
    import rpyc
    from rpyc.core import consts
    from rpyc.core.stream import SocketStream
    log = []

    def make_class(modname, clsname):
        mod = sys.modules.get(modname) or types.ModuleType(modname)

        def __new__(cls, *a, **k):
            log.append(("__new__", cls.__name__))
            return Exception.__new__(cls, *a, **k)

        def _set(self, value):
            log.append(("setter", value))
            self.__dict__["_account"] = value
        cls = type(clsname, (Exception,), {"__new__": __new__, "account": property(lambda self: self.__dict__.get("_account"), _set), "__module__": modname})
        setattr(mod, clsname, cls)
        sys.modules[modname] = mod
        return cls

    def pair(svc_a, cfg_a, svc_b, cfg_b):
        sa, sb = socket.socketpair()
        ca = rpyc.connect_stream(SocketStream(sa), svc_a, config=dict(cfg_a, sync_request_timeout=30))
        cb = rpyc.connect_stream(SocketStream(sb), svc_b, config=dict(cfg_b, sync_request_timeout=30))
        threading.Thread(target=cb.serve_all, daemon=True).start()
        return ca, cb

    for k, trusted_cfg in enumerate(({"instantiate_custom_exceptions": True}, {"instantiate_custom_exceptions": True, "import_custom_exceptions": True})):
        for route in ("ctxexit", "callback-exception"):
            modname, clsname = "c07_app_errors_%d_%s" % (k, route.replace("-", "_")), "AuditedError"
            cls = make_class(modname, clsname)
            del log[:]
            case = {"trusted_config": trusted_cfg, "route": route, "class": [modname, clsname]}
            ctx.case(("cross-connection", k, route), sample=case)
            ctx.count("phase:cross-connection")

            class Backend(rpyc.Service):
                def exposed_debit(self):
                    e = cls("insufficient funds")
                    e.account = "backend-account"
                    raise e
            seen = []

            class Guard(object):
                def __enter__(self):
                    return self

                def __exit__(self, typ, exc, tb):
                    seen.append(exc)
                    return True

            class Public(rpyc.Service):
                def exposed_guard(self):
                    return Guard()

                def exposed_ask(self, fn):
                    try:
                        fn()
                    except BaseException as e:      # noqa: whatever the peer's callback "raised" is the observation
                        seen.append(e)
                    return None
            conns = []
            try:
                with C.time_limit(60):
                    to_backend, b2 = pair(rpyc.VoidService, trusted_cfg, Backend, {})
                    conns += [to_backend, b2]
                    try:
                        to_backend.root.debit()
                        legit = None
                    except Exception as e:          # noqa
                        legit = e
                    if not isinstance(legit, cls):
                        ctx.tie_broken("harness:cross-connection:setup", "the trusted connection did not rebuild the class: %r" % (legit,))
                        continue
                    del log[:]
                    hostile, served = pair(rpyc.VoidService, {}, Public, {})
                    conns += [hostile, served]
                    payload = ((modname, clsname), ("pwn",), (("account", "attacker-chosen"),), "no traceback")
                    if route == "ctxexit":
                        guard = hostile.root.guard()
                        try:
                            hostile.sync_request(consts.HANDLE_CTXEXIT, guard, payload)
                        except Exception:           # noqa: how the request is answered is not this phase's subject
                            pass
                    else:
                        # the hostile side lends a callable; when the server calls it, it answers with a forged exception record
                        orig_send = hostile._send

                        def forging_send(msg, seq, args, _orig=orig_send):
                            if msg == consts.MSG_EXCEPTION:
                                args = payload
                            return _orig(msg, seq, args)
                        hostile._send = forging_send

                        def cb():
                            raise ValueError("replaced on the wire by the forged record")
                        try:
                            hostile.root.ask(cb)
                        except Exception:           # noqa
                            pass
            except C.Hang:
                ctx.violation("cross-connection:hang", case, observed="no answer within 60 s", expected="an answer", what="the two-connection scenario did not finish")
                continue
            finally:
                for c in conns:
                    try:
                        c.close()
                    except Exception:               # noqa
                        pass
                sys.modules.pop(modname, None)
            inst = [e for e in seen if isinstance(e, cls)]
            if log or inst:
                ctx.violation("custom-exception-class-instantiated-under-default-config:after-another-connection-resolved-it", case,
                              observed={"code of the class that ran": log[:4], "handed to the service": [type(e).__mro__[1].__name__ for e in inst][:2]},
                              expected="a GenericException stand-in; no code of the application's class runs for a default-configuration peer",
                              what="an exception record sent by a peer on a DEFAULT-configuration connection was rebuilt as the application's own class "
                                   "because another connection of the same process (configured to instantiate custom exceptions) had resolved that class before")
            elif not seen:
                ctx.tie_broken("harness:cross-connection:not-reached", "route %s: the service never saw the forged exception" % route)


def run(ctx):
    r = ctx.rng
    model = C.Model("hostile")
    model = model if model.available() else None
    noise = noise_names()
    if noise is None:
        ctx.tie_broken("translator:handlers.const_names", "tools/pygen/handlers.py could not derive the constant introspection names")
        noise = FALLBACK_NOISE
    mode = class_mode()
    if mode is None:
        ctx.tie_broken("translator:handlers.class_lookup_mode", "tools/pygen/handlers.py does not recognise how netref.class_factory looks a class up")
    CLS_MODE[0] = 2 if mode is None else mode
    try:
        from tools.pygen import handlers as _TH
        CLS_READS[0] = int(_TH.class_reads_object(C.REPO))
    except Exception as e:
        ctx.tie_broken("translator:handlers.class_reads_object", str(e))
    v = variant_facts()
    if v is None:
        ctx.tie_broken("translator:handlers.variants", "tools/pygen/handlers.py does not recognise the form of _handle_cmp / _handle_ctxexit")
    else:
        VARIANT[0], VARIANT[1] = v
    ctx.coverage_extra["handler_variants"] = {"cmp_guard": VARIANT[0], "ctx_catches_all": VARIANT[1]}
    ctx.coverage_extra["rule"] = ("sessions of 4..30 messages over a generated world of 3..9 canary objects (instances, classes, metaclass) behind a real Connection; "
                                  "every session starts with GETROOT; 90% requests (handler drawn uniformly from the 20 published numbers; targets: 80% references "
                                  "the peer probably holds, the rest never-lent/stale/other-connection/forged variants of real id packs (float, complex, shifted, "
                                  "bytes name, wrong arity, nested), plain values, proxies (builtin and unknown type names with scripted INSPECT answers incl. crafted "
                                  "exception records), names: present/twin/safe/denied/unicode/bytes/invalid utf-8/non-text; arity and shape faults; invalid handler "
                                  "ids 0, 21, -1, 2**64, text, None, float, bool, tuple, bytes), 10% unsolicited replies, exception records, invalid kinds, malformed "
                                  "triples; hand-written sessions for the comparison-handler shape, interleaved peer requests and undecodable bytes. One case = one "
                                  "message in its session context; distinct by (world, message, answers).")
    jobs = [] if model is not None else None
    cases = special_cases(r)
    import os
    n = int(os.environ.get("C07_SESSIONS", "0")) or (400 if ctx.quick else 20000)
    for i in range(n):
        cases.append(gen_case(r, "s%d" % i, ctx.quick))
    for case in cases:
        run_case(ctx, case, noise, jobs)
        if jobs is not None and len(jobs) >= 2000:
            finish_models(ctx, model, jobs, noise)
            del jobs[:]
            del _Obj.keep[:]
    if jobs is not None:
        finish_models(ctx, model, jobs, noise)
    else:
        ctx.tie_broken("runner:hostile", "extracted model not available")
    cross_connection_phase(ctx)
    # how much of what was generated the model speaks about (see META level_note SCOPE)
    ctx.coverage_extra["model_scope"] = {
        "sessions": len(cases), "messages": ctx.evaluations, "messages_compared_with_model": ctx.model_traces,
        "sessions_cut_at_first_unmodelled_message": ctx.dist.get("model:unmodelled", 0),
        "sessions_cut_at_first_proxy_target_operation": ctx.dist.get("model:approx", 0),
        "sessions_with_a_reentrant_peer_request (oracle only)": sum(1 for c in cases if any(m.get("interleave") for m in c["msgs"])),
        "sessions_with_undecodable_bytes (oracle only)": sum(1 for c in cases if any("raw" in m for m in c["msgs"]))}


def replay(ctx, rep):
    case = rep.get("case")
    if not case:
        return run(ctx)
    model = C.Model("hostile")
    model = model if model.available() else None
    noise = noise_names() or FALLBACK_NOISE
    mode = class_mode()
    CLS_MODE[0] = 2 if mode is None else mode
    v = variant_facts()
    if v is not None:
        VARIANT[0], VARIANT[1] = v
    jobs = [] if model is not None else None
    run_case(ctx, {"id": "replay", "world": case["world"], "msgs": case["msgs"]}, noise, jobs)
    if jobs:
        finish_models(ctx, model, jobs, noise)
