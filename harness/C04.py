"""C04 — the value serializer is lossless and exact about what it accepts.
Correspondence of model/Brine.v with rpyc.core.brine on generated values and byte strings,
plus the property's own oracle evaluated on the implementation."""
import enum, struct, sys, collections
from harness import common as C

META = {
    "level": "proof",
    "level_text": "Theorems over an inductive universe of all Python values (props/C04.v): round trip for every well-formed accepted value at any size and "
                  "nesting depth with any trailing bytes, agreement of dumpable with dump (TypeError for every rejected value), decoder output always immutable-plain; "
                  "the ladders/immediates/tags/codec mode are regenerated from brine.py on every run and tied by reflexivity lemmas; the extracted model is compared "
                  "with rpyc.core.brine on generated values and byte strings. Proof is the right level: the property quantifies over all values and all byte strings.",
    "level_note": "Trusted: Coq kernel, pygen, extraction (ExtrOcamlBasic) + driver, harness; CPython's struct/utf-8/int-text are modelled (lib/Utf8.v, lib/Decimal.v) and "
                  "validated differentially; frozenset order/dedup is Python's; recursion limit, memory and lengths >= 2^32 are outside (excluded by wf). Two stated limits: "
                  "(1) bytes that give a slice's three fields as a frozenset are unpacked in CPython's hash order: the model answers Unmodelled for them (not covered by "
                  "c04_decode_safe/total; oracle-only in the harness, counted as dec:unmodelled); (2) 'exact type' in brine is a dict lookup keyed by the type object: a class whose "
                  "METACLASS overrides __eq__/__hash__ to impersonate int is accepted as an int and decodes as one - the model's value universe assumes type objects with the "
                  "default hash/eq (assumption below).",
    "technique": "Coq proof by nested induction over an inductive value universe; regenerated tables tied by reflexivity; differential correspondence of the extracted model",
    "gen": ["consts", "brine"],
    "shapes": ["brine.*"],
    "models": ["brine"],
    "model_files": ["Brine"],
    "assumptions": ["type objects use the default __hash__/__eq__ (no metaclass impersonating a registered type)", 
        "CPython: struct packs IEEE doubles bit-exactly; frozenset(tuple(s)) == s; str(int)/int(bytes)/utf-8 codec are "
        "lib/Decimal.v / lib/Utf8.v (validated differentially on every run)",
        "excluded by the property text / 'encodable': integers beyond sys.get_int_max_str_digits(), lengths >= 2^32, "
        "nesting deeper than the interpreter recursion limit",
    ],
}

from rpyc.core import brine

MAXD = sys.get_int_max_str_digits()


class MyInt(int):
    pass


class MyStr(str):
    pass


class MyTuple(tuple):
    pass


class MyFloat(float):
    pass


class MyFset(frozenset):
    pass


class MyBytes(bytes):
    pass


class Color(enum.IntEnum):
    RED = 1


class BadRepr:
    """its repr raises: refusing it must still be a TypeError"""
    def __repr__(self):
        raise RuntimeError("repr of BadRepr")


def _liar(claimed):
    """an object whose __class__ is not its type (mocks, proxies and rpyc's own netrefs do this): the serializer goes by the exact
    TYPE, so such an object is unserializable whatever it claims to be"""
    class Liar:
        __class__ = property(lambda self: claimed)
        def __iter__(self): return iter((1, 2))
        def __len__(self): return 2
        def __repr__(self): return "<liar claiming %s>" % claimed.__name__
    return Liar()


LIARS = [_liar(type(None)), _liar(tuple), _liar(int), _liar(str), _liar(bytes), _liar(bool), _liar(frozenset)]


class LoudRepr:
    """its repr has a side effect: refusing it must not run it"""
    calls = 0

    def __repr__(self):
        LoudRepr.calls += 1
        return "<loud>"


NT = collections.namedtuple("NT", "a b")
OTHERS = [lambda r: [1, 2], lambda r: {"a": 1}, lambda r: {1, 2}, lambda r: bytearray(b"ab"), lambda r: object(),
          lambda r: MyInt(5), lambda r: MyStr("x"), lambda r: MyTuple((1, 2)), lambda r: MyFloat(1.5),
          lambda r: MyFset([1]), lambda r: MyBytes(b"zz"), lambda r: Color.RED, lambda r: NT(1, 2),
          lambda r: len, lambda r: int, lambda r: sys, lambda r: range(3), lambda r: memoryview(b"a"),
          lambda r: BadRepr(), lambda r: LoudRepr()]
LENS = [0, 1, 2, 3, 4, 5, 6, 17, 254, 255, 256, 257, 300, 1000]
BIGLENS = [2999, 3000, 3001, 63994, 63995, 63996, 64000, 64001, 65535, 65536, 70000]
INTS = [0, 1, -1, -0x30, -0x31, -0x2f, 0x9f, 0xa0, 0xa1, 255, 256, -256, 2**31, 2**32, -2**63, 2**64,
        10**254, 10**255 - 1, 10**255, -10**254, -(10**254) + 1, -10**255, 10**600 + 7, -(10**700) + 3]
NEAR_LIMIT = [10**(MAXD - 1), 10**MAXD - 1, 10**MAXD, -(10**MAXD) + 1, -(10**MAXD), 10**(MAXD + 50), (1, 10**MAXD, [1])]
FLOATS = [0.0, -0.0, 1.5, float("inf"), float("-inf"), float("nan"), 5e-324, 1.7976931348623157e308,
          struct.unpack(">d", bytes.fromhex("7ff0000000000001"))[0], struct.unpack(">d", bytes.fromhex("fff8000000000123"))[0],
          struct.unpack(">d", bytes.fromhex("7ff4000000000000"))[0]]
CPS = [0, 0x41, 0x7f, 0x80, 0x7ff, 0x800, 0xd7ff, 0xe000, 0xfffd, 0xffff, 0x10000, 0x10ffff, 0x20ac, 0x1f600]
SURR = [0xd800, 0xdbff, 0xdc00, 0xdfff]


def fbits(x):
    return struct.pack(">d", x)


def gen_value(r, depth, allow_other=True, big=False, surrogates=True):
    k = r.random()
    if depth <= 0:
        k = k * 0.62
    if k < 0.05:
        return r.choice([None, NotImplemented, Ellipsis, True, False])
    if k < 0.20:
        c = r.random()
        if c < 0.5:
            return r.choice(INTS)
        if c < 0.8:
            return r.randint(-300, 300)
        nd = r.choice([1, 5, 20, 254, 255, 256, 257, 1000])
        return r.choice([1, -1]) * r.randrange(10**(nd - 1), 10**nd)
    if k < 0.28:
        return r.choice(FLOATS) if r.random() < 0.6 else struct.unpack(">d", r.randbytes(8))[0]
    if k < 0.32:
        return complex(r.choice(FLOATS), r.choice(FLOATS)) if r.random() < 0.7 else \
            complex(*struct.unpack(">dd", r.randbytes(16)))
    if k < 0.44:
        n = r.choice(BIGLENS) if (big and r.random() < 0.3) else r.choice(LENS)
        return r.randbytes(n)
    if k < 0.56:
        n = r.choice(LENS[:11]) if not big or r.random() < 0.8 else r.choice(BIGLENS[:4])
        pool = CPS + (SURR if surrogates and r.random() < 0.15 else [])
        return "".join(chr(r.choice(pool)) if r.random() < 0.5 else chr(r.randint(32, 126)) for _ in range(n))
    if k < 0.62 and allow_other:
        return r.choice(OTHERS)(r)
    if k < 0.62:
        return None
    # containers
    c = r.random()
    n = r.choice([0, 1, 2, 3, 4, 5, 5, 6]) if r.random() < 0.9 else r.choice([255, 256, 257])
    sub = lambda: gen_value(r, depth - 1 if n < 100 else 0, allow_other, False, surrogates)
    if c < 0.6:
        return tuple(sub() for _ in range(n))
    if c < 0.8:
        try:
            return frozenset(sub() for _ in range(min(n, 6)))
        except TypeError:
            return ()
    return slice(sub(), sub(), sub())


def to_sx(o):
    t = type(o)
    if o is None: return [0]
    if o is NotImplemented: return [1]
    if o is Ellipsis: return [2]
    if t is bool: return [3, o]
    if t is int: return [4, o]
    if t is float: return [5, fbits(o)]
    if t is complex: return [6, fbits(o.real) + fbits(o.imag)]
    if t is bytes: return [7, o]
    if t is str: return [8, [ord(c) for c in o]]
    if t is tuple: return [9, [to_sx(x) for x in o]]
    if t is frozenset: return [10, [to_sx(x) for x in tuple(o)]]
    if t is slice: return [11, to_sx(o.start), to_sx(o.stop), to_sx(o.step)]
    return [12, 1]


def from_sx(x):
    k = x[0]
    if k == 0: return None
    if k == 1: return NotImplemented
    if k == 2: return Ellipsis
    if k == 3: return bool(x[1])
    if k == 4: return x[1]
    if k == 5: return struct.unpack(">d", x[1])[0]
    if k == 6: return complex(*struct.unpack(">dd", x[1]))
    if k == 7: return x[1]
    if k == 8: return "".join(map(chr, x[1]))
    if k == 9: return tuple(from_sx(y) for y in x[1])
    if k == 10: return frozenset(from_sx(y) for y in x[1])
    if k == 11: return slice(from_sx(x[1]), from_sx(x[2]), from_sx(x[3]))
    return object()


def canon(o):
    t = type(o)
    if o is None: return ("none",)
    if o is NotImplemented: return ("notimpl",)
    if o is Ellipsis: return ("ellipsis",)
    if t is bool: return ("bool", o)
    if t is int: return ("int", hex(o))
    if t is float: return ("float", fbits(o).hex())
    if t is complex: return ("complex", fbits(o.real).hex(), fbits(o.imag).hex())
    if t is bytes: return ("bytes", o)
    if t is str: return ("str", tuple(map(ord, o)))
    if t is tuple: return ("tuple", tuple(canon(x) for x in o))
    if t is frozenset: return ("fset", tuple(sorted((canon(x) for x in o), key=repr)))
    if t is slice: return ("slice", canon(o.start), canon(o.stop), canon(o.step))
    return ("other", t.__name__)


def plain(c):
    if c[0] == "other":
        return False
    return all(plain(x) for part in c[1:] if isinstance(part, tuple) for x in ([part] if part and isinstance(part[0], str) else part)
               if isinstance(x, tuple) and x and isinstance(x[0], str))


def has_other(c):
    """does the canonical form contain an object that is not an immutable plain value? (structural: a decoded bytes value
    spelling 'other' is not one)"""
    if not isinstance(c, tuple) or not c:
        return False
    if c[0] == "other":
        return True
    if c[0] in ("tuple", "fset"):
        return any(has_other(x) for x in c[1])
    if c[0] == "slice":
        return any(has_other(x) for x in c[1:])
    return False


def has_surrogate(o):
    t = type(o)
    if t is str: return any(0xd800 <= ord(c) <= 0xdfff for c in o)
    if t in (tuple, frozenset): return any(has_surrogate(x) for x in o)
    if t is slice: return has_surrogate(o.start) or has_surrogate(o.stop) or has_surrogate(o.step)
    return False


def too_big_int(o):
    t = type(o)
    if t is int: return abs(o) >= 10**MAXD
    if t in (tuple, frozenset): return any(too_big_int(x) for x in o)
    if t is slice: return too_big_int(o.start) or too_big_int(o.stop) or too_big_int(o.step)
    return False


def short(o, n=160):
    try:
        s = repr(o)
    except ValueError:
        sys.set_int_max_str_digits(0)
        try:
            s = repr(o)
        except Exception:
            s = "<%s: repr raises>" % type(o).__name__
        finally:
            sys.set_int_max_str_digits(MAXD)
    except Exception:
        s = "<%s: repr raises>" % type(o).__name__
    return s if len(s) <= n else s[:n] + "...(%d chars)" % len(s)


_audit = {"on": False, "events": []}


def _hook(ev, args):
    if _audit["on"] and ev in ("import", "exec", "compile", "pickle.find_class", "os.system", "subprocess.Popen", "open"):
        _audit["events"].append(ev)


sys.addaudithook(_hook)


def impl_load(bs):
    _audit["events"].clear()
    _audit["on"] = True
    try:
        try:
            return ("ok", brine.load(bs))
        except RecursionError:
            return ("recursion", None)
        except Exception as e:
            return ("exc", C.exc_enum(e))
    finally:
        _audit["on"] = False


REPR_DURING_DUMP = [0]


def impl_dump(v):
    before = LoudRepr.calls
    try:
        return ("ok", brine.dump(v))
    except RecursionError:
        return ("recursion", None)
    except Exception as e:
        return ("exc", C.exc_enum(e))
    finally:
        REPR_DURING_DUMP[0] += LoudRepr.calls - before


def _impl_dump_old(v):
    try:
        return ("ok", brine.dump(v))
    except RecursionError:
        return ("recursion", None)
    except Exception as e:
        return ("exc", C.exc_enum(e))


def check_encode(ctx, model, values, sp):
    P = [sp, MAXD]
    cases = []
    for v in values:
        sxv = to_sx(v)
        cases.append(["dumpable", P, sxv])
        cases.append(["dump", P, sxv])
    res = model.batch(cases) if model else None
    for i, v in enumerate(values):
        try:
            d = brine.dumpable(v)
        except RecursionError:
            continue
        kind, out = impl_dump(v)
        if kind == "recursion":
            continue
        cv = canon(v)
        ctx.case(("enc", cv), nontrivial=(cv[0] not in ("none", "bool")), sample={"encode": short(v), "dumpable": d, "dump": kind if kind != "ok" else out[:24].hex()})
        ctx.count("enc:" + cv[0])
        ctx.count("enc:outcome:" + (kind if kind == "ok" else out))
        # --- the property's oracle on the implementation
        if d:
            if kind == "ok":
                k2, back = impl_load(out)
                if k2 != "ok" or canon(back) != cv:
                    ctx.violation("roundtrip-mismatch:" + cv[0], {"value_sx": C.sx_dumps(to_sx(v)), "repr": short(v, 300)}, observed=short(back), expected=short(v),
                                  what="load(dump(x)) differs from x")
            elif too_big_int(v) and out == "ValueError":
                ctx.count("enc:excluded-int-too-big")
            elif has_surrogate(v) and out == "UnicodeError":
                ctx.violation("dumpable-but-unencodable:lone-surrogate-text", {"value_sx": C.sx_dumps(to_sx(v)), "repr": short(v, 300)}, observed=out, expected="dump succeeds",
                              what="dumpable(x) is True but dump(x) raises UnicodeEncodeError for text with lone surrogates")
            else:
                ctx.violation("dumpable-but-dump-fails:" + cv[0] + ":" + str(out), {"value_sx": C.sx_dumps(to_sx(v)), "repr": short(v, 300)}, observed=out, expected="dump succeeds",
                              what="dumpable(x) is True but dump(x) raises")
        else:
            if kind == "exc" and out == "ValueError" and too_big_int(v):
                ctx.count("enc:excluded-int-too-big")
            elif kind == "exc" and out == "UnicodeError" and has_surrogate(v):
                ctx.violation("dumpable-but-unencodable:lone-surrogate-text", {"value_sx": C.sx_dumps(to_sx(v)), "repr": short(v, 300)}, observed=out, expected="TypeError",
                              what="text with lone surrogates makes dump() raise UnicodeEncodeError (here before reaching the unserializable item)")
            elif not (kind == "exc" and out == "TypeError"):
                ctx.violation("undumpable-not-TypeError:" + cv[0], {"value_sx": C.sx_dumps(to_sx(v)), "repr": short(v, 300)}, observed=(kind, out if kind != "ok" else out.hex()[:80]),
                              expected="TypeError", what="dumpable(x) is False but dump(x) does not raise TypeError")
        # --- correspondence with the model
        if res is not None:
            md, mo = res[2 * i], res[2 * i + 1]
            ctx.model_traces += 1
            if bool(md) != bool(d):
                ctx.tie_broken("correspondence:dumpable", "value %s model %r impl %r" % (short(v), md, d))
            mk = mo[0].decode()
            if mk == "ok":
                if kind != "ok" or out != mo[1]:
                    ctx.tie_broken("correspondence:dump", "value %s model %s impl %s" % (short(v), mo[1].hex()[:80], (kind, out if kind != 'ok' else out.hex()[:80])))
            elif mk == "exc":
                if kind != "exc" or out != mo[1].decode():
                    ctx.tie_broken("correspondence:dump", "value %s model exc %s impl %s" % (short(v), mo[1], (kind, out if kind != 'ok' else out.hex()[:80])))
            else:
                ctx.tie_broken("correspondence:dump", "value %s model %s" % (short(v), mk))


def mutate(r, bs):
    bs = bytearray(bs)
    for _ in range(r.choice([1, 1, 2, 3])):
        c = r.random()
        if not bs or c < 0.2:
            bs.insert(r.randint(0, len(bs)), r.randrange(256))
        elif c < 0.6:
            bs[r.randrange(len(bs))] = r.choice([r.randrange(256), r.randrange(0x20), 0x08, 0x19, 0x1a, 0x16, 0x17, 0x0f, 0x15])
        elif c < 0.8:
            if r.random() < 0.5:
                del bs[r.randrange(len(bs)):]
            else:
                del bs[r.randrange(len(bs))]
        else:
            i = r.randrange(len(bs))
            bs[i:i] = r.choice([b"\x19", b"\x1a", b"\x08", b"\x16\x03 1 ", b"\x16\x04+1_0", b"\x15\xff\xff\xff\xff", b"\x0f\x00\x00\x00\x02", b"\x14\x03"])
    return bytes(bs)


def check_decode(ctx, model, blobs, sp):
    P = [sp, MAXD]
    res = model.batch([["load", P, b] for b in blobs]) if model else None
    for i, b in enumerate(blobs):
        kind, out = impl_load(b)
        if kind == "recursion":
            continue
        ctx.case(("dec", b), nontrivial=len(b) > 1, sample={"decode": b[:40].hex(), "result": short(out, 80)})
        ctx.count("dec:outcome:" + (kind if kind == "ok" else out))
        if _audit["events"]:
            ctx.violation("decode-side-effect:" + _audit["events"][0], {"bytes": b.hex()}, observed=list(_audit["events"]), expected="no import/exec/open",
                          what="decoding bytes triggered an import/exec/open audit event")
        if kind == "ok":
            cv = canon(out)
            if has_other(cv):
                ctx.violation("decode-constructs-foreign-object", {"bytes": b.hex()}, observed=short(out), expected="immutable plain value",
                              what="load() returned a value that is not an immutable plain value")
        if res is not None:
            m = res[i]
            mk = m[0].decode()
            ctx.model_traces += 1
            if mk == "unmodelled":
                ctx.count("dec:unmodelled")
                continue
            if mk == "ok":
                if kind != "ok" or canon(from_sx(m[1])) != canon(out):
                    ctx.tie_broken("correspondence:load", "bytes %s model %s impl %s" % (b.hex()[:120], short(from_sx(m[1])), (kind, short(out))))
            elif mk == "exc":
                if kind != "exc" or m[1].decode() != out:
                    ctx.tie_broken("correspondence:load", "bytes %s model exc %s impl %s" % (b.hex()[:120], m[1], (kind, short(out))))
            else:
                ctx.tie_broken("correspondence:load", "bytes %s model %s" % (b.hex()[:120], mk))


def deep_wide(ctx):
    """nests whose tuples have 5 items (the one-byte-count form) at depths near the interpreter's recursion limit: whatever the
    encoder manages to encode, the decoder must decode to the same value (compared by ==, which does not recurse in Python)"""
    for width, depths in ((5, [100, 200, 300, 330, 360, 400, 450, 480]), (2, [100, 300, 480]), (300, [50, 200, 330])):
        for d in depths:
            v = tuple(range(width))
            for _ in range(d):
                v = (v,) + tuple(range(width - 1))
            case = {"deep_wide": [width, d]}
            ctx.case(("deep", width, d), nontrivial=True, sample=case)
            ctx.count("deep-nest:width-%d" % width)
            try:
                ok = brine.dumpable(v)
                b = brine.dump(v)
            except RecursionError:
                ctx.count("deep-nest:encoder-hit-the-recursion-limit")
                continue
            try:
                back = brine.load(b)
                if back != v:
                    ctx.violation("roundtrip-mismatch:deep-tuple", case, observed="different value", expected="the same value", what="load(dump(x)) differs from x for a deeply nested tuple")
            except RecursionError:
                ctx.violation("encodes-but-does-not-decode:deep-tuple:RecursionError", case, observed="RecursionError in load", expected="the same value",
                              what="a nested tuple the encoder handles (depth %d, %d items per level) cannot be decoded: the decoder needs more stack per level" % (d, width))


def gen_params():
    # the model parameter sp follows the generated fact (falls back to strict)
    return C.gen_fact("brine", "str_encode_surrogatepass", default=False)


def run(ctx):
    r = ctx.rng
    model = C.Model("brine")
    model = model if model.available() else None
    sp = gen_params()
    n_enc, n_dec = (1500, 1500) if ctx.quick else (40000, 40000)
    ctx.coverage_extra["rule"] = ("encode side: values generated from a seeded PRNG with boundary-biased sizes (0..5,255,256,257, "
                                  "chunk/threshold edges), immediate-int edges, 255/256-digit and max-digit ints, NaN payloads, lone surrogates, "
                                  "subclass/enum/namedtuple instances; decode side: random bytes and mutations of valid encodings; "
                                  "non-trivial = anything but None/bool (encode) or longer than one byte (decode); distinct by canonical form")
    # corpus first
    corpus = NEAR_LIMIT + ["\ud800", ("a", "\udfff"), (), (1,) * 255, (1,) * 256, b"x" * 255, b"x" * 256, "é" * 128, frozenset([1, 1.0, True]),
              slice(None, (1, "a"), 2.5), -0x30, -0x31, 0x9f, 0xa0, MyInt(3), (MyStr("a"),), float("nan")] + LIARS + [(1, x) for x in LIARS] + [frozenset([LIARS[2]]), slice(LIARS[0], 1, 2)]
    values = list(corpus)
    depth = 4 if ctx.quick else 6
    for i in range(n_enc):
        values.append(gen_value(r, r.choice([0, 1, 2, depth]), big=(i % 25 == 0)))
    # deep nesting
    for d in ([40] if ctx.quick else [40, 200]):
        v = ()
        for _ in range(d):
            v = (v, 1)
        values.append(v)
    check_encode(ctx, model, values, sp)
    deep_wide(ctx)
    if REPR_DURING_DUMP[0]:
        ctx.violation("refusal-runs-the-objects-repr", {"object": "LoudRepr"}, observed=REPR_DURING_DUMP[0], expected=0,
                      what="refusing an unserializable object called its __repr__ (for a netref that is a remote call)")
    blobs = [b"", b"\x19\x0c\x61\x62\x63", b"\x1a\x0c\x61\x62\x61", b"\x08\x55", b"\x16\x03 1 ", b"\x16\x04+1_0", b"\x16\x021_", b"\x18\x00",
             b"\x15\xff\xff\xff\xff\x00", b"\x0d\x61", b"\x08\x0b\xed\xa0", b"\x08\x0c\xed\xa0\x80", b"\x19\x12\x55\x55", b"\x07", b"\xff", b"\x14"]
    for i in range(n_dec):
        c = r.random()
        if c < 0.25:
            blobs.append(r.randbytes(r.choice([1, 2, 3, 5, 9, 20])))
        else:
            try:
                base = brine.dump(gen_value(r, r.choice([0, 1, 2, 3]), allow_other=False, surrogates=False))
            except Exception:
                base = b"\x00"
            blobs.append(mutate(r, base) if c < 0.85 else base)
    check_decode(ctx, model, blobs, sp)


def replay(ctx, rep):
    case = rep["case"] or {}
    model = C.Model("brine")
    model = model if model.available() else None
    if "deep_wide" in case or "object" in case:
        deep_wide(ctx)
        check_encode(ctx, model, [BadRepr(), (1, LoudRepr()), frozenset([BadRepr()])], gen_params())
    elif "bytes" in case:
        check_decode(ctx, model, [bytes.fromhex(case["bytes"])], gen_params())
    elif "value_sx" in case:
        check_encode(ctx, model, [from_sx(C.sx_loads(case["value_sx"]))], gen_params())
