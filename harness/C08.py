"""C08 — every request gets exactly one response, delivered to its own requester.
A real Connection (the serving side) receives streams of requests from (a) a real client Connection issuing
synchronous / asynchronous / nested requests and (b) a raw reference peer emitting malformed requests; a frame tap
builds the ledger.  Oracle = the property; each request's outcome class is also run through model/Proto.v."""
import sys
from harness import common as C
from harness import refcodec as R
from harness.memstream import MemStream

META = {
    "level": "proof",
    "level_text": "props/C08.v: for any stream of requests with distinct numbers and ANY outcome of serving each (malformed request, arguments that cannot be decoded, unknown "
                  "handler, handler failure, result or exception record the serializer rejects while encoding) every request gets exactly one response frame with its own number, "
                  "its handler runs at most once and nothing escapes the serving loop — provided the generated facts say each step sits inside the guarded region and the answer's "
                  "encoding is guarded; the refutations are proved for a tree where it is not (finding F2). One stated exclusion: a handler raising SystemExit/KeyboardInterrupt on a "
                  "connection whose configuration marks that class for local propagation is NOT answered (c08_marked_exception_refuted; the default configuration marks "
                  "KeyboardInterrupt: known finding F26). The serving-side theorem is PER REQUEST (outcomes are oracles): nesting and the number outstanding matter to it only through "
                  "each request's own outcome; that a nested dispatch cannot disturb the outer request's answer is carried by the exact statement lists of _dispatch_request "
                  "(generated, fail-closed) and by the harness (handlers whose callback issues requests of its own and then return / raise / return something unencodable). "
                  "A response the requester cannot rebuild is routed like an exception response (c08_undecodable_response; F47). Requester side over any history: registered numbers distinct, a response "
                  "invokes exactly its own callback and removes it, answered numbers stay unknown, a failed send unregisters. The facts are regenerated from _dispatch_request / "
                  "_dispatch / _seq_request_callback / _async_request on every run; real request streams (sync, async up to 16 outstanding, nested, raw malformed) are checked "
                  "against a frame ledger and against the extracted model; returned values and exception classes are compared with what each request's own handler produced; "
                  "the requester-side histories (including unsolicited and duplicate responses, failed sends) run on a real Connection.",
    "level_note": "Trusted: Coq kernel, pygen, extraction+driver, harness (in-memory streams, frame tap, reference codec). The outcome of a handler and whether a value encodes are "
                  "oracles in the theorems (the latter is C04's dump). A message that cannot be decoded at all has no number to answer. The replacement for an exception record that cannot be encoded is assumed encodable (an exception whose repr itself raises an unencodable error defeats it: not generated). "
                  "A send interrupted by a BaseException that is not an Exception (KeyboardInterrupt inside the write) leaves the callback registered: outside ERequest's two outcomes. Multi-threaded serving is C12/C13.",
    "technique": "Coq proof by induction over request streams with universally quantified outcome oracles; generated guarded-region facts select theorem vs refutation; ledger-based differential run",
    "gen": ["dispatch"],
    "shapes": ["dispatch.*", "protocol.Connection._dispatch", "protocol.Connection._seq_request_callback", "protocol.Connection._async_request", "protocol.Connection._box_exc",
               "protocol.Connection._dispatch_request", "protocol.Connection._send_exc", "protocol.Connection._dispatch_response", "protocol.Connection._send"],
    "models": ["proto"],
    "model_files": ["Proto"],
    "assumptions": ["handler outcomes and encodability are universally quantified oracles in the theorems"],
}

import rpyc
from rpyc.core import brine, consts
from rpyc.core.channel import Channel
from rpyc.core.protocol import Connection

MAXD = sys.get_int_max_str_digits()
BIG = 10 ** (MAXD + 10)          # dumpable() is True but str(int) refuses: the serializer rejects it while encoding


class Srv(rpyc.Service):
    def __init__(self):
        self.calls = {}

    def _hit(self, key):
        self.calls[key] = self.calls.get(key, 0) + 1

    def exposed_val(self, key, v): self._hit(key); return v
    def exposed_ref(self, key): self._hit(key); return [key]
    def exposed_boom(self, key): self._hit(key); raise ValueError("boom", key)
    def exposed_big(self, key): self._hit(key); return BIG
    def exposed_bigtuple(self, key): self._hit(key); return (1, (BIG, "x"))
    def exposed_boombig(self, key): self._hit(key); raise ValueError(BIG)
    def exposed_nested(self, key, cb): self._hit(key); return cb(key) + 1
    def exposed_nestboom(self, key, cb): self._hit(key); cb(key); raise ValueError("boom after nesting", key)
    def exposed_nestbig(self, key, cb): self._hit(key); cb(key); return BIG
    def exposed_stop(self, key): self._hit(key); raise StopIteration()
    def exposed_boombig2(self, key): self._hit(key); raise NeedsArg(BIG)
    def exposed_odd(self, key): self._hit(key); raise Odd("not an Exception subclass", key)
    def exposed_genexit(self, key): self._hit(key); raise GeneratorExit()
    def exposed_egroup(self, key): self._hit(key); raise ExceptionGroup("several", [ValueError(key), KeyError(key)])
    def exposed_raise_(self, key, name): self._hit(key); raise {"KeyboardInterrupt": KeyboardInterrupt, "SystemExit": SystemExit}[name]("from the handler")


class Odd(BaseException):
    pass


class NeedsArg(Exception):
    def __init__(self, a):
        Exception.__init__(self, a)


class Cli(rpyc.Service):
    pass


def gen_facts():
    return [C.gen_fact("dispatch", k) for k in ("unpack_in_try", "unbox_in_try", "handler_in_try", "reply_encode_guarded", "exc_encode_guarded", "reraises_marked")]


class Bench:
    """client Connection <-> serving Connection over MemStreams with a frame tap; the server is pumped like serve_all would"""

    def __init__(self, server_config=None):
        self.sc, self.ss = MemStream.pair("cli", "srv")
        self.ledger = []
        self.want = {}
        self.buf = {"cli": bytearray(), "srv": bytearray()}

        def tap(name, data):
            b = self.buf[name]
            b += data
            while True:
                u = R.unframe(b)
                if u is None:
                    break
                pl, flag, rest, nl = u
                b[:] = rest
                try:
                    m, _ = R.dec(pl)
                    self.ledger.append((name, m[0], m[1]))
                except Exception:
                    self.ledger.append((name, "undecodable", None))
        self.sc.tap = tap
        self.ss.tap = tap
        self.srv_service = Srv()
        self.server = Connection(self.srv_service, Channel(self.ss), config=dict(server_config or {}))
        self.client = Connection(Cli(), Channel(self.sc), config={"sync_request_timeout": 30})   # generous: a loaded machine must not look like a lost response
        self.crashes = []

        def pump_server():
            if self.server.closed or not self.ss.inbox:
                return False
            try:
                if self.server._recvlock.locked():
                    # the server is itself waiting inside a handler (nested call): its own wait loop would read this frame and
                    # dispatch it re-entrantly on that stack - emulate exactly that
                    data = self.server._channel.recv()
                    self.server._recvlock.release()
                    try:
                        self.server._dispatch(data)
                    finally:
                        self.server._recvlock.acquire()
                else:
                    self.server.serve(0)
            except EOFError:
                return False
            except BaseException as e:          # what serve_all does: anything else ends the serving loop and closes
                self.crashes.append(repr(e)[:200])
                self.server.close()
                return False
            return True

        def pump_client():
            if self.client.closed or not self.sc.inbox:
                return False
            try:
                if self.client._recvlock.locked():
                    data = self.client._channel.recv()
                    self.client._recvlock.release()
                    try:
                        self.client._dispatch(data)
                    finally:
                        self.client._recvlock.acquire()
                else:
                    self.client.serve(0)
            except EOFError:
                return False
            return True
        self.sc.on_idle = pump_server
        self.ss.on_idle = pump_client
        self.pump_server = pump_server

    def raw(self, kind, seq, args):
        """a raw frame from the client side's transport (as a non-rpyc peer would send it)"""
        self.sc.write(R.frame(R.msg(kind, seq, args), False))
        while self.pump_server():
            pass


def V(x): return (R.LABEL_VALUE, x)


LOST = {"n": 0}


def collect(ar):
    """the outcome of an asynchronous request, waiting at most 30 s for it (0.5 s once a response of this stream has gone missing)"""
    ar.set_expiry(30 if not LOST["n"] else 0.5)
    try:
        return ("value", ar.value)
    except EOFError:
        return ("EOFError", None)
    except BaseException as e:
        if type(e).__name__ in ("TimeoutError", "AsyncResultTimeout"):
            LOST["n"] += 1
        return ("exc", type(e).__name__)


def run_stream(ctx, r, n_ops):
    LOST["n"] = 0
    b = Bench()
    root = b.client.root
    expect = []       # (key, outcome class, observed by requester)
    pend = []
    key = 0
    raw_seq = 10**6
    raw_reqs = []     # (seq, outcome class)
    for _ in range(n_ops):
        if b.server.closed or b.client.closed:
            break
        key += 1
        c = r.random()
        kind = r.choice(["val", "val", "ref", "boom", "big", "bigtuple", "boombig", "boombig2", "nested", "nested2", "nestboom", "nestbig", "stop", "odd", "genexit"]) if c < 0.7 else "raw"
        if kind == "raw":
            raw_seq += 1
            shape = r.choice(["badshape", "badlabel", "stale", "nohandler", "unhashable", "arity"])
            rootid = b.ledger and None
            if shape == "badshape":
                args = r.choice([5, (1, 2, 3), "xy", None, ()])
                oc = [0]
            elif shape == "badlabel":
                args = (R.H["PING"], (9, 1)); oc = [1]
            elif shape == "stale":
                args = (R.H["REPR"], (R.LABEL_TUPLE, ((R.LABEL_LOCAL_REF, ("builtins.list", 1, 12345)),))); oc = [1]
            elif shape == "nohandler":
                args = (r.choice([0, 21, -1, 99]), V(())); oc = [2]
            elif shape == "unhashable":
                args = (slice(1, 2), V(())); oc = [2]
            else:
                args = (R.H["PING"], V((1, 2, 3))); oc = [4, True]     # handler raises TypeError (wrong arity): encodable exception
            b.raw(R.MSG_REQUEST, raw_seq, args)
            raw_reqs.append((raw_seq, oc, shape))
            continue
        mode = r.choice(["sync", "async", "async"])
        try:
            if kind == "val":
                from harness.C04 import gen_value
                v = gen_value(r, 1, allow_other=False)
                b.want[key] = ("val", v)
                call, oc = (lambda k=key, v=v: root.val(k, v)), [3, True]
                acall = (rpyc.async_(root.val), (key, v))
            elif kind == "nested":
                b.want[key] = ("eq", 2 * key + 1)
                call, oc = (lambda k=key: root.nested(k, lambda x: x * 2)), [3, True]
                acall = (rpyc.async_(root.nested), (key, lambda x: x * 2))
            elif kind in ("nested2", "nestboom", "nestbig"):
                # the callback itself issues requests to the server while the server's handler waits for it: the server dispatches them
                # re-entrantly; then the outer handler returns / raises / returns something the serializer rejects
                def cb(x, k=key):
                    a = root.val(k * 1000 + 1, x)                # a nested request, answered while the outer one is being served
                    try:
                        root.boom(k * 1000 + 2)                  # and one that fails
                    except ValueError:
                        pass
                    return a * 2
                meth = {"nested2": "nested", "nestboom": "nestboom", "nestbig": "nestbig"}[kind]
                if kind == "nested2":
                    b.want[key] = ("eq", 2 * key + 1)
                oc = {"nested2": [3, True], "nestboom": [4, True], "nestbig": [3, False]}[kind]
                call = (lambda k=key, m=meth, f=cb: getattr(root, m)(k, f))
                acall = (rpyc.async_(getattr(root, meth)), (key, cb))
            else:
                oc = {"ref": [3, True], "boom": [4, True], "big": [3, False], "bigtuple": [3, False], "boombig": [4, False], "boombig2": [4, False], "stop": [4, True], "odd": [4, True], "genexit": [4, True]}[kind]
                if kind == "ref":
                    b.want[key] = ("list", [key])
                call = (lambda k=key, m=kind: getattr(root, m)(k))
                acall = (rpyc.async_(getattr(root, kind)), (key,))
        except EOFError:
            break
        if mode == "sync" or len(pend) >= 16:
            try:
                res = ("value", call())
            except EOFError:
                res = ("EOFError", None)
            except BaseException as e:
                res = ("exc", type(e).__name__)
            expect.append((key, kind, oc, res))
            if res[0] == "exc" and res[1] in ("TimeoutError", "AsyncResultTimeout"):
                LOST["n"] += 1
                break          # a response went missing (30 s each): this stream has shown it, do not wait for the next ones
        else:
            try:
                ar = acall[0](*acall[1])
                pend.append((key, kind, oc, ar))
            except EOFError:
                expect.append((key, kind, oc, ("EOFError", None)))
        if pend and r.random() < 0.3:
            j = r.randrange(len(pend))
            k2, kind2, oc2, ar = pend.pop(j)
            expect.append((k2, kind2, oc2, collect(ar)))
    for k2, kind2, oc2, ar in pend:
        expect.append((k2, kind2, oc2, collect(ar)))
    usable = True
    try:
        b.client.ping("still-alive", timeout=30 if not LOST["n"] else 2)
    except BaseException as e:
        usable = False
    return b, expect, raw_reqs, usable


def check_stream(ctx, model, b, expect, raw_reqs, usable, case):
    # release notices for proxies collected at the very end may still sit unread in the server's stream (nobody waits for them):
    # let the server read what was sent before counting responses, and the client read the answers
    for _ in range(10000):
        if not (b.pump_server() or (b.ss.on_idle and b.ss.on_idle())):
            break
    # ledger: every request frame from the client side must have exactly one response frame from the server side with its number
    reqs = [(s) for (who, k, s) in b.ledger if who == "cli" and k == R.MSG_REQUEST]
    resp = {}
    for who, k, s in b.ledger:
        if who == "srv" and k in (R.MSG_REPLY, R.MSG_EXCEPTION):
            resp.setdefault(s, []).append(k)
    facts = gen_facts()
    sig_unenc = None
    for s in reqs:
        n = len(resp.get(s, []))
        if n != 1:
            # classify by what was being served
            what = "request-got-%d-responses" % n
            if any(kind in ("big", "bigtuple") for (_, kind, oc, res) in expect if res[0] == "EOFError") or b.crashes:
                what = "reply-encode-failure-escapes-dispatch" if any("ValueError" in c or "Exceeds" in c for c in b.crashes) else what
            ctx.violation(what, case, observed={"seq": s, "responses": resp.get(s, []), "server_crashes": b.crashes[:2]}, expected="exactly one response",
                          what="a request did not get exactly one response (the serving side %s)" % ("raised out of its serving loop: " + b.crashes[0][:80] if b.crashes else "stayed up"))
            break
    for key, kind, oc, res in expect:
        n = b.srv_service.calls.get(key, 0)
        if n > 1:
            ctx.violation("handler-executed-%d-times" % n, case, observed=n, expected="at most once", what="a request was executed more than once")
        if res[0] == "EOFError" and not b.crashes and not b.server.closed:
            ctx.violation("requester-got-EOFError", case, observed=res, expected="value or exception", what="requester saw EOFError although the peer is up")
        want_exc = oc[0] == 4 or (oc[0] == 3 and not oc[1])
        if res[0] == "value" and not want_exc and key in b.want:
            how, w = b.want[key]
            try:
                from harness.C04 import canon
                same = (canon(res[1]) == canon(w)) if how == "val" else (list(res[1]) == w if how == "list" else res[1] == w)
            except Exception as e:
                same = "comparison raised " + type(e).__name__
            if same is not True:
                ctx.violation("response-carries-another-value", case, observed={"kind": kind, "same": same}, expected="the value this request's handler returned",
                              what="a request returned a value other than the one its own handler produced (crossed or altered response)")
        if res[0] == "exc" and res[1] in ("TimeoutError", "AsyncResultTimeout"):
            ctx.violation("response-not-delivered-to-its-request", case, observed=res, expected="its response", what="a request timed out although the peer is up: its response never reached it")
        cls_want = {"boom": "ValueError", "nestboom": "ValueError", "stop": "StopIteration", "genexit": "GeneratorExit"}.get(kind)
        if res[0] == "exc" and cls_want and res[1] != cls_want:
            ctx.violation("requester-got-another-exception:" + str(res[1]), case, observed=res, expected=cls_want, what="the exception delivered is not the one the handler raised")
        if res[0] == "value" and want_exc:
            ctx.violation("requester-got-value-instead-of-exception", case, observed=res[0], expected="exception", what="a failing request returned a value")
        if res[0] == "exc" and not want_exc:
            ctx.violation("requester-got-exception-instead-of-value:" + str(res[1]), case, observed=res, expected="value", what="a successful request raised at the requester")
        if res[0] == "EOFError" and (b.crashes or b.server.closed) and not any(v[0].startswith("reply-encode") or v[0].startswith("request-got") for v in ctx.violations) and not ctx.known_hits:
            ctx.violation("reply-encode-failure-escapes-dispatch", case, observed={"kind": kind, "crash": b.crashes[:1]}, expected="an exception reply",
                          what="the serving side tore the connection down instead of answering with an exception")
    if not usable and not (b.crashes or b.server.closed):
        ctx.violation("connection-unusable-after-stream", case, observed="ping failed", expected="ping ok", what="connection not usable after the request stream")
    if (b.crashes or b.server.closed):
        enc = (not b.crashes) or any(("Exceeds the limit" in c or "RecursionError" in c or "struct.error" in c) for c in b.crashes)
        ctx.violation("reply-encode-failure-escapes-dispatch" if enc else "exception-escapes-dispatch:" + b.crashes[0].split("(")[0], case, observed={"crash": b.crashes[:1]}, expected="connection stays up",
                      what="an answer the serializer rejects while encoding escaped _dispatch_request and ended the connection")
    # ---- model
    if model is None:
        return
    items, meta = [], []
    seq_of = {}
    # request numbers of real-client requests are not known per key; use the ledger order for raw requests (numbers we chose)
    for s, oc, shape in raw_reqs:
        items.append([s, oc]); meta.append((s, oc, shape))
    if not items:
        return
    out = model.batch([["serve", facts, items]], shards=1)[0]
    for (s, oc, shape), m in zip(meta, out):
        ctx.model_traces += 1
        frames, inv, crashed = m
        got = [(k, s2) for (who, k, s2) in b.ledger if who == "srv" and s2 == s]
        exp = [(f[0], f[1]) for f in frames]
        if got != exp and not b.crashes:
            ctx.tie_broken("correspondence:raw-request", "shape %s seq %s model frames %s impl %s" % (shape, s, exp, got))


class _Chan:
    """a channel whose send can be told to fail; nothing is ever received"""
    def __init__(self): self.fail, self.closed, self.sent = False, False, []
    def send(self, data):
        if self.fail:
            raise EOFError("injected send failure")
        self.sent.append(data)
    def poll(self, timeout): return False
    def recv(self): raise EOFError("nothing")
    def close(self): self.closed = True
    def fileno(self): return -1


def RESP_GUARDED():
    return C.gen_fact("dispatch", "response_decode_guarded")


def real_requester(evs):
    """the same history on a real Connection: [0, cb, ok] = _async_request with callback cb (send fails unless ok);
    [1, seq, is_exc] = a MSG_REPLY / MSG_EXCEPTION frame bearing seq is dispatched (known, unknown or already answered)"""
    from rpyc.core import vinegar
    ch = _Chan()
    conn = Connection(rpyc.VoidService(), ch, config={})
    log = []
    told_sent = []          # sequence numbers of the requests whose _async_request returned (the caller was NOT told the send failed)
    try:
        first = None
        for e in evs:
            if e[0] == 0:
                ch.fail = not e[2]
                before = set(conn._request_callbacks)
                try:
                    conn._async_request(consts.HANDLE_PING, (b"x",), (lambda is_exc, obj, cb=e[1]: log.append([cb, 1 if is_exc else 0])))
                    told_sent.extend(sorted(set(conn._request_callbacks) - before))
                except EOFError:
                    pass
                finally:
                    ch.fail = False
            elif e[0] == 2:
                # alternately: an exception record of a class that cannot be re-created here / a reply naming an object this side never lent
                bad = (consts.MSG_EXCEPTION, e[1], (("builtins", "ExceptionGroup"), (), (), "tb")) if e[1] % 2 == 0 else \
                      (consts.MSG_REPLY, e[1], (consts.LABEL_LOCAL_REF, ("builtins.list", 1, 12345)))
                try:
                    conn._dispatch(brine.dump(bad))
                except (TypeError, KeyError):
                    pass            # unguarded tree: the decode error escapes _dispatch (the model says: nothing changes at the requester)
            else:
                if e[2]:
                    args = vinegar.dump(ValueError, ValueError("x"), None, True, True)
                    conn._dispatch(brine.dump((consts.MSG_EXCEPTION, e[1], args)))
                else:
                    conn._dispatch(brine.dump((consts.MSG_REPLY, e[1], (consts.LABEL_VALUE, 7))))
        nxt = next(conn._seqcounter)
        wire = [brine.load(d)[1] for d in ch.sent if brine.load(d)[0] == consts.MSG_REQUEST]
        return {"next": nxt, "callbacks": sorted((q, f.__defaults__[0]) for q, f in conn._request_callbacks.items()), "log": log, "keys": sorted(conn._request_callbacks),
                "wire": wire, "told_sent": told_sent}
    except BaseException as ex:
        return {"error": "%s: %s" % (type(ex).__name__, ex)}
    finally:
        conn._closed = True


def local_propagation(ctx, model, facts):
    """a handler that raises SystemExit / KeyboardInterrupt, under the default configuration and with the two propagate_*_locally switches
    both off / both on. Property: the requester gets an exception and the connection remains usable. With a switch ON by the user's
    explicit choice the class is outside what this check demands (the switch exists to opt out); under the DEFAULT configuration it is demanded."""
    for cfg_name, cfg in (("default", {}), ("off", {"propagate_SystemExit_locally": False, "propagate_KeyboardInterrupt_locally": False}),
                          ("on", {"propagate_SystemExit_locally": True, "propagate_KeyboardInterrupt_locally": True})):
        for name in ("KeyboardInterrupt", "SystemExit"):
            b = Bench(cfg)
            marked = b.server._config["propagate_%s_locally" % name]
            try:
                b.client.root.raise_(1, name)
                res = ("value", None)
            except EOFError:
                res = ("EOFError", None)
            except BaseException as e:
                res = ("exc", type(e).__name__)
            try:
                b.client.ping("x", timeout=30); usable = True
            except BaseException:
                usable = False
            frames = [(k, q) for who, k, q in b.ledger if who == "srv" and k in (R.MSG_REPLY, R.MSG_EXCEPTION)]
            reqs = [q for who, k, q in b.ledger if who == "cli" and k == R.MSG_REQUEST]
            case = {"local_propagation": [cfg_name, name]}
            ctx.case(("local", cfg_name, name), nontrivial=True, sample={"case": case, "requester": res, "usable": usable, "server_crashes": b.crashes[:1]})
            ctx.count("handler-raises:%s:%s" % (name, cfg_name))
            answered = res[0] == "exc" and res[1] == name and usable and not b.crashes
            if cfg_name != "on" and not answered:
                ctx.violation("handler-exception-propagated-locally:%s:%s-config" % (name, cfg_name), case, observed={"requester": res, "usable": usable, "server": b.crashes[:1]},
                              expected="the requester gets %s and the connection remains usable" % name,
                              what="a handler raising %s under the %s configuration is not answered: the exception leaves the serving loop and the connection ends" % (name, cfg_name))
            if model:
                m = model.batch([["serve", facts, [[5, [5] if marked else [4, True]]]]], shards=1)[0][0]
                ctx.model_traces += 1
                mframes, minv, mcr = m
                if bool(mcr) != bool(b.crashes) or (len(mframes) == 1) != (res[0] == "exc"):
                    ctx.tie_broken("correspondence:local-propagation", "%s model frames %s crashed %s; real requester %s crashes %s" % (case, mframes, mcr, res, b.crashes[:1]))
            try:
                b.client.close()
            except Exception:
                pass


def long_lived_connection(ctx):
    """sequence numbers far into a connection's life: a request stays outstanding while the connection's counter stands at 2**16, 2**31,
    2**32, 2**63, 2**64 (+- a few).  Every outstanding request must have a number of its own, and each reply must reach its own requester
    (seed C08-r10m1: the number is truncated to 16 bits, so the 65536th request after an unanswered one takes over its callback)."""
    import itertools
    for start in (2 ** 16, 2 ** 31, 2 ** 32, 2 ** 63, 2 ** 64, 10 ** 30):
        ch = _Chan()
        conn = Connection(rpyc.VoidService(), ch, config={})
        log = []
        case = {"long_lived_connection": {"old_request_number": "first of the connection", "counter_then_at": start - 3, "later_requests": 6}}
        ctx.case(("long-lived", start), nontrivial=True, sample=case)
        ctx.count("phase:long-lived-connection")
        try:
            first = next(conn._seqcounter)       # where this connection's numbers start
            conn._seqcounter = itertools.count(first)
            conn._async_request(consts.HANDLE_PING, (b"old",), (lambda is_exc, obj: log.append(["old", obj])))
            # ... `start` requests later (all answered meanwhile) ...
            conn._seqcounter = itertools.count(first + start - 3)
            for k in range(6):
                conn._async_request(consts.HANDLE_PING, (b"x",), (lambda is_exc, obj, k=k: log.append([k, obj])))
            wire = [brine.load(d)[1] for d in ch.sent if brine.load(d)[0] == consts.MSG_REQUEST]
            registered = len(conn._request_callbacks)
            for j, q in enumerate(wire):
                conn._dispatch(brine.dump((consts.MSG_REPLY, q, (consts.LABEL_VALUE, "reply-%d" % j))))
            want = [["old", "reply-0"]] + [[k, "reply-%d" % (k + 1)] for k in range(6)]
            if len(set(wire)) != len(wire) or registered != 7 or log != want or conn._request_callbacks:
                ctx.violation("outstanding-requests-share-a-number:long-lived-connection", case,
                              observed={"numbers on the wire": [str(x) for x in wire], "callbacks registered": registered, "delivered": log[:8], "left": len(conn._request_callbacks)},
                              expected={"distinct numbers": 7, "delivered": want},
                              what="a request issued while an earlier one was still unanswered got the earlier one's sequence number (numbers repeat after a fixed "
                                   "count): the later request takes over the callback, one reply goes to the wrong requester and the other is dropped")
        except BaseException as ex:      # noqa
            ctx.violation("long-lived-connection:%s" % type(ex).__name__, case, observed=repr(ex)[:200], expected="requests with large numbers are issued and answered",
                          what="issuing or answering a request far into a connection's life raised")
        finally:
            conn._closed = True


def undecodable_response(ctx):
    """a response the REQUESTER cannot decode: the handler raises a built-in exception class whose constructor needs arguments
    (ExceptionGroup: finding F10 of C09). Property: the response is delivered to its request, which gets an exception, and the
    connection stays usable; nothing may be left registered."""
    b = Bench()
    try:
        try:
            b.client.root.egroup(1)
            res = ("value", None)
        except EOFError:
            res = ("EOFError", None)
        except BaseException as e:
            res = ("exc", type(e).__name__)
        left = sorted(b.client._request_callbacks)
        try:
            b.client.ping("x", timeout=30); usable = True
        except BaseException:
            usable = False
        case = {"undecodable_response": "ExceptionGroup"}
        ctx.case(("undecodable", "ExceptionGroup"), nontrivial=True, sample={"case": case, "requester": res, "callbacks_left": left, "usable": usable})
        ctx.count("handler-raises:ExceptionGroup")
        # which exception class arrives is C09's subject (ExceptionGroup is its known finding F10); here: the request completes with an exception
        if res[0] != "exc" or left or not usable:
            ctx.violation("exception-response-not-decodable-at-requester:ExceptionGroup", case, observed={"requester": res, "callbacks_left": left, "usable": usable},
                          expected="the requester gets an exception, nothing stays registered, the connection stays usable",
                          what="the exception response arrived but could not be rebuilt at the requester: its decode error escapes _dispatch before the callback is looked up, "
                               "the request's callback stays registered for ever (a waiter served by another thread would hang)")
    finally:
        try:
            b.client.close()
        except Exception:
            pass


def run(ctx):
    model = C.Model("proto"); model = model if model.available() else None
    r = ctx.rng
    n = 120 if ctx.quick else 4000
    ctx.coverage_extra["rule"] = ("request streams of 8-40 operations over one connection: sync / async (up to 16 outstanding, collected in random order) / nested-callback requests whose "
                                  "handlers return values, references, raise, return or raise something the serializer rejects while encoding, plus raw malformed requests (bad shape, bad "
                                  "label, stale id, unknown or unhashable handler, wrong arity); non-trivial = at least one failing or malformed request; distinct by operation sequence")
    facts = gen_facts()
    # requester-side model correspondence on synthetic histories (register / respond)
    if model:
        hist = []
        for _ in range(200 if ctx.quick else 5000):
            evs = []
            issued = 0
            for _ in range(r.randint(1, 25)):
                if r.random() < 0.5:
                    evs.append([0, issued + 100, r.random() < 0.85]); issued += 1
                elif r.random() < 0.8:
                    evs.append([1, r.randint(-1, issued + 1), r.random() < 0.3])
                else:
                    evs.append([2, r.randint(-1, issued + 1), RESP_GUARDED()])      # a response whose payload cannot be rebuilt here
            hist.append(evs)
        outs = model.batch([["requester", facts, evs] for evs in hist])
        for evs, m in zip(hist, outs):
            real = real_requester(evs)
            ctx.model_traces += 1
            ctx.case(("req", tuple(map(tuple, evs))), nontrivial=len(evs) > 3)
            if real.get("error"):
                ctx.violation("requester-bookkeeping-raised:" + real["error"].split(":")[0], {"requester_events": evs}, observed=real["error"], expected="no exception",
                              what="registering a request / dispatching a response (possibly unsolicited or duplicate) raised")
                continue
            mine = (m[0], sorted(map(tuple, m[1])), [list(x) for x in m[2]])
            if mine != (real["next"], real["callbacks"], real["log"]):
                ctx.tie_broken("correspondence:requester", "events %s model %s real connection %s" % (evs, mine, real))
            # what left the connection: exactly the requests whose caller was not told that the send failed, each once, in order
            # (a request whose send failed must not be transmitted later with another message: its caller holds an exception for it,
            # its callback is gone, the peer would execute it and its response would be dropped)
            if real["wire"] != real["told_sent"]:
                ctx.violation("request-transmitted-although-its-send-failed" if set(real["wire"]) - set(real["told_sent"]) else "request-not-transmitted-exactly-once",
                              {"requester_events": evs}, observed={"request numbers on the wire": real["wire"]}, expected={"request numbers of the sends that succeeded": real["told_sent"]},
                              what="the requests that left the connection are not exactly those whose send succeeded, each once, in order")
            # the property's routing clause on the real connection: a response invokes exactly the callback registered under its number, once
            seen = set()
            for cb, _ in real["log"]:
                if cb in seen:
                    ctx.violation("callback-invoked-twice", {"requester_events": evs}, observed=real["log"], expected="at most once per request", what="a duplicate response reached a request's callback again")
                seen.add(cb)
    local_propagation(ctx, model, facts)
    undecodable_response(ctx)
    long_lived_connection(ctx)
    lost_streams = 0
    for i in range(n):
        seed = r.randrange(10**9)
        import random
        rr = random.Random(seed)
        nops = rr.choice([8, 15, 40])
        b, expect, raw_reqs, usable = run_stream(ctx, rr, nops)
        case = {"seed": seed, "nops": nops}
        kinds = tuple(k for _, k, _, _ in expect) + tuple(s for _, _, s in raw_reqs)
        ctx.case(("stream", kinds, seed), nontrivial=any(k not in ("val", "ref") for k in kinds), sample={"ops": list(kinds)[:12], "ledger_len": len(b.ledger), "crashes": b.crashes[:1]})
        for k in kinds:
            ctx.count("op:" + k)
        check_stream(ctx, model, b, expect, raw_reqs, usable, case)
        try:
            b.client.close()
        except Exception:
            pass
        lost_streams = lost_streams + 1 if LOST["n"] else lost_streams
        if lost_streams >= 2:
            break              # enough failing streams to report (each lost response costs a request timeout)
    threaded_streams(ctx, 160 if ctx.quick else 3000)


def threaded_streams(ctx, n):
    """responses dispatched by another thread of the requester's side (background serving thread): every response must still reach
    the request with its number.  Reuses the deterministic thread scheduler of C13."""
    import random
    from harness import C13 as T
    for k in range(n):
        nc = ctx.rng.choice([1, 2, 3])
        order = list(range(nc)); ctx.rng.shuffle(order)
        seed, stick = ctx.rng.randrange(10**9), ctx.rng.choice([0.0, 0.2, 0.5])
        chooser = T.make_chooser(seed, stick)
        out = T.scenario(nc, True, order, chooser)
        case = {"threads": {"clients": nc, "order": order, "seed": seed, "stick": stick}}
        ctx.case(("threads", nc, tuple(order), seed), nontrivial=True)
        ctx.count("threaded-streams")
        for i in range(nc):
            r = out["results"].get(i)
            if r != "p%d" % i:
                ctx.violation("response-not-delivered-to-its-request:" + str(r)[:30], case, observed={"results": out["results"], "pending_left": out["pending_left"], "inq_left": out["inq_left"]},
                              expected="p%d" % i, what="a response crossed the wire but did not reach the request with its number (dispatched by another thread)")
        for q, c in out["dispatch_count"].items():
            if c != 1:
                ctx.violation("response-dispatched-%d-times" % c, case, observed=c, expected=1, what="a response was delivered more than once")


def replay(ctx, rep):
    import random
    cs = rep["case"]
    if "threads" in cs:
        from harness import C13 as T
        t = cs["threads"]; chooser = T.make_chooser(t["seed"], t["stick"])
        out = T.scenario(t["clients"], True, t["order"], chooser)
        ctx.case(("replay", t["seed"]), True)
        for i in range(t["clients"]):
            if out["results"].get(i) != "p%d" % i:
                ctx.violation("response-not-delivered-to-its-request:" + str(out["results"].get(i))[:30], cs, observed=out["results"], expected="p%d" % i, what="a response did not reach its request")
        return
    rr = random.Random(cs["seed"])
    rr.choice([8, 15, 40])
    b, expect, raw_reqs, usable = run_stream(ctx, rr, cs["nops"])
    model = C.Model("proto"); model = model if model.available() else None
    check_stream(ctx, model, b, expect, raw_reqs, usable, cs)
    ctx.case(("replay", cs["seed"]), True)
