"""Deterministic scheduler with VIRTUAL blocking primitives and clock, for driving the real
Connection.serve / AsyncResult.wait / BgServingThread on real threads without any wall-clock waiting.
Threads yield before every traced source line and inside every blocking primitive; the virtual clock
advances only when no thread is enabled (then to the earliest deadline)."""
import sys, threading


class Deadlock(Exception):
    pass


class Abort(BaseException):
    """raised inside the scheduled threads when a run is given up (deadlock / budget): lets them unwind and end instead of
    staying parked for ever (a long thorough run would otherwise accumulate thousands of parked threads)"""


class VSched:
    wall_hits = 0        # steps that ran into the wall-clock limit in this process (generous until it really happens twice)

    def __init__(self, codes):
        self.codes = set(codes)
        self.now = 0.0
        self.sem, self.done, self.blocked = {}, set(), {}
        self.main = threading.Semaphore(0)
        self.tid_of, self.pos = {}, {}
        self.events = []            # abstract events recorded by the primitives (for model replay)
        self.clock_advances = []    # (new time, snapshot) each time the clock had to move
        self.on_clock = None
        self.errors = {}
        self.cur = None

    def me(self):
        return self.tid_of[threading.get_ident()]

    aborting = False

    def yield_(self):
        if self.aborting:
            raise Abort()
        tid = self.me()
        self.main.release()
        self.sem[tid].acquire()
        if self.aborting:
            raise Abort()

    def abort(self):
        """give the run up: every thread that is still alive raises Abort at its next (or current) yield point and ends"""
        self.aborting = True
        alive = [t for t in self.sem if t not in self.done]
        for t in alive:
            self.sem[t].release()
        for _ in alive:
            self.main.acquire(timeout=2)

    def block(self, pred, deadline=None, why=""):
        """block the calling thread until pred() or the virtual deadline; True iff pred held"""
        tid = self.me()
        while True:
            if pred():
                return True
            if deadline is not None and self.now >= deadline:
                return False
            self.blocked[tid] = (pred, deadline, why)
            self.yield_()
            self.blocked.pop(tid, None)

    def enabled(self, tid):
        if tid in self.done:
            return False
        b = self.blocked.get(tid)
        if b is None:
            return True
        return b[0]() or (b[1] is not None and self.now >= b[1])

    def tracer(self):
        def local(frame, event, arg):
            if event == "line":
                self.pos[self.me()] = (frame.f_code.co_name, frame.f_lineno)
                self.yield_()
            return local

        def glob(frame, event, arg):
            return local if frame.f_code in self.codes else None
        return glob

    def spawn(self, tid, fn):
        self.sem[tid] = threading.Semaphore(0)

        def body():
            self.tid_of[threading.get_ident()] = tid
            self.sem[tid].acquire()
            sys.settrace(self.tracer())
            try:
                fn()
            except Abort:
                pass
            except BaseException as e:
                self.errors[tid] = e
            finally:
                sys.settrace(None)
                self.done.add(tid)
                self.main.release()
        t = threading.Thread(target=body, daemon=True)
        t.start()

    def run(self, choose, max_steps=200000):
        """choose(enabled_tids, step_index) -> tid"""
        tids = sorted(self.sem, key=str)
        sched = []
        for step in range(max_steps):
            if all(t in self.done for t in tids):
                return sched
            en = [t for t in tids if self.enabled(t)]
            if not en:
                dls = [b[1] for t, b in self.blocked.items() if b[1] is not None and t not in self.done]
                if not dls:
                    info = {t: (self.pos.get(t), self.blocked.get(t, (None, None, ""))[2]) for t in tids if t not in self.done}
                    self.blocked_at_deadlock = {t: self.blocked.get(t, (None, None, ""))[2] for t in tids if t not in self.done}
                    self.abort()
                    raise Deadlock(info)
                new = min(dls)
                if self.on_clock:
                    self.on_clock(self.now, new)
                self.now = new
                continue
            t = choose(en, step)
            self.cur = t
            sched.append(t)
            self.sem[t].release()
            if not self.main.acquire(timeout=(40 if VSched.wall_hits < 2 else 5)):
                VSched.wall_hits += 1
                self.abort()
                raise Deadlock("thread %r did not yield (real blocking call?) at %r" % (t, self.pos.get(t)))
        self.abort()
        raise Deadlock("step budget exceeded")


class VLock:
    def __init__(self, S, name="lock", on=None):
        self.S, self.owner, self.name, self.on = S, None, name, on

    def acquire(self, blocking=True, timeout=-1):
        if self.owner is None:
            self.owner = self.S.me()
            if self.on: self.on("acquire", True)
            return True
        if not blocking:
            if self.on: self.on("acquire", False)
            return False
        self.S.block(lambda: self.owner is None, why=self.name)
        self.owner = self.S.me()
        return True

    def release(self):
        if self.owner is None:
            raise RuntimeError("release unlocked lock")          # as threading.Lock does
        self.owner = None
        if self.on: self.on("release", None)

    def locked(self):
        return self.owner is not None

    def __enter__(self):
        self.acquire(); return self

    def __exit__(self, *a):
        self.release()


class VCond:
    """threading.Condition over the virtual scheduler: waiters queue up in arrival order; notify(n) wakes the first n of them,
    notify_all() every one (a waiter that timed out has left the queue)"""

    def __init__(self, S, on=None):
        self.S, self.m, self.gen, self.on = S, VLock(S, "cond-mutex"), 0, on
        self.waiters = []

    def __enter__(self):
        self.m.acquire(); return self

    def __exit__(self, *a):
        self.m.release()

    def _owned(self, what):
        if self.m.owner != self.S.me():
            raise RuntimeError("cannot %s on un-acquired lock" % what)      # as threading.Condition does

    def wait(self, timeout=None):
        self._owned("wait")
        tok = [False]
        self.waiters.append(tok)
        self.m.release()
        r = self.S.block(lambda: tok[0], None if timeout is None else self.S.now + timeout, why="cond-wait")
        self.waiters[:] = [w for w in self.waiters if w is not tok]      # by identity: tokens compare equal
        if self.on: self.on("wait-return", r)
        self.m.acquire()
        return r

    def wait_for(self, predicate, timeout=None):
        """as threading.Condition.wait_for: wait until the predicate holds or the (single, overall) timeout has passed"""
        end = None if timeout is None else self.S.now + timeout
        result = predicate()
        while not result:
            left = None
            if end is not None:
                left = end - self.S.now
                if left <= 0:
                    break
            self.wait(left)
            result = predicate()
        return result

    def notify(self, n=1):
        self._owned("notify")
        for tok in self.waiters[:n]:
            tok[0] = True
        del self.waiters[:n]
        if self.on: self.on("notify", n)

    def notify_all(self):
        self._owned("notify")
        self.gen += 1
        for tok in self.waiters:
            tok[0] = True
        del self.waiters[:]
        if self.on: self.on("notify_all", None)


class VTime:
    def __init__(self, S): self.S = S
    def time(self): return self.S.now
    def sleep(self, d): self.S.block(lambda: False, self.S.now + d, why="sleep")
