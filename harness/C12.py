"""C12 — concurrent senders never interleave, lose or strand a message.
The real Connection._send runs on real threads under a deterministic line-level scheduler; every explored
schedule is also executed by model/SendQ.v and compared step by step; the oracle is the property's statement."""
import inspect, sys, threading
from harness import common as C
from harness.sched import Sched, Deadlock, explore, prefix_chooser

META = {
    "level": "proof",
    "level_text": "props/C12.v: inductive invariants over a transition system with an unbounded number of threads and messages and an arbitrary scheduler "
                  "(atomicity unit = one source line of _send touching shared state): mutual exclusion of the write section, per-thread 'wire ++ in-flight ++ queue = "
                  "issued so far, in order' (nothing lost, duplicated or reordered) in every reachable state, empty queue + free lock + complete wire at quiescence, "
                  "no blocking step, the hand-off invariant, and termination under ANY (even unfair) scheduler via a strictly decreasing potential (c12_terminates). The instruction program is regenerated from _send by tools/pygen/sendq.py (fail-closed) and tied by "
                  "reflexivity. Schedules of the real code (exhaustive for 2 threads x 1 message, preemption-bounded beyond, with re-entrant sends) are replayed in the extracted model.",
    "level_note": "Trusted: Coq kernel, pygen, extraction+driver, the settrace scheduler; GIL atomicity of list.append / list.pop(0) / list truth test / Lock.acquire(False) / release "
                  "(one source line = one atomic step). Re-entrant sends are covered as a fresh thread id "
                  "running while its parent is parked at the write.",
    "technique": "Coq inductive invariant over an unbounded-thread transition system; generated instruction program tied by reflexivity; deterministic-scheduler replay of real threads against the extracted model",
    "gen": ["sendq"],
    "shapes": ["protocol.Connection._send", "sendq.*"],
    "models": ["sendq"],
    "model_files": ["SendQ"],
    "assumptions": ["GIL: each source line touching the queue or the lock is atomic", "threading.Lock is not re-entrant"],
}

from rpyc.core.protocol import Connection
from rpyc.core.service import VoidService
from rpyc.core import brine

PATTERNS = [("_send_queue.append(", 0), ("while self._send_queue", 1), ("_sendlock.acquire(", 2), ("if not self._send_queue", 3),
            ("_send_queue.pop(", 4), ("_channel.send(", 5), ("_sendlock.release(", 6)]


def line_kinds():
    src, start = inspect.getsourcelines(Connection._send)
    kinds = {}
    for k, line in enumerate(src):
        t = line.strip()
        if t.startswith("#"):
            continue
        for pat, pc in PATTERNS:
            if pat in t:
                kinds[start + k] = pc
                break
    return kinds


class OwnLock:
    """wraps the lock object the Connection created (so a different kind of lock shows its own behaviour) and remembers the holder"""

    def __init__(self, who, inner=None):
        self.l = inner if inner is not None else threading.Lock(); self.owner = None; self.who = who

    def acquire(self, blocking=True, timeout=-1):
        ok = self.l.acquire(blocking, timeout) if blocking else self.l.acquire(False)
        if ok:
            self.owner = self.who()
        return ok

    def release(self):
        self.owner = None
        self.l.release()

    def locked(self):
        return self.owner is not None


def seq_of(data):
    return brine.load(data)[1]


def one_run(totals, spawn, prefix, fail=()):
    """totals: messages per thread; spawn: {seq: child_seq}. returns (choices, result dict)"""
    code = Connection._send.__code__
    kinds = line_kinds()
    cur = {"tid": None}
    viol = []

    def depth(frame):
        d = 0
        f = frame
        while f is not None:
            if f.f_code is code:
                d += 1
            f = f.f_back
        return d

    def label_of(frame):
        k = kinds.get(frame.f_lineno)
        if k is None:
            return None
        return (k, depth(frame))

    class Chan:
        def __init__(self):
            self.log = []; self.closed = False; self.spawned = set(); self.writing = None

        def send(self, data):
            s = seq_of(data)
            if not conn._sendlock.locked() or conn._sendlock.owner != cur["tid"]:
                viol.append(("write-without-lock", s))
            if self.writing is not None:
                viol.append(("packet-written-inside-another-packet", (self.writing, s)))
            self.writing = s
            if s in fail:
                # a write that fails WITHOUT ending the stream (what channel.send does for a frame of 4 GiB or more: struct.error)
                self.writing = None
                import struct
                raise struct.error("'L' format requires 0 <= number <= 4294967295")
            try:
                if s in spawn and s not in self.spawned:
                    self.spawned.add(s)
                    conn._send(1, spawn[s], ())          # re-entrant send, as a finalizer running during transmission would do
            finally:
                self.writing = None
            self.log.append(s)

        def close(self):
            self.closed = True
    ch = Chan()
    conn = Connection(VoidService(), ch)
    conn._sendlock = OwnLock(lambda: cur["tid"], conn._sendlock)
    nthreads = len(totals)

    def thunk(tid):
        def f():
            for k in range(totals[tid]):
                # every second message of a thread is a REPLY (what a serving thread sends after a request of its own, e.g. a callback
                # followed by the handler's result): the queue discipline must not depend on the kind of a message (seed C12-r10m2)
                conn._send(1 if k % 2 == 0 else 2, tid * 100 + k, ())
        return f
    sched = Sched([code], label_of, step_timeout=3.0)
    record = []
    snaps = []
    base = prefix_chooser(prefix, record)

    def chooser(step, enabled, parked, last):
        c = base(step, enabled, parked, last)
        cur["tid"] = c
        return c

    def on_step(ev):
        snaps.append({"tid": ev["tid"], "label": ev["label"], "after": ev["after"],
                      "queue": [seq_of(d) for d in list(conn._send_queue)], "owner": conn._sendlock.owner if conn._sendlock.locked() else None,
                      "wire": list(ch.log)})
    sched.on_step = on_step
    res = {"deadlock": None}
    try:
        sched.run([thunk(t) for t in range(nthreads)], chooser)
    except Deadlock as e:
        res["deadlock"] = str(e)
    res.update(snaps=snaps, wire=list(ch.log), queue=[seq_of(d) for d in list(conn._send_queue)], viol=viol,
               errors={k: repr(v) for k, v in getattr(sched, "errors", {}).items()}, locked=conn._sendlock.locked())
    conn._closed = True
    return record, res


def expected_msgs(totals, spawn):
    out = []
    for t, n in enumerate(totals):
        out += [t * 100 + k for k in range(n)]
    return out + list(spawn.values())


def oracle(ctx, totals, spawn, sched_list, res):
    case = {"totals": totals, "spawn": {str(k): v for k, v in spawn.items()}, "schedule": sched_list}
    exp = expected_msgs(totals, spawn)
    if res["deadlock"]:
        ctx.violation("deadlock-or-blocked-sender", case, observed=res["deadlock"], expected="every sender returns", what="a sender blocked or the run did not terminate")
        return
    if res["errors"]:
        ctx.violation("sender-raised", case, observed=res["errors"], expected="no exception", what="a sender raised")
    if any(v[0] == "packet-written-inside-another-packet" for v in res["viol"]):
        ctx.violation("packet-not-contiguous", case, observed=[v for v in res["viol"] if v[0].startswith("packet")][:3], expected="one packet at a time",
                      what="a re-entrant send transmitted its packet in the middle of the packet being written")
    if any(v[0] == "write-without-lock" for v in res["viol"]):
        ctx.violation("write-outside-lock", case, observed=res["viol"][:3], expected="writes only by the lock holder", what="a packet was written by a thread that does not hold the send lock")
    w = res["wire"]
    if sorted(w) != sorted(exp):
        if res["queue"]:
            ctx.violation("message-stranded-in-queue", case, observed={"wire": w, "queue": res["queue"]}, expected=sorted(exp),
                          what="all senders returned but a message is still queued")
        else:
            ctx.violation("message-lost-or-duplicated", case, observed=w, expected=sorted(exp), what="wire is not exactly the issued messages")
    for t in range(len(totals)):
        mine = [m for m in w if m // 100 == t and m in exp[:sum(totals)]]
        if mine != sorted(mine):
            ctx.violation("per-thread-order-broken", case, observed=w, expected="issue order per thread", what="a thread's messages left out of order")
    if res["locked"]:
        ctx.violation("lock-left-held", case, observed="locked", expected="free", what="send lock still held after all senders returned")


def oracle_failed_write(ctx, totals, fail, sched_list, res):
    """one message's write fails without ending the stream (the error goes to whoever held the lock). Demanded: every OTHER
    message is transmitted exactly once and nothing is left queued once all senders have returned; the lock is free."""
    case = {"totals": totals, "spawn": {}, "schedule": sched_list, "fail": sorted(fail)}
    if res["deadlock"]:
        ctx.violation("deadlock-or-blocked-sender", case, observed=res["deadlock"], expected="every sender returns", what="a sender blocked or the run did not terminate")
        return
    exp = [m for m in expected_msgs(totals, {}) if m not in fail]
    # who got the error: the thread that held the lock - not necessarily the owner of the message whose write failed (F52's consequence
    # for C08: a sender whose own frame went out sees an exception, the owner of the failed frame returns normally)
    for tid_, err in res["errors"].items():
        try:
            t_ = int(tid_)
        except ValueError:
            continue
        own_failed = any(m // 100 == t_ for m in fail)
        ctx.count("failed-write:error-raised-in-" + ("the-failed-message's-own-sender" if own_failed else "another-sender-whose-own-message-was-transmitted"))
    if res["queue"]:
        ctx.violation("message-stranded-after-a-failed-write", case, observed={"wire": res["wire"], "queue": res["queue"], "errors": res["errors"]}, expected=sorted(exp),
                      what="a write failed (stream still open): the lock holder left _send through the exception without re-testing the queue, and a message "
                           "appended meanwhile by a sender that has already returned stays queued")
    elif sorted(res["wire"]) != sorted(exp):
        ctx.violation("message-lost-or-duplicated", case, observed=res["wire"], expected=sorted(exp), what="wire is not exactly the other issued messages")
    if res["locked"]:
        ctx.violation("lock-left-held", case, observed="locked", expected="free", what="send lock still held after all senders returned")


def run_model_compare(ctx, model, batch):
    """batch: list of (totals, spawn, schedule(list of real tids), res).  Only non re-entrant runs are compared step by step;
    re-entrant runs are compared on the final wire."""
    cases, meta = [], []
    for totals, spawn, sch, res in batch:
        if res["deadlock"]:
            continue
        if not spawn:
            msched = [sn["tid"] for sn in res["snaps"]]
            cases.append([list(totals), msched]); meta.append((totals, spawn, res, None))
        else:
            # flat schedule: steps at nesting depth 2 belong to a fresh thread id; the parent's write step comes right after the child's last step
            n = len(totals)
            mt = list(totals) + [1] * len(spawn)
            child_tid = {ps: n + i for i, ps in enumerate(spawn)}
            msched = []
            snaps = res["snaps"]
            pending_parent = {}
            for idx, sn in enumerate(snaps):
                k, d = sn["label"]
                if d == 1:
                    if k == 5 and sn["after"] is not None and sn["after"][1] == 2:
                        # this real step ran the parent into channel.send up to the child's first line; in the flat model nothing has happened yet
                        pending_parent[sn["tid"]] = True
                        continue
                    msched.append(sn["tid"])
                else:
                    wq = [m for m in spawn if m // 100 == sn["tid"]]
                    ct = child_tid[wq[0]] if len(wq) == 1 else n
                    msched.append(ct)
                    if sn["after"] is None or sn["after"][1] == 1:
                        msched.append(sn["tid"])     # the child returned: the parent's write completes in the same real step
            cases.append([mt, msched]); meta.append((totals, spawn, res, child_tid))
    if not cases:
        return
    outs = model.batch(cases)
    for (totals, spawn, res, child_tid), out, cs in zip(meta, outs, cases):
        ctx.model_traces += 1
        if any(isinstance(x, list) and x and x[0] == b"stuck" for x in out):
            ctx.tie_broken("correspondence:model-stuck", "totals %s schedule %s" % (totals, cs[1])); continue
        def real_id(m):
            t, k = m
            if child_tid and t >= len(totals):
                for ps, ct in child_tid.items():
                    if ct == t:
                        return spawn[ps]
            return t * 100 + k
        if not spawn:
            for sn, ms in zip(res["snaps"], out):
                pc, q, lk, w = ms
                after = sn["after"]
                has_more = None
                rpc = after[0] if after is not None else 7
                mq = [real_id(tuple(m)) for m in q]
                mw = [real_id(tuple(m)) for m in w]
                owner = sn["owner"] if sn["owner"] is not None else -1
                if (rpc, sn["queue"], owner, sn["wire"]) != (pc, mq, lk, mw):
                    ctx.tie_broken("correspondence:step", "totals %s schedule %s step %s real %s model %s" % (totals, cs[1], sn["label"], (rpc, sn["queue"], owner, sn["wire"]), (pc, mq, lk, mw)))
                    break
        else:
            pc, q, lk, w = out[-1] if out else (7, [], -1, [])
            mw = [real_id(tuple(m)) for m in w]
            if mw != res["wire"] or [real_id(tuple(m)) for m in q] != res["queue"]:
                ctx.tie_broken("correspondence:reentrant-final", "totals %s spawn %s real wire %s model wire %s schedule %s" % (totals, spawn, res["wire"], mw, cs[1]))


def run(ctx):
    model = C.Model("sendq"); model = model if model.available() else None
    ctx.coverage_extra["rule"] = ("schedules of real threads running Connection._send under a line-level scheduler (yield before each line touching the queue/lock/channel); "
                                  "stateless DFS: exhaustive for 2 threads x 1 message, preemption-bounded for 2x2, 3x1 and re-entrant variants; distinct = distinct schedule; "
                                  "non-trivial = at least one context switch")
    plans = [([1, 1], {}, 99, 4000 if ctx.quick else 10**6),
             ([2, 1], {}, 2, 700 if ctx.quick else 60000),
             ([2, 1], {}, 3, 600 if ctx.quick else 60000),       # three preemptions: a sender slips in between another's release and its re-test of the queue
             ([1, 2], {}, 3, 600 if ctx.quick else 60000),
             ([1, 1, 1], {}, 2, 500 if ctx.quick else 40000),
             ([1, 1], {0: 900}, 3, 500 if ctx.quick else 30000),
             ([2, 2], {}, 2 if ctx.quick else 3, 300 if ctx.quick else 60000),
             ([2, 1], {100: 901}, 2, 200 if ctx.quick else 20000),
             ([3, 1], {}, 2, 300 if ctx.quick else 30000),
             ([3, 3], {}, 1, 200 if ctx.quick else 30000)]
    exhaustive = {}
    for totals, spawn, pb, limit in plans:
        batch = []
        n = 0
        for sch, res in explore(lambda prefix: one_run(totals, spawn, prefix), len(totals), pb, limit):
            n += 1
            switches = sum(1 for a, b in zip(sch, sch[1:]) if a != b)
            ctx.case((tuple(totals), tuple(sorted(spawn.items())), tuple(sch)), nontrivial=switches > 0,
                     sample={"totals": totals, "spawn": spawn, "schedule": sch, "wire": res["wire"]})
            ctx.count("plan:%s%s" % (totals, "+reentrant" if spawn else ""))
            oracle(ctx, totals, spawn, sch, res)
            batch.append((totals, spawn, sch, res))
        exhaustive[str((totals, spawn, "preemptions<=%d" % pb))] = n < limit
        if model:
            run_model_compare(ctx, model, batch)
    # a write that fails without ending the stream
    for totals, fail, pb, limit in [([1, 1], {0}, 99, 4000 if ctx.quick else 10**6), ([2, 1], {1}, 2, 300 if ctx.quick else 30000)]:
        n = 0
        for sch, res in explore(lambda prefix: one_run(totals, {}, prefix, fail), len(totals), pb, limit):
            n += 1
            ctx.case((tuple(totals), "fail", tuple(sorted(fail)), tuple(sch)), nontrivial=True, sample={"totals": totals, "fail": sorted(fail), "schedule": sch, "wire": res["wire"], "queue": res["queue"]})
            ctx.count("plan:%s+failed-write" % (totals,))
            oracle_failed_write(ctx, totals, fail, sch, res)
        exhaustive[str((totals, "fail", sorted(fail)))] = n < limit
    ctx.coverage_extra["plans_exhausted_within_bound"] = exhaustive


def replay(ctx, rep):
    cs = rep["case"]
    spawn = {int(k): v for k, v in cs["spawn"].items()}
    if cs.get("fail"):
        rec, res = one_run(cs["totals"], {}, cs["schedule"], set(cs["fail"]))
        oracle_failed_write(ctx, cs["totals"], set(cs["fail"]), [c[0] for c in rec], res)
        ctx.case(("replay", tuple(cs["schedule"])), True)
        return
    rec, res = one_run(cs["totals"], spawn, cs["schedule"])
    oracle(ctx, cs["totals"], spawn, [c[0] for c in rec], res)
    ctx.case(("replay", tuple(cs["schedule"])), True)
