"""Shared harness code: s-expression codec, model runner, build steps, verdicts, evidence."""
import fcntl, glob, hashlib, json, os, random, re, resource, shutil, subprocess, sys, time

VERIF = os.path.dirname(os.path.dirname(os.path.abspath(__file__)))
REPO = os.environ.get("REPO", "/repo")
COQ = os.path.join(VERIF, "coq")
BUILD = os.path.join(VERIF, "build")
NCPU = os.cpu_count() or 4

# ---------------------------------------------------------------- s-expressions


def sx_dumps(x):
    out = []

    def go(v):
        if isinstance(v, bool):
            out.append("i1" if v else "i0")
        elif isinstance(v, int):
            out.append("i-%x" % -v if v < 0 else "i%x" % v)
        elif isinstance(v, (bytes, bytearray)):
            out.append("x" + bytes(v).hex())
        elif isinstance(v, str):
            out.append("x" + v.encode("ascii").hex())
        elif isinstance(v, (list, tuple)):
            out.append("(")
            for y in v:
                go(y)
            out.append(")")
        else:
            raise TypeError("sx_dumps: %r" % (type(v),))
    go(x)
    return " ".join(out)


_tok = re.compile(r"\(|\)|i-?[0-9a-f]+|x[0-9a-f]*")


def sx_loads(s):
    stack = [[]]
    for t in _tok.findall(s):
        if t == "(":
            stack.append([])
        elif t == ")":
            l = stack.pop()
            stack[-1].append(l)
        elif t[0] == "i":
            stack[-1].append(-int(t[2:], 16) if t[1] == "-" else int(t[1:], 16))
        else:
            stack[-1].append(bytes.fromhex(t[1:]))
    return stack[0][0]


def _unlimit_stack():
    try:
        resource.setrlimit(resource.RLIMIT_STACK, (resource.RLIM_INFINITY, resource.RLIM_INFINITY))
    except (ValueError, OSError):
        pass


class Model:
    """runs the extracted OCaml model `name` on batches of s-expression cases"""

    def __init__(self, name):
        self.name = name
        self.exe = os.path.join(BUILD, "ocaml", name, "run")

    def available(self):
        return os.path.exists(self.exe)

    def batch(self, cases, shards=None):
        if not cases:
            return []
        shards = shards or (NCPU if len(cases) >= 64 else 1)
        chunks = [cases[i::shards] for i in range(shards)]
        procs = []
        for ch in chunks:
            data = ("\n".join(sx_dumps(c) for c in ch) + "\n").encode()
            p = subprocess.Popen([self.exe], stdin=subprocess.PIPE, stdout=subprocess.PIPE,
                                 preexec_fn=_unlimit_stack)
            procs.append((p, data))
        outs = []
        import threading
        res = [None] * len(procs)

        def run(i, p, data):
            res[i] = p.communicate(data)[0]
        ths = [threading.Thread(target=run, args=(i, p, d)) for i, (p, d) in enumerate(procs)]
        for t in ths:
            t.start()
        for t in ths:
            t.join()
        per = []
        for i, ch in enumerate(chunks):
            lines = res[i].decode().splitlines()
            if len(lines) != len(ch):
                raise RuntimeError("model %s: %d answers for %d cases (crash?)" % (self.name, len(lines), len(ch)))
            per.append([sx_loads(l) for l in lines])
        out = [None] * len(cases)
        for i, ch in enumerate(per):
            for j, v in enumerate(ch):
                out[i + j * shards] = v
        return out


# ---------------------------------------------------------------- build steps

def sh(cmd, cwd=None, timeout=1800, env=None):
    t0 = time.time()
    p = subprocess.run(cmd, shell=True, cwd=cwd, stdout=subprocess.PIPE, stderr=subprocess.STDOUT,
                       timeout=timeout, env=env)
    return p.returncode, p.stdout.decode(errors="replace"), time.time() - t0


class BuildLock:
    def __enter__(self):
        os.makedirs(BUILD, exist_ok=True)
        self.f = open(os.path.join(BUILD, ".lock"), "w")
        fcntl.flock(self.f, fcntl.LOCK_EX)
        return self

    def __exit__(self, *a):
        fcntl.flock(self.f, fcntl.LOCK_UN)
        self.f.close()


def coq_project():
    """(re)write _CoqProject and Makefile when the file list changed"""
    files = []
    for d in ("lib", "gen", "model", "proofs", "props"):
        files += sorted(os.path.relpath(p, COQ) for p in glob.glob(os.path.join(COQ, d, "*.v")))
    text = "-R . V\n" + "\n".join(files) + "\n"
    p = os.path.join(COQ, "_CoqProject")
    old = open(p).read() if os.path.exists(p) else None
    if old != text or not os.path.exists(os.path.join(COQ, "Makefile")):
        with open(p, "w") as f:
            f.write(text)
        rc, out, _ = sh("coq_makefile -f _CoqProject -o Makefile", cwd=COQ)
        if rc:
            raise RuntimeError("coq_makefile failed:\n" + out)


def coq_make(targets, jobs=NCPU, timeout=3000):
    """full .vo build of the given targets (relative to coq/); returns (ok, log)"""
    coq_project()
    rc, out, dt = sh("timeout %d make -j%d %s" % (timeout, jobs, " ".join(targets)), cwd=COQ, timeout=timeout + 60)
    return rc == 0, out


FORBIDDEN = re.compile(r"\b(Admitted|admit|Axiom|Parameter|Conjecture|bypass_check|type-in-type|impredicative-set)\b|Unset Guard|Unset Positivity|Unset Universe|Admit Obligations")


def grep_gate(only=None):
    """forbidden constructs; `only` = iterable of files relative to coq/ (a property's cone); default: the whole development"""
    bad = []
    files = [os.path.join(COQ, f) for f in only] if only is not None else \
        [p for d in ("lib", "model", "proofs", "props", "extract", "gen") for p in glob.glob(os.path.join(COQ, d, "*.v"))]
    for d in (None,):
        for p in files:
            if not os.path.exists(p):
                continue
            txt = re.sub(r"\(\*.*?\*\)", "", open(p).read(), flags=re.S)
            for m in FORBIDDEN.finditer(txt):
                bad.append("%s: %s" % (os.path.relpath(p, VERIF), m.group(0)))
    return bad


ALLOWED_AXIOMS = set()  # none: every property theorem must be closed under the global context


def check_props_file(pid):
    """compile props/<pid>.v on its own, parse Print Assumptions output.
    returns dict(ok, theorems=[(name, closed, axioms)], log)"""
    src = os.path.join(COQ, "props", pid + ".v")
    rc, out, dt = sh("timeout 900 coqc -R . V props/%s.v" % pid, cwd=COQ, timeout=960)
    res = {"ok": rc == 0, "log": out, "theorems": [], "wall": dt}
    if rc:
        return res
    names = re.findall(r"^\s*Print Assumptions\s+(\S+?)\.", open(src).read(), flags=re.M)
    blocks = re.split(r"(?=Closed under the global context|Axioms:)", out)
    blocks = [b for b in blocks if b.startswith("Closed under") or b.startswith("Axioms:")]
    for i, nm in enumerate(names):
        if i >= len(blocks):
            res["theorems"].append((nm, False, ["<no output>"]))
            res["ok"] = False
            continue
        b = blocks[i]
        if b.startswith("Closed under"):
            res["theorems"].append((nm, True, []))
        else:
            ax = re.findall(r"^(\S+)\s*:", b[len("Axioms:"):], flags=re.M)
            bad = [a for a in ax if a not in ALLOWED_AXIOMS]
            res["theorems"].append((nm, not bad, ax))
            if bad:
                res["ok"] = False
    return res


def count_obligations(pid):
    """theorems/lemmas in the dependency cone of props/<pid>.v (our own files only)"""
    seen, todo, n = set(), ["props/%s.v" % pid], 0
    per = {}
    while todo:
        f = todo.pop()
        if f in seen or not os.path.exists(os.path.join(COQ, f)):
            continue
        seen.add(f)
        txt = re.sub(r"\(\*.*?\*\)", "", open(os.path.join(COQ, f)).read(), flags=re.S)
        k = len(re.findall(r"^\s*(?:Local\s+|Global\s+)?(?:Theorem|Lemma|Corollary|Example|Fact|Proposition)\s", txt, flags=re.M))
        per[f] = k
        n += k
        for m in re.finditer(r"From\s+V\s+Require\s+(?:Import|Export)\s+([^.]*(?:\.[A-Za-z_][^.\s]*)*)\.", txt):
            pass
        for m in re.finditer(r"\b(lib|gen|model|proofs|props)\.([A-Za-z0-9_]+)", txt):
            todo.append("%s/%s.v" % (m.group(1), m.group(2)))
    return n, per


def build_runner(name):
    """extract coq/extract/X_<name>.v and build build/ocaml/<name>/run; returns (ok, log)"""
    d = os.path.join(BUILD, "ocaml", name)
    os.makedirs(d, exist_ok=True)
    src = os.path.join(COQ, "extract", "X_%s.v" % name)
    stamp = os.path.join(d, ".stamp")
    deps = [src, os.path.join(VERIF, "ocaml", "driver.ml")] + glob.glob(os.path.join(COQ, "lib", "*.vo")) \
        + glob.glob(os.path.join(COQ, "model", "*.vo"))
    newest = max(os.path.getmtime(p) for p in deps if os.path.exists(p))
    if os.path.exists(stamp) and os.path.exists(os.path.join(d, "run")) and os.path.getmtime(stamp) >= newest:
        return True, "up to date"
    rc, out, _ = sh("timeout 600 coqc -R %s V %s -o %s/X_%s.vo" % (COQ, src, d, name), cwd=d, timeout=660)
    if rc:
        return False, out
    shutil.copy(os.path.join(VERIF, "ocaml", "driver.ml"), os.path.join(d, "driver.ml"))
    rc, out2, _ = sh("timeout 600 ocamlfind ocamlopt -O2 -w -a model.mli model.ml driver.ml -o run", cwd=d, timeout=660)
    if rc:
        return False, out + out2
    open(stamp, "w").write("ok")
    return True, out + out2


# ---------------------------------------------------------------- verdicts

def load_known():
    p = os.path.join(VERIF, "known_findings.json")
    try:
        known = json.load(open(p))
    except FileNotFoundError:
        known = []
    extra = os.environ.get("VERIF_EXTRA_KNOWN")      # development aid: entries proposed but not yet reviewed; never set by registered commands
    if extra and os.path.exists(extra):
        known = known + json.load(open(extra))
    return known


def repo_head():
    rc, out, _ = sh("git -C %s rev-parse --short HEAD; git -C %s status --porcelain | head -5" % (REPO, REPO))
    return out.strip().replace("\n", " | ")


class Ctx:
    """one check run of one property"""

    def __init__(self, pid, tier, seed, level="proof"):
        self.pid, self.tier, self.seed, self.level = pid, tier, seed, level
        self.rng = random.Random((seed << 8) ^ int(hashlib.sha1(pid.encode()).hexdigest()[:8], 16))
        self.t0 = time.time()
        self.evaluations = 0
        self.distinct = set()
        self.samples = []
        self.dist = {}
        self.violations = []      # (signature, replay path, text)
        self.known_hits = []
        self.broken = []          # obligations / tie items that no longer check
        self.model_traces = 0
        self.coverage_extra = {}
        self.first_violation_at = None
        self.grace_after_violation = float(os.environ.get("VERIF_GRACE", "90" if tier == "quick" else "900"))
        self.assumptions = []
        self.obligations = 0
        self.discharged = 0
        self.theorems = []
        self.checker_cmd = ""
        self.known = [k for k in load_known() if k.get("property") == pid]
        self.quick = tier == "quick"

    # --- counting
    def count(self, key, n=1):
        self.dist[key] = self.dist.get(key, 0) + n

    def case(self, canon_key, nontrivial=True, sample=None):
        if self.first_violation_at is not None and time.time() - self.first_violation_at > self.grace_after_violation:
            self.coverage_extra["stopped_early"] = "a violation had been on record for %ds" % self.grace_after_violation
            raise StopEarly()
        self.evaluations += 1
        if nontrivial:
            self.distinct.add(hashlib.sha1(repr(canon_key).encode()).digest()[:8])
        if sample is not None and len(self.samples) < 6 and (self.evaluations % 97 == 1 or len(self.samples) < 2):
            self.samples.append(sample)

    # --- reporting
    def write_replay(self, kind, signature, case, observed=None, expected=None, obligation=None):
        d = os.path.join(VERIF, "replays", self.pid)
        os.makedirs(d, exist_ok=True)
        body = {"property": self.pid, "kind": kind, "signature": signature, "seed": self.seed, "case": case,
                "observed": observed, "expected": expected, "obligation": obligation, "repo_head": repo_head()}
        txt = json.dumps(body, indent=1, default=repr)
        path = os.path.join(d, hashlib.sha1(txt.encode()).hexdigest()[:12] + ".json")
        with open(path, "w") as f:
            f.write(txt)
        return path

    def violation(self, signature, case, observed=None, expected=None, kind="impl-oracle", what=""):
        """a failure of the property's own statement on the implementation"""
        for k in self.known:
            if k.get("status") == "known" and k.get("signature") == signature:
                if signature not in [h[0] for h in self.known_hits]:
                    self.known_hits.append((signature, k.get("what", what)))
                return
        if any(v[0] == signature for v in self.violations):
            return
        path = self.write_replay(kind, signature, case, observed, expected)
        self.violations.append((signature, path, what))
        if self.first_violation_at is None:
            self.first_violation_at = time.time()

    def tie_broken(self, what, detail=""):
        n = sum(1 for w, _ in self.broken if w == what)
        self.count("broken:" + what)
        if n < 3:        # keep the first few instances of each kind as evidence
            self.broken.append((what, detail))

    def finish(self):
        """print verdict lines, write evidence, return exit code"""
        wall = time.time() - self.t0
        rc = 0
        for sig, what in self.known_hits:
            print("KNOWN-FINDING: property=%s %s [%s]" % (self.pid, what, sig))
        for sig, path, what in self.violations:
            print("VIOLATION property=%s replay=%s  (%s: %s)" % (self.pid, path, sig, what))
            rc = 1
        if self.broken and not self.violations:
            path = self.write_replay("obligation", "obligation-broken", None,
                                     obligation=[{"item": w, "detail": d[-4000:]} for w, d in self.broken])
            print("VIOLATION property=%s replay=%s  broken: %s no-failing-input-found"
                  % (self.pid, path, ", ".join(sorted(set(w for w, _ in self.broken)))))
            rc = 1
        cov = {
            "obligations": self.obligations, "discharged": self.discharged,
            "checker_cmd": self.checker_cmd, "trusted_base": TRUSTED_BASE + self.assumptions,
            "theorems": self.theorems,
            "evaluations": self.evaluations, "distinct_nontrivial": len(self.distinct),
            "rule": self.coverage_extra.pop("rule", ""),
            "samples": self.samples or ["<none>"],
            "traces_validated_against_impl": self.model_traces,
            "input_distribution": self.dist,
            "known_findings_hit": [s for s, _ in self.known_hits],
            "broken_obligations": [w for w, _ in self.broken],
        }
        # keys the evidence schema types stay with the machinery; a harness's free-form note under such a name is filed under note_<name>
        typed = {"evaluations": int, "distinct_nontrivial": int, "states": int, "transitions": int, "traces_validated_against_impl": int,
                 "obligations": int, "discharged": int, "programs": int, "disagreements_checked": int, "exhaustive": bool,
                 "checker_cmd": str, "trusted_base": str, "explanation": str, "samples": list}
        for k, v in list(self.coverage_extra.items()):
            if k in typed and not (isinstance(v, typed[k]) and not (typed[k] is int and isinstance(v, bool))):
                self.coverage_extra["note_" + k] = self.coverage_extra.pop(k)
        cov.update(self.coverage_extra)
        ev = {"property_id": self.pid, "tier": self.tier, "seed": self.seed, "level": self.level,
              "coverage": cov, "assumptions": self.assumptions, "wall_s": round(wall, 2),
              "violations": len(self.violations) + (1 if self.broken and not self.violations else 0)}
        # evidence/ describes /repo; a run against another tree (REPO=..., used to try seeded changes) or with a
        # shortened watchdog writes under build/ instead
        edir = os.path.join(VERIF, "evidence") if os.path.realpath(REPO) == "/repo" and not os.environ.get("VERIF_HARNESS_LIMIT") \
            else os.path.join(BUILD, "evidence-other-tree")
        os.makedirs(edir, exist_ok=True)
        with open(os.path.join(edir, self.pid + ".json"), "w") as f:
            json.dump(ev, f, indent=1, default=repr)
        print("%s %s: obligations %d/%d, %d evaluations (%d distinct non-trivial), %d model/impl traces, %.1fs -> %s"
              % (self.pid, self.tier, self.discharged, self.obligations, self.evaluations, len(self.distinct),
                 self.model_traces, wall, "FAIL" if rc else "ok"))
        return rc


TRUSTED_BASE = [
    "Coq 8.16.1 kernel via coqc full .vo builds (vm_compute used; no native_compute)",
    "no Axiom/Parameter/Admitted in the development (grep gate + Print Assumptions per property theorem)",
    "tools/pygen translator (Python ast -> Gallina constants/tables/shape snapshots)",
    "extraction: ExtrOcamlBasic only, no Extract Constant; ocaml/driver.ml s-expression driver",
    "harness generators/canonicalisers (Python)",
]


_FACTS = {}


def gen_fact(module, name, default=True):
    """a generated boolean fact of the tree under test, read from the translator in-process (not from coq/gen, which a
    concurrent check against another tree may have rewritten in the meantime)"""
    if module not in _FACTS:
        from tools import pygen
        _FACTS[module] = pygen.typed_items(REPO, module)
    v = _FACTS[module].get(name)
    return default if v is None else (v.strip() == "true")


class Hang(BaseException):
    """raised in the main thread by time_limit(): the guarded operation did not return in time"""


class StopEarly(BaseException):
    """raised by Ctx.case() once a violation has been on record for the grace period: the verdict is settled, and a broken tree
    can make every further case slow (operations that hang until their time limit); `check` ends the harness and reports"""


class time_limit:
    """`with C.time_limit(seconds): ...` - SIGALRM-based guard for operations on the real code that a broken
    implementation may turn into an endless loop; raises Hang (a BaseException, so `except Exception` in the code
    under test does not swallow it). Main thread only; nests (the outer timer is restored on exit)."""

    def __init__(self, seconds):
        self.seconds = seconds

    def __enter__(self):
        import signal, threading
        self.active = threading.current_thread() is threading.main_thread()
        if self.active:
            def on_alarm(signum, frame):
                import traceback
                raise Hang("no return within %ss; innermost frames:\n%s" % (self.seconds, "".join(traceback.format_stack(frame, limit=6))))
            self.old_handler = signal.signal(signal.SIGALRM, on_alarm)
            self.old_timer = signal.setitimer(signal.ITIMER_REAL, self.seconds)
            self.t0 = time.time()
        return self

    def __exit__(self, *a):
        import signal
        if self.active:
            signal.setitimer(signal.ITIMER_REAL, 0)
            signal.signal(signal.SIGALRM, self.old_handler)
            if self.old_timer[0] > 0:
                signal.setitimer(signal.ITIMER_REAL, max(0.01, self.old_timer[0] - (time.time() - self.t0)))
        return False


def exc_enum(e):
    import struct, zlib
    if isinstance(e, (UnicodeEncodeError, UnicodeDecodeError, UnicodeError)):
        return "UnicodeError"
    for cls, nm in ((struct.error, "StructError"), (zlib.error, "ZlibError"), (TypeError, "TypeError"),
                    (AttributeError, "AttributeError"), (KeyError, "KeyError"), (IndexError, "IndexError"),
                    (EOFError, "EOFError"), (StopIteration, "StopIteration"), (ValueError, "ValueError")):
        if isinstance(e, cls):
            return nm
    return "Other:" + type(e).__name__
