"""In-memory duplex streams for driving real rpyc Connections deterministically on one thread.

A MemStream end has an inbox; write() appends to the peer's inbox (and to an optional tap).
poll(timeout) never sleeps: when the inbox is empty it calls `on_idle()` (set by the harness: typically
"let the other endpoint serve what it has", or a scripted reference peer) until data arrives or
on_idle reports that nothing more will happen; then it returns False (or True at EOF so that read raises).
Faults: `fail_after_reads/writes` make the n-th read/write call raise EOFError after closing, `cut_inbox_at`
truncates what the peer delivered."""
from rpyc.core.stream import Stream


class MemStream(Stream):
    __slots__ = ("inbox", "peer", "_closed", "on_idle", "tap", "name", "io_log", "fault", "io_count", "MAX_IO_CHUNK", "idle_depth")

    def __init__(self, name="?", chunk=64000):
        self.inbox = bytearray()
        self.peer = None
        self._closed = False
        self.on_idle = None
        self.tap = None          # callable(name, bytes) for every write
        self.name = name
        self.fault = None        # callable(kind, index) -> bool : fail this IO call
        self.io_count = 0
        self.io_log = []
        self.MAX_IO_CHUNK = chunk
        self.idle_depth = 0

    @staticmethod
    def pair(a="A", b="B"):
        x, y = MemStream(a), MemStream(b)
        x.peer, y.peer = y, x
        return x, y

    @property
    def closed(self):
        return self._closed

    def close(self):
        self._closed = True

    def fileno(self):
        if self._closed:
            raise EOFError("closed")
        return 0

    def _io(self, kind):
        i = self.io_count
        self.io_count += 1
        self.io_log.append(kind)
        if self.fault is not None and self.fault(kind, i):
            self.close()
            raise EOFError("injected %s fault at io %d" % (kind, i))

    def poll(self, timeout):
        if self._closed:
            raise EOFError("closed")
        self._io("poll")
        guard = 0
        while not self.inbox:
            if self.peer is None or self.peer._closed:
                return True          # readable: EOF
            if self.on_idle is None or self.idle_depth > 40:
                return False
            self.idle_depth += 1
            try:
                progressed = self.on_idle()
            finally:
                self.idle_depth -= 1
            guard += 1
            if not progressed or guard > 10000:
                return bool(self.inbox)
        return True

    def read(self, count):
        if self._closed:
            raise EOFError("closed")
        self._io("read")
        if len(self.inbox) < count:
            # the rest will never arrive in a single-threaded run: the peer ended or cut the stream
            self.close()
            raise EOFError("connection closed by peer")
        out = bytes(self.inbox[:count])
        del self.inbox[:count]
        return out

    def write(self, data):
        if self._closed:
            raise EOFError("closed")
        self._io("write")
        if self.peer is None or self.peer._closed:
            self.close()
            raise EOFError("peer closed")
        if self.tap:
            self.tap(self.name, bytes(data))
        self.peer.inbox += data


def connect_pair(service_a, service_b, config_a=None, config_b=None, compress=True):
    """two real Connections over a MemStream pair, each serving the other when idle"""
    from rpyc.core.channel import Channel
    from rpyc.core.protocol import Connection
    sa, sb = MemStream.pair()
    ca = Connection(service_a, Channel(sa, compress=compress), config=config_a or {})
    cb = Connection(service_b, Channel(sb, compress=compress), config=config_b or {})

    crashes = []          # (connection, exception) for everything but EOFError that ended a side's serving

    def pump(conn, stream):
        def f():
            if conn.closed or stream._closed:
                return False
            if not stream.inbox:
                return False
            try:
                if conn._recvlock.locked():
                    # conn is itself blocked in poll() further up this (single) thread's stack: in a real deployment its
                    # own serve loop would pick the message up; emulate that without re-taking the receive lock
                    # (its receive lock is released around the dispatch, as its own serve() would have released it before dispatching)
                    data = conn._channel.recv()
                    conn._recvlock.release()
                    try:
                        conn._dispatch(data)
                    finally:
                        conn._recvlock.acquire()
                else:
                    conn.serve(0)
            except EOFError:
                return False
            except BaseException as e:
                # something other than EOFError left this side's serving: its serving thread (serve_all / the waiting thread) would die
                # with it and serve_all's `finally` would close - it must NOT travel on through the OTHER side's frames of this single
                # stack as if it had been delivered. Harness-level exceptions (watchdogs, Ctrl-C) pass.
                harness_level = (type(e).__module__, type(e).__name__) in (("harness.common", "Hang"), ("harness.common", "StopEarly"), ("harness.vsched", "Abort"))
                if harness_level or (type(e) in (KeyboardInterrupt, MemoryError) and not getattr(e, "_remote_tb", None)):
                    raise
                crashes.append((conn, e))
                try:
                    conn.close()
                except Exception:
                    pass
                return False
            return True
        return f
    sa.on_idle = pump(cb, sb)     # when A has nothing to read, let B serve
    sb.on_idle = pump(ca, sa)
    ca._harness_crashes = cb._harness_crashes = crashes
    return ca, cb, sa, sb
