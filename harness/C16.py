"""C16 — a server keeps serving good clients correctly whatever bad clients do.

Real ThreadedServer / ThreadPoolServer instances (TCP loopback / unix sockets, with and without a toy authenticator, service
class or instance, pools of 2-4 workers) and a real ForkingServer (own process) face scripted hostile clients -- garbage
frames, corrupt compressed data, truncated frames, absurd length fields, a few stray bytes, random bytes, abrupt resets at any
point, failed and never-finished authentication -- interleaved with well-behaved raw-protocol clients whose every reply is
checked against the reference semantics of 'own service instance, own table of exported objects' (ids harvested on one
connection are tried on another).  After every hostile event a fresh well-behaved client must be accepted and answered within
a bound and the server's threads must still be there.  The bookkeeping and every reply are compared with the extracted model
(coq/model/Server.v) on the same history.  The engine (helper processes, clients, observation) is harness/C17.py."""
import os, struct, threading
from harness import common as C
from harness import C17 as S

META = {
    "level": "proof",
    "level_text": "props/C16.v, over the transition system of model/Server.v in which a client may send ANY byte string at any time and leave at any point: "
                  "(isolation) no event of, or on behalf of, one client changes the record of another connection; with a service class registered a connection's "
                  "service state, table and replies are a function of the requests decoded from its own buffer; a connection resolves only object ids it was itself "
                  "given and never an id harvested on another connection; (confinement, threaded/forking) as long as nobody calls close() and accept() itself does not fail with an OS error (or the tree's "
                  "accept loop survives such errors: fact accept_survives_oserror, refutation c16_accept_error_refuted) the accept loop takes the "
                  "next queued connection whatever the clients did, a well-behaved client's request is served by its own worker from its own state with no hypothesis "
                  "on the others, a worker's failure (a frame that raises, or ends in a BaseException) closes that connection, runs its hook once, removes its socket and leaves every "
                  "other connection and the server untouched (the 'served from its own state' clause and the id clauses are definitional in this model: object ids are "
                  "(owner connection, index) pairs; their content is checked by the harness against real ids); (thread pool) wherever a connection with a "
                  "complete request is, its next step is enabled unless it waits in the queue with no free worker -- and that can last for ever: refutation theorems "
                  "carry the witnesses (nbThreads = 2, two truncated-frame clients, one good client: the running server is quiescent with the good request unserved; "
                  "one client that never finishes authentication blocks the pool's accept loop).",
    "level_note": "Not in the model, harness only: reuse of a departed client's descriptor number by a newcomer while the hook still runs (hookhold), a client on "
                  "descriptor 0 (connect0), two connections set up at once (twin), a class shown by two "
                  "clients under one name (classref), clients that reset before accept (knock). A complete message that makes the server wait for its sender (a nested request never answered, a reply never read) is the model's NStall: it "
                  "blocks a reader exactly like an unfinished frame (generated: 'stall'; the never-read flavour is the same class and is not generated). Descriptor exhaustion "
                  "enters as the event EAcceptFail. Partial: threads, processes, fork, poll and the kernel's accept queue appear only through their effect on the bookkeeping; descriptor exhaustion is outside. "
                  "zlib and the request decoder are parameters of the model (theorems hold for all of them); the extracted instance is given the decoder as a finite "
                  "table and, for well-formed requests, a placeholder payload of the same framing (the real payload carries run-time object ids). "
                  "Trusted: Coq kernel, pygen templates, extraction + driver, harness, harness/refcodec.py as the reading of the wire format.",
    "technique": "Coq: non-interference and invariants over an event transition system quantified over all byte strings + refutation witnesses; regenerated control "
                 "skeletons and facts; differential correspondence with real servers under scripted hostile clients; implementation-level oracle on every good client's replies",
    "gen": ["server", "channel", "stream", "protocol", "libinit"],
    "shapes": ["server.*", "channel.*", "stream.SocketStream.*", "stream.Stream.poll", "stream.compat.*", "stream.lib.*", "stream.retry_errnos",
               "protocol.Connection.serve", "protocol.Connection.serve_all", "protocol.Connection.poll", "protocol.Connection._dispatch",
               "protocol.Connection._dispatch_request", "protocol.Connection._send", "protocol.Connection.close", "protocol.Connection._cleanup",
               "protocol.Connection.__init__", "protocol.Connection.sync_request", "protocol.Connection._netref_factory",
               "protocol.DEFAULT_CONFIG.keys", "libinit.*"],
    "models": ["server"],
    "model_files": ["Server"],
    "assumptions": [
        "object ids are not reused while the harness keeps the service instances and their objects alive",
        "memory exhaustion is outside the model; descriptor exhaustion is the event EAcceptFail, failure to start the thread / child process for an accepted client the event ESpawnFail (harness op nospawn: rpyc.utils.server.spawn raises once; compared with the model state by state on the threaded server)",
        "the toy authenticator stands for any authenticator that reads from the socket before deciding",
    ],
}


# ---------------------------------------------------------------- probe run inside the helper process after every event

def probe_threads(h, idx, it):
    """the server's own threads are still there after whatever the clients just did"""
    if h.closed_called or h.tainted:
        return
    kind = h.cfg["kind"]
    if not h.thread.is_alive():
        h.violation("server-thread-died:%s" % kind, idx, observed="accept loop thread ended", expected="alive", what="the accept loop ended although nobody closed the server")
        h.tainted = True
        return
    if kind == "pool":
        srv = h.srv
        dead = [t.name for t in list(srv.workers) + [srv.polling_thread] if not t.is_alive()]
        if dead:
            h.violation("pool-worker-thread-died", idx, observed=dead, expected="all alive", what="a thread of the pool ended although nobody closed the server")
            h.tainted = True


S.PROBES["c16"] = probe_threads


# ---------------------------------------------------------------- generation

def gen_history(r, quick=True):
    kind = r.choice(["threaded", "threaded", "pool", "pool", "pool"])
    cfg = {"kind": kind, "transport": r.choice(["tcp", "tcp", "unix"]), "auth": r.random() < 0.35, "cls": r.random() < 0.8,
           "nw": r.choice([2, 2, 3, 4]), "batch": r.choice([1, 2, 10])}
    g = S.Gen(r, cfg)
    nsteps = r.randrange(5, 12 if quick else 24)
    bad = {}            # hostile clients: cid -> pending incomplete frame?
    stalled = set()
    killed = []
    stallers = set()

    def probe():
        """a fresh well-behaved client: connect, get the root, call it, leave"""
        if g.busy is not None or len(g.ever) >= 14:
            # the accept loop is inside an authenticator: the next client shows whether it is accepted at all
            if len(g.ever) < 14:
                g.connect("raw", S.AUTH_OK)
            return
        c = g.connect("raw", S.AUTH_OK)
        if starved():
            return
        g.good_req(c)
        if r.random() < 0.6:
            g.good_req(c)
        if r.random() < 0.7:
            g.leave(c, r.choice(["fin", "close", "rst"]))

    def starved():
        return cfg["kind"] == "pool" and sum(1 for c, p in bad.items() if p and c in g.alive) >= cfg["nw"]

    g.connect("raw", S.AUTH_OK)
    for _ in range(nsteps):
        x = r.random()
        good = [c for c, a in g.alive.items() if a["served"] and c not in bad and a["ckind"] == "raw" and (a["auth"] == S.AUTH_OK or not cfg["auth"])]
        if x < 0.30:
            # a new hostile client, or an old one again
            live_bad = [c for c in bad if isinstance(c, int) and c in g.alive and c not in stalled and c not in stallers
                        and (not cfg["auth"] or g.alive[c]["auth"] == S.AUTH_OK)]
            if live_bad and r.random() < 0.4:
                c = r.choice(live_bad)
            else:
                if len(g.ever) >= 14:
                    continue
                auth = S.AUTH_OK if not cfg["auth"] else r.choice([S.AUTH_OK, S.AUTH_OK, S.AUTH_FAIL, S.AUTH_STALL])
                c = g.connect("raw", auth)
                bad[c] = False
                if cfg["auth"] and auth != S.AUTH_OK:
                    if auth == S.AUTH_STALL:
                        stalled.add(c)
                    probe()
                    continue
            if r.random() < 0.12 and not bad.get(c) and g.alive[c]["served"] and not starved() and g.busy is None:
                # make the server wait for this client: a nested request it never answers
                g.items.append(["stall", c])
                stallers.add(c)
                bad[c] = True
                g.alive[c]["served"] = False
                probe()
                continue
            if r.random() < 0.15 and not bad.get(c) and g.alive[c]["served"] and not starved() and g.busy is None:
                # make the server raise SystemExit while it serves this connection
                g.items.append(["kill", c])
                g.alive[c]["served"] = False
                killed.append(c)
                probe()
                continue
            label, b = S.hostile_bytes(r)
            g.items.append(["send", c, b.hex()])
            buf = bad.get("buf%d" % c, b"") + b
            bad["buf%d" % c] = buf
            bad[c] = S.pending_incomplete(buf)
            if cfg["kind"] != "pool" and label in ("garbage-frame", "bad-zlib"):
                g.alive[c]["served"] = False
            probe()
        elif x < 0.305 and not g.closed and len(g.ever) < 13 and cfg["transport"] == "tcp":
            c = g.next_cid
            g.next_cid += 1
            g.items.append(["knock", c])
            g.ever.append(c)
            probe()
        elif x < 0.31 and good and not starved() and g.busy is None:
            c = r.choice(good)
            g.items.append(["classref", c])
            g.alive[c]["served"] = False
            bad[c] = False
            probe()
        elif x < 0.31 and good and g.busy is None and not g.closed and len(g.ever) < 13 and not starved():
            # a good client leaves and the next one connects while the first one's disconnect hook is still running
            c = r.choice(good)
            d = g.next_cid
            g.next_cid += 1
            g.items.append(["hookhold", c, d, r.choice(["fin", "rst"])])
            g.alive.pop(c)
            g.ever.append(d)
            g.alive[d] = {"ckind": "raw", "auth": S.AUTH_OK, "served": True, "blocked": False}
            g.tables[d] = []
            g.good_req(d)
        elif x < 0.32 and cfg["kind"] == "threaded" and cfg["cls"] and not g.closed and len(g.ever) < 13:
            # two clients connect at the same time
            a, b = g.next_cid, g.next_cid + 1
            g.next_cid += 2
            g.items.append(["twin", a, b])
            for c in (a, b):
                g.ever.append(c)
                g.alive[c] = {"ckind": "raw", "auth": S.AUTH_OK, "served": True, "blocked": False}
                g.tables[c] = []
            g.good_req(b)
        elif x < 0.34 and g.busy is None and not g.closed and len(g.ever) < 14 and cfg["kind"] != "oneshot":
            # the process runs out of descriptors while a client connects: accept() fails with EMFILE
            c = g.next_cid
            g.next_cid += 1
            g.items.append(["emfile", c])
            g.ever.append(c)
            g.alive[c] = {"ckind": "raw", "auth": S.AUTH_OK, "served": not starved(), "blocked": False}
            g.tables[c] = []
            if not starved():
                g.good_req(c)
        elif x < 0.45 and [c for c in bad if isinstance(c, int) and c in g.alive]:
            c = r.choice([c for c in bad if isinstance(c, int) and c in g.alive])
            g.leave(c, r.choice(["rst", "rst", "fin"]))
            stalled.discard(c)
            probe()
        elif x < 0.85 and good and not starved():
            g.good_req(r.choice(good))
        elif good:
            g.leave(r.choice(good))
        else:
            probe()
    if r.random() < 0.5:
        g.srvclose()
    return cfg, g.items


def witnesses():
    out = []
    trunc = struct.pack(">IB", 10, 0).hex()
    for transport in ("tcp", "unix"):
        base = {"kind": "pool", "transport": transport, "auth": False, "cls": True, "nw": 2, "batch": 10}
        # the design's witness of F7: nbThreads = 2, two truncated-header clients, one good client
        out.append((dict(base), [["connect", 1, "raw", 0], ["connect", 2, "raw", 0], ["send", 1, trunc], ["send", 2, trunc],
                                 ["connect", 3, "raw", 0], ["req", 3, S.QROOT, None, 0]]))
        # one truncated client fewer: everybody is served
        out.append((dict(base), [["connect", 1, "raw", 0], ["send", 1, trunc], ["connect", 3, "raw", 0], ["req", 3, S.QROOT, None, 0],
                                 ["req", 3, S.QBUMP, [3, 0], 0], ["leave", 1, "rst"], ["req", 3, S.QBUMP, [3, 0], 0]]))
        # the same two clients against the threaded server: the good client is served
        out.append((dict(base, kind="threaded"), [["connect", 1, "raw", 0], ["connect", 2, "raw", 0], ["send", 1, trunc], ["send", 2, trunc],
                                                  ["connect", 3, "raw", 0], ["req", 3, S.QROOT, None, 0], ["req", 3, S.QMAKE, [3, 0], 0]]))
        # a client that never finishes authentication, then a good one
        for kind in ("threaded", "pool"):
            out.append((dict(base, kind=kind, auth=True), [["connect", 1, "raw", S.AUTH_STALL], ["connect", 2, "raw", S.AUTH_OK], ["req", 2, S.QROOT, None, 0]]))
            out.append((dict(base, kind=kind, auth=True), [["connect", 1, "raw", S.AUTH_FAIL], ["connect", 2, "raw", S.AUTH_OK], ["req", 2, S.QROOT, None, 0],
                                                           ["leave", 1, "fin"], ["req", 2, S.QBUMP, [2, 0], 0]]))
        # cross-talk: ids harvested on one connection tried on the other, service class and shared instance
        for cls in (True, False):
            o = 1 if cls else 0
            o2 = 2 if cls else 0
            for kind in ("threaded", "pool"):
                out.append((dict(base, kind=kind, cls=cls),
                            [["connect", 1, "raw", 0], ["connect", 2, "raw", 0], ["req", 1, S.QROOT, None, 0], ["req", 1, S.QMAKE, [o, 0], 0],
                             ["req", 2, S.QSTR, [o, 1], 0], ["req", 2, S.QROOT, None, 0], ["req", 2, S.QSTR, [o, 1], 0], ["req", 2, S.QDEL, [o, 1], 0],
                             ["req", 2, S.QMAKE, [o2, 0], 0], ["req", 1, S.QSTR, [o2, 2 if not cls else 1], 0], ["req", 1, S.QBUMP, [o, 0], 0], ["req", 2, S.QBUMP, [o2, 0], 0]]))
    # a client connects while a departed client's disconnect hook is still running (the departed one's descriptor number is free again)
    for kind in ("pool", "threaded"):
        for transport in ("tcp", "unix"):
            for auth in (False, True):
                base = {"kind": kind, "transport": transport, "auth": auth, "cls": True, "nw": 2, "batch": 10}
                out.append((dict(base), [["connect", 1, "raw", 0], ["req", 1, S.QROOT, None, 0], ["hookhold", 1, 2], ["req", 2, S.QROOT, None, 0], ["req", 2, S.QBUMP, [2, 0], 0]]))
                out.append((dict(base), [["connect", 1, "raw", 0], ["req", 1, S.QROOT, None, 0], ["hookhold", 1, 2, "rst"], ["req", 2, S.QROOT, None, 0], ["req", 2, S.QBUMP, [2, 0], 0]]))
                out.append((dict(base), [["connect", 1, "raw", 0], ["connect", 2, "raw", 0], ["req", 2, S.QROOT, None, 0], ["hookhold", 2, 3], ["req", 3, S.QROOT, None, 0],
                                         ["req", 1, S.QROOT, None, 0], ["hookhold", 3, 4], ["req", 4, S.QROOT, None, 0]]))
            # a client whose server-side socket is descriptor 0
            if transport == "tcp" and kind == "pool":
              out.append(({"kind": kind, "transport": transport, "auth": False, "cls": True, "nw": 2, "batch": 10},
                        [["connect0", 1], ["req", 1, S.QROOT, None, 0], ["req", 1, S.QBUMP, [1, 0], 0], ["leave", 1, "fin"], ["connect", 2, "raw", 0], ["req", 2, S.QROOT, None, 0]]))
    # clients that connect and reset at once, then a good client
    for kind in ("threaded", "pool"):
        for auth in (False, True):
            base = {"kind": kind, "transport": "tcp", "auth": auth, "cls": True, "nw": 2, "batch": 10}
            out.append((dict(base), [["connect", 1, "raw", 0], ["req", 1, S.QROOT, None, 0], ["knock", 2], ["knock", 3], ["knock", 4], ["knock", 5],
                                     ["req", 1, S.QBUMP, [1, 0], 0], ["connect", 6, "raw", 0], ["req", 6, S.QROOT, None, 0]]))
    # two clients show the server a class of the same name and id: each must be asked about its own
    for kind in ("threaded", "pool"):
        for transport in ("tcp", "unix"):
            base = {"kind": kind, "transport": transport, "auth": False, "cls": True, "nw": 2, "batch": 10}
            out.append((dict(base), [["connect", 1, "raw", 0], ["classref", 1], ["connect", 2, "raw", 0], ["classref", 2], ["connect", 3, "raw", 0], ["req", 3, S.QROOT, None, 0]]))
            out.append((dict(base), [["connect", 1, "raw", 0], ["classref", 1], ["leave", 1, "fin"], ["connect", 2, "raw", 0], ["classref", 2]]))
    # a server with a formatting DEBUG log handler (what rpyc.lib.setup_logger installs): a failing request that carries an object of the client's
    # by reference, from a client that then goes silent; the others must still be accepted and served
    for kind in ("threaded", "pool"):
        for transport in ("tcp", "unix"):
            base = {"kind": kind, "transport": transport, "auth": False, "cls": True, "nw": 2, "batch": 10, "debuglog": True}
            out.append((dict(base), [["connect", 1, "raw", 0], ["req", 1, S.QROOT, None, 0], ["connect", 2, "raw", 0], ["logbomb", 2], ["req", 1, S.QBUMP, [1, 0], 0],
                                     ["connect", 3, "raw", 0], ["req", 3, S.QROOT, None, 0]]))
    # the worker thread for a new client cannot be started (thread limit reached by idle connections)
    for transport in ("tcp", "unix"):
        out.append(({"kind": "threaded", "transport": transport, "auth": False, "cls": True, "nw": 2, "batch": 10},
                    [["connect", 1, "raw", 0], ["req", 1, S.QROOT, None, 0], ["nospawn", 2], ["req", 1, S.QBUMP, [1, 0], 0], ["connect", 3, "raw", 0], ["req", 3, S.QROOT, None, 0]]))
    # two clients connecting at the same time: each connection must be created with its own endpoints / credentials
    for auth in (False, True):
        for transport in ("tcp", "unix"):
            base = {"kind": "threaded", "transport": transport, "auth": auth, "cls": True, "nw": 2, "batch": 10}
            out.append((dict(base), [["twin", 1, 2], ["req", 1, S.QROOT, None, 0], ["req", 2, S.QROOT, None, 0], ["req", 1, S.QBUMP, [1, 0], 0]]))
            out.append((dict(base), [["connect", 1, "raw", 0], ["req", 1, S.QROOT, None, 0], ["twin", 2, 3], ["req", 3, S.QROOT, None, 0], ["leave", 2, "fin"],
                                     ["req", 1, S.QBUMP, [1, 0], 0]]))
    # several clients that fail authentication come and go: nothing of them may stay behind, a good client is served afterwards
    for kind in ("threaded", "pool"):
        for transport in ("tcp", "unix"):
            its = []
            for c in range(1, 6):
                its += [["connect", c, "raw", S.AUTH_FAIL], ["leave", c, "fin" if c % 2 else "rst"]]
            its += [["connect", 6, "raw", 0], ["req", 6, S.QROOT, None, 0], ["req", 6, S.QBUMP, [6, 0], 0], ["leave", 6, "close"]]
            out.append(({"kind": kind, "transport": transport, "auth": True, "cls": True, "nw": 2, "batch": 10}, its))
    # clients that make the server wait for them (a nested request never answered): nbThreads of them, then a good client
    for kind in ("threaded", "pool"):
        base = {"kind": kind, "transport": "tcp", "auth": False, "cls": True, "nw": 2, "batch": 10}
        out.append((dict(base), [["connect", 1, "raw", 0], ["connect", 2, "raw", 0], ["stall", 1], ["stall", 2], ["connect", 3, "raw", 0], ["req", 3, S.QROOT, None, 0]]))
        out.append((dict(base), [["connect", 1, "raw", 0], ["stall", 1], ["connect", 3, "raw", 0], ["req", 3, S.QROOT, None, 0], ["leave", 1, "rst"], ["req", 3, S.QBUMP, [3, 0], 0]]))
        # accept() fails with EMFILE while a client is being served
        for transport in ("tcp", "unix"):
            out.append((dict(base, transport=transport), [["connect", 1, "raw", 0], ["req", 1, S.QROOT, None, 0], ["emfile", 2], ["req", 1, S.QBUMP, [1, 0], 0],
                                                          ["req", 2, S.QROOT, None, 0]]))
    # a client that makes the server raise SystemExit, once and nbThreads times, then a good client
    for kind in ("threaded", "pool"):
        base = {"kind": kind, "transport": "tcp", "auth": False, "cls": True, "nw": 2, "batch": 10}
        out.append((dict(base), [["connect", 1, "raw", 0], ["kill", 1], ["connect", 2, "raw", 0], ["req", 2, S.QROOT, None, 0]]))
        out.append((dict(base), [["connect", 1, "raw", 0], ["connect", 2, "raw", 0], ["kill", 1], ["kill", 2], ["connect", 3, "raw", 0], ["req", 3, S.QROOT, None, 0],
                                 ["req", 3, S.QBUMP, [3, 0], 0]]))
    # every hostile shape once against every kind, followed by a good client
    import random
    r = random.Random(16)
    for kind in ("threaded", "pool"):
        for label in ("garbage-frame", "bad-zlib", "truncated", "absurd-length", "short", "random", "empty-frame"):
            _, b = S.hostile_bytes(r, label)
            out.append(({"kind": kind, "transport": "tcp", "auth": False, "cls": True, "nw": 3, "batch": 2},
                        [["connect", 1, "raw", 0], ["send", 1, b.hex()], ["connect", 2, "raw", 0], ["req", 2, S.QROOT, None, 0], ["req", 2, S.QBUMP, [2, 0], 0],
                         ["leave", 1, "rst"], ["req", 2, S.QMAKE, [2, 0], 0]]))
    return out


def forking_jobs(r, n):
    cfg = {"kind": "forking", "transport": "tcp", "auth": False, "cls": True, "nw": 0, "batch": 0}
    out = []
    for i in range(n):
        items, alive, nxt = [], [], 1
        for _ in range(r.randrange(3, 8)):
            x = r.random()
            if x < 0.35 or not alive:
                items.append(["connect", nxt, "rpyc", 0]); alive.append(nxt); nxt += 1
            elif x < 0.6:
                _, b = S.hostile_bytes(r)
                items.append(["hostile", nxt, b.hex(), r.choice(["stay", "fin", "rst"])]); nxt += 1
            elif x < 0.85:
                items.append(["call", r.choice(alive), r.randrange(100)])
            else:
                c = r.choice(alive); alive.remove(c); items.append(["leave", c, "close"])
        out.append((dict(cfg), items))
    return out


def nontrivial(cfg, items):
    """at least one hostile event and one well-behaved request (or call) after it"""
    hostile_at = None
    for j, it in enumerate(items):
        if it[0] in ("send", "hostile", "kill", "stall", "emfile", "twin", "hookhold", "connect0", "nospawn", "knock", "classref", "logbomb") or (it[0] == "connect" and cfg["auth"] and it[3] != S.AUTH_OK):
            hostile_at = j if hostile_at is None else hostile_at
        elif hostile_at is not None and it[0] in ("req", "call"):
            if cfg["kind"] == "forking" or S.well_behaved(cfg, items, j):
                return True
    return False


# ---------------------------------------------------------------- entry points

def run(ctx):
    r = ctx.rng
    model = C.Model("server")
    model = model if model.available() else None
    if model is None:
        ctx.tie_broken("runner:server", "extracted model not built")
    facts = S.gen_facts()
    ctx.coverage_extra["facts"] = dict(zip(S.FACT_NAMES, facts))
    ctx.coverage_extra["rule"] = (
        "a case is one history against one real server: threaded 40% / thread pool 60% (2-4 workers, batch 1/2/10), TCP loopback or unix socket, toy authenticator 35%, "
        "service class 80% / shared instance; 5-11 (quick) / 5-23 steps: 30% a hostile client connects or continues (garbage frame, corrupt zlib with flag 1/2/255, truncated "
        "frame, absurd length, 1-4 bytes, random bytes, empty frame; an unsolicited reply that makes the server ask the client and an exception record for SystemExit in answer; "
        "failed / never-finished authentication), 15% a hostile client leaves (reset 2/3, close), 40% a well-behaved "
        "request (getroot, bump, make, str, del on own ids, on ids harvested on another connection, on never-exported ids; 10% compressed), 15% a good client leaves; after every "
        "hostile step a fresh well-behaved client connects, issues 1-2 requests and mostly leaves; close() at the end of half of the histories; plus fixed witnesses (the starvation "
        "witness and its neighbours, authentication stall/failure, cross-talk with class and shared instance, every hostile shape against every kind) and scripted scenarios against a "
        "real ForkingServer in its own process. non-trivial = at least one hostile event and one well-behaved request after it; distinct by configuration and event list")
    n_rand, n_fork = (280, 6) if ctx.quick else (1500, 60)
    farm = S.Farm(min(8, max(2, C.NCPU // 2)))
    try:
        S.evaluate(ctx, "witness", witnesses(), model, facts, farm, probe="c16", nontrivial_fn=nontrivial)
        S.evaluate(ctx, "random", [gen_history(r, ctx.quick) for _ in range(n_rand)], model, facts, farm, probe="c16", nontrivial_fn=nontrivial)
        S.evaluate(ctx, "forking", forking_jobs(r, n_fork), None, facts, farm, probe="c16", nontrivial_fn=nontrivial)
        S.compared_floor(ctx)
    finally:
        farm.close()


def replay(ctx, rep):
    case = rep["case"] or {}
    model = C.Model("server")
    model = model if model.available() else None
    farm = S.Farm(1)
    try:
        S.evaluate(ctx, "replay", [(case["cfg"], case["items"])], model if case["cfg"]["kind"] != "forking" else None, S.gen_facts(), farm, probe="c16", nontrivial_fn=nontrivial)
    finally:
        farm.close()
